"""C17 -- Writers lose nothing: close, split and rotation keep every record once.

proof:   coq/props/C17.v  (theorems about model/Writers.v instantiated with the GENERATED shape facts of
         gen/Gen_writers.v: what AbstractWriter.__exit__/__del__, AvroWriter.close, StreamWriter.close and
         SplitWriter.write do)
tie:     (T) gen/Gen_writers.v regenerated from the adapters on every run; (C) exhaustive histories of
         write/flush/close/with-exit (+ del) per adapter, an N x limit x suffix-length x target matrix for the split
         writer, and rotation scenarios with a patched clock and pre-existing files are run on the implementation;
         what is on disk afterwards (read with RecordReader AND with independent tools: gzip/bz2/lz4/zstd + a manual
         msgpack frame walk, json.loads per line, fastavro.reader, sqlite3) is compared with the model evaluated
         inside Coq on the same history.

Histories: an operation on a closed writer may raise; that is an outcome (`Raised`) the model predicts, and a
record whose write() raised does not count as written.  After the history the writer object is deleted (`del`);
the disk is observed before the del (when the history closed the writer) and after it.
"""
from __future__ import annotations

import bz2
import gc
import gzip
import io
import itertools
import json
import os
import random
import re
import shutil
import sqlite3
import struct
import datetime as _dt
from pathlib import Path

from vf import core
from vf.coqlit import cbool, clist, cnat, cstr

THEOREMS = [
    "C17_generated_shapes", "C17_generated_defaults", "C17_closed_means_durable", "C17_closed_means_durable_partial",
    "C17_closed_means_durable_full_refuted", "C17_sqlite_order_is_permutation", "C17_refuted_stream_empty_close",
    "C17_refuted_avro_flush_before_write_if_reverted", "C17_empty_output_valid",
    "C17_empty_output_valid_stream_flush_close", "C17_split", "C17_split_bare_close_partial",
    "C17_refuted_split_bare_close", "C17_split_part_names_distinct", "C17_note_split_suffix_overflow",
    "C17_rotation", "C17_rotated_names_distinct", "C17_refuted_rotation_same_second_if_reverted",
    "C17_generated_writer_table", "C17_writer_set", "C17_close_flush_never_raise", "C17_generated_stdout_shapes",
    "C17_stdout_exit_delivers", "C17_stdout_text_delivers_at_once", "C17_stdout_printer_delivers_at_once",
    "C17_generated_given_fp",
]

UTC = _dt.timezone.utc
TS = _dt.datetime(2020, 1, 1, tzinfo=UTC)
MARK = re.compile(r"rec-([AB])-(\d+)-x")
DNUM = {"A": 1, "B": 2}
DNAME = {"c17/a": "A", "c17/b": "B", "c17_a": "A", "c17_b": "B"}

_DESCS = {}


def descs():
    if not _DESCS:
        from flow.record import RecordDescriptor
        _DESCS["A"] = RecordDescriptor("c17/a", [("varint", "n"), ("string", "s")])
        _DESCS["B"] = RecordDescriptor("c17/b", [("string", "s"), ("varint", "n")])
    return _DESCS


def mkrec(letter, i, ts=TS):
    if letter == "P":
        # a "poison" record of descriptor A: its text holds a lone surrogate, which Avro cannot encode
        return descs()["A"](n=i, s="rec-A-%d-x\udce9" % i, _generated=ts)
    return descs()[letter](n=i, s="rec-%s-%d-x" % (letter, i), _generated=ts)


def canon_record(x):
    """(letter, id) of a record read back, or None when it is not one of ours"""
    s = getattr(x, "s", None)
    m = MARK.fullmatch(s) if isinstance(s, str) else None
    if not m:
        return None
    n = getattr(x, "n", None)
    try:
        if int(n) != int(m.group(2)):
            return None
    except Exception:
        return None
    return (m.group(1), int(m.group(2)))


# ------------------------------------------------------------------------------------------------------
# targets

def _has(mod):
    import flow.record.base as b
    return getattr(b, mod, False)


TARGETS = {
    # name: (model adapter, family, extension, writer uri, reader uri, codec, sqlite batch)
    "stream": ("AStream", "stream", ".records", "{p}", "{p}", None, 1000),
    "stream.gz": ("AStream", "stream", ".records.gz", "{p}", "{p}", "gz", 1000),
    "stream.bz2": ("AStream", "stream", ".records.bz2", "{p}", "{p}", "bz2", 1000),
    "stream.lz4": ("AStream", "stream", ".records.lz4", "{p}", "{p}", "lz4", 1000),
    "stream.zst": ("AStream", "stream", ".records.zst", "{p}", "{p}", "zst", 1000),
    "jsonfile": ("APlain", "json", ".json", "{p}", "{p}", None, 1000),
    "jsonl": ("APlain", "json", ".jsonl", "{p}", "{p}", None, 1000),
    "avro": ("AAvro", "avro", ".avro", "{p}", "{p}", None, 1000),
    "sqlite": ("ASqlite", "sqlite", ".sqlite", "sqlite://{p}", "sqlite://{p}", None, 1000),
    "sqlite.b2": ("ASqlite", "sqlite", ".sqlite", "sqlite://{p}?batch_size=2", "sqlite://{p}", None, 2),
    "avro.gz": ("AAvro", "avro", ".avro.gz", "avro://{p}", "avro://{p}", "gz", 1000),
    "avro.bz2": ("AAvro", "avro", ".avro.bz2", "avro://{p}", "avro://{p}", "bz2", 1000),
    "avro.lz4": ("AAvro", "avro", ".avro.lz4", "avro://{p}", "avro://{p}", "lz4", 1000),
    "avro.zst": ("AAvro", "avro", ".avro.zst", "avro://{p}", "avro://{p}", "zst", 1000),
    "line.gz": ("APlain", "text", ".txt.gz", "line://{p}", None, "gz", 1000),
    "line.zst": ("APlain", "text", ".txt.zst", "line://{p}", None, "zst", 1000),
    "text.gz": ("APlain", "text", ".txt.gz", "text://{p}", None, "gz", 1000),
    "text.bz2": ("APlain", "text", ".txt.bz2", "text://{p}", None, "bz2", 1000),
    "text.lz4": ("APlain", "text", ".txt.lz4", "text://{p}", None, "lz4", 1000),
    "text.zst": ("APlain", "text", ".txt.zst", "text://{p}", None, "zst", 1000),
    "csvfile": ("APlain", "text", ".csv", "{p}", None, None, 1000),
    "line": ("APlain", "text", ".txt", "line://{p}", None, None, 1000),
    "text": ("APlain", "text", ".txt", "text://{p}", None, None, 1000),
}


def available_targets():
    out = {}
    for name, t in TARGETS.items():
        if t[5] == "lz4" and not _has("HAS_LZ4"):
            continue
        if t[5] == "zst" and not _has("HAS_ZSTD"):
            continue
        if t[5] == "bz2" and not _has("HAS_BZ2"):
            continue
        out[name] = t
    return out


def decompress(codec, data):
    if codec is None:
        return data
    if codec == "gz":
        return gzip.decompress(data)
    if codec == "bz2":
        return bz2.decompress(data)
    if codec == "lz4":
        import lz4.frame
        with lz4.frame.open(io.BytesIO(data), "rb") as f:
            return f.read()
    if codec == "zst":
        import zstandard
        return zstandard.ZstdDecompressor().stream_reader(io.BytesIO(data), read_across_frames=True).read()
    raise ValueError(codec)


def _ext_hook(code, payload):
    import msgpack
    if code != 0x0E:
        return msgpack.ExtType(code, payload)
    sub, val = msgpack.unpackb(payload, raw=False, ext_hook=_ext_hook, strict_map_key=False, unicode_errors="surrogateescape")
    if sub == 0x11:
        neg, h = val
        v = int.from_bytes(h, "big")
        return -v if neg else v
    if sub == 0x10:
        return ("dt", tuple(val))
    if sub == 0x02:
        return ("D", val[0])
    if sub == 0x01:
        ident, values = val
        return ("R", ident[0] if isinstance(ident, (list, tuple)) else ident, values)
    return ("?", sub)


def walk_frames(data):
    """Independent walk over a record stream: 4-byte big-endian length + msgpack blob per frame.
    -> list of 'H' | ('D', letter) | ('R', letter, id); raises ValueError on anything else."""
    import msgpack
    out = []
    off = 0
    while off < len(data):
        if off + 4 > len(data):
            raise ValueError("truncated length at %d" % off)
        n = struct.unpack(">I", data[off:off + 4])[0]
        off += 4
        blob = data[off:off + n]
        if len(blob) != n:
            raise ValueError("truncated frame at %d" % off)
        off += n
        obj = msgpack.unpackb(blob, raw=False, ext_hook=_ext_hook, strict_map_key=False, unicode_errors="surrogateescape")
        if obj == b"RECORDSTREAM\n":
            out.append("H")
        elif isinstance(obj, tuple) and obj[0] == "D" and obj[1] in DNAME:
            out.append(("D", DNAME[obj[1]]))
        elif isinstance(obj, tuple) and obj[0] == "R" and obj[1] in DNAME:
            marks = [MARK.fullmatch(v) for v in obj[2] if isinstance(v, str)]
            marks = [m for m in marks if m]
            if len(marks) != 1 or marks[0].group(1) != DNAME[obj[1]]:
                raise ValueError("record frame without its marker: %r" % (obj,))
            out.append(("R", marks[0].group(1), int(marks[0].group(2))))
        else:
            raise ValueError("unknown frame %r" % (obj,))
    return out


def frames_records(frames):
    """what a reader must yield for these frames (None = not a record stream)"""
    if not frames or frames[0] != "H":
        return None
    seen = set()
    out = []
    for f in frames[1:]:
        if f == "H":
            continue
        if f[0] == "D":
            seen.add(f[1])
        else:
            if f[1] not in seen:
                return None
            out.append((f[1], f[2]))
    return out


def observe_file(family, codec, path, reader_uri):
    """-> dict(size, indep=<family specific>, indep_err, indep_records, reader=list|None, reader_err)"""
    from flow.record import RecordReader
    obs = dict(size=None, indep=None, indep_err=None, indep_records=None, reader=None, reader_err=None)
    try:
        raw = open(path, "rb").read()
    except OSError as e:
        obs["indep_err"] = "missing: %r" % (e,)
        obs["reader_err"] = "missing"
        return obs
    obs["size"] = len(raw)
    try:
        if family == "stream":
            frames = walk_frames(decompress(codec, raw))
            obs["indep"] = frames
            obs["indep_records"] = frames_records(frames)
        elif family == "json":
            recs = []
            for line in raw.decode("utf-8").splitlines():
                d = json.loads(line)
                if d.get("_type") == "recorddescriptor":
                    continue
                if d.get("_type") != "record":
                    raise ValueError("unexpected json line %r" % (line[:60],))
                m = MARK.fullmatch(d["s"])
                if not m or d["n"] != int(m.group(2)):
                    raise ValueError("json record without marker")
                recs.append((m.group(1), int(m.group(2))))
            obs["indep"] = recs
            obs["indep_records"] = recs
        elif family == "text":
            recs = [(a, int(b)) for a, b in MARK.findall(decompress(codec, raw).decode("utf-8", "surrogateescape"))]
            obs["indep"] = recs
            obs["indep_records"] = recs
        elif family == "avro":
            plain = decompress(codec, raw) if raw else raw
            if len(plain) == 0:
                obs["indep"] = ("KNone", [])
                obs["indep_records"] = None
            else:
                import fastavro
                rd = fastavro.reader(io.BytesIO(plain))
                schema_name = rd.writer_schema.get("name")
                items = list(rd)
                if schema_name == "empty":
                    obs["indep"] = ("KEmpty", [None] * len(items))
                    obs["indep_records"] = [] if not items else None
                else:
                    recs = []
                    for d in items:
                        m = MARK.fullmatch(d.get("s") or "")
                        if not m or d.get("n") != int(m.group(2)):
                            raise ValueError("avro datum without marker")
                        recs.append((m.group(1), int(m.group(2))))
                    obs["indep"] = ("KRec", recs)
                    obs["indep_records"] = recs
        elif family == "sqlite":
            con = sqlite3.connect("file:%s?mode=ro" % path, uri=True)
            try:
                tables = []
                for (tname,) in con.execute("SELECT name FROM sqlite_master WHERE type='table' ORDER BY rowid").fetchall():
                    if tname not in DNAME:
                        raise ValueError("unexpected table %r" % tname)
                    rows = []
                    for (s, n) in con.execute('SELECT s, n FROM "%s" ORDER BY rowid' % tname).fetchall():
                        m = MARK.fullmatch(s or "")
                        if not m or n != int(m.group(2)):
                            raise ValueError("row without marker")
                        rows.append((m.group(1), int(m.group(2))))
                    tables.append((DNAME[tname], rows))
            finally:
                con.close()
            obs["indep"] = tables
            obs["indep_records"] = [r for _, rows in tables for r in rows]
    except Exception as e:  # noqa
        obs["indep_err"] = "%s: %s" % (type(e).__name__, str(e)[:120])
    if reader_uri is not None:
        try:
            with RecordReader(reader_uri) as rd:
                recs = [canon_record(x) for x in rd]
            if any(r is None for r in recs):
                obs["reader_err"] = "reader yields %d records that are not the ones written" % sum(r is None for r in recs)
            else:
                obs["reader"] = recs
        except Exception as e:  # noqa
            obs["reader_err"] = "%s: %s" % (type(e).__name__, str(e)[:120])
    return obs


# ------------------------------------------------------------------------------------------------------
# Gallina printers

def c_rec(r):
    return "(R %d %d)" % (DNUM[r[0]], r[1])


def c_recs(rs):
    return clist([c_rec(r) for r in rs])


def c_frames(frames):
    out = []
    for f in frames:
        if f == "H":
            out.append("FHdr")
        elif f[0] == "D":
            out.append("FD %d" % DNUM[f[1]])
        else:
            out.append("FRec (R %d %d)" % (DNUM[f[1]], f[2]))
    return clist(out)


def c_file(family, obs):
    """the observed file as a model `file` term; None when the independent tool could not read it"""
    if obs["indep_err"] is not None or obs["indep"] is None:
        return None
    if family == "stream":
        return "(FileStream %s)" % c_frames(obs["indep"])
    if family in ("json", "text"):
        return "(FilePlain %s)" % c_recs(obs["indep"])
    if family == "avro":
        hdr, data = obs["indep"]
        return "(FileAvro %s %s)" % (hdr, clist([c_rec(r) if r else "(R 0 0)" for r in data]))
    if family == "sqlite":
        return "(FileSqlite %s)" % clist(["(%d%%N, %s)" % (DNUM[d], c_recs(rows)) for d, rows in obs["indep"]])
    raise ValueError(family)


def c_reader(obs, has_reader):
    if not has_reader:
        return "None"
    if obs["reader"] is None:
        return "(Some None)"
    return "(Some (Some %s))" % c_recs(obs["reader"])


def c_ops(hist):
    out = []
    i = 0
    for op in hist:
        if op[0] == "W":
            out.append("Write (R %d %d)" % (DNUM[op[1]], i))
            i += 1
        else:
            out.append({"F": "Flush", "C": "Close", "X": "WithExit", "E": "WithExitExc", "K": "WithExitExc", "Del": "Del"}[op])
    return clist(out)


def c_outs(outs):
    return clist(outs)


HEADER = r"""From Coq Require Import List Bool String Ascii NArith Arith.
Import ListNotations.
From FR Require Import Writers Gen_writers.
Open Scope string_scope.
Open Scope list_scope.
Definition R (d i : N) : rec := mkRec d i.
Definition FD (d : N) : frame := FDesc d.
Definition outcome_eqb (a b : outcome) : bool := match a, b with Ok, Ok | Raised, Raised => true | _, _ => false end.
Fixpoint list_eqb {A} (e : A -> A -> bool) (a b : list A) : bool :=
  match a, b with [], [] => true | x :: a', y :: b' => e x y && list_eqb e a' b' | _, _ => false end.
Definition frame_eqb (a b : frame) : bool :=
  match a, b with
  | FHdr, FHdr => true | FDesc x, FDesc y => N.eqb x y | FRec x, FRec y => rec_eqb x y | _, _ => false end.
Definition akind_eqb (a b : akind) : bool :=
  match a, b with KNone, KNone | KEmpty, KEmpty | KRec, KRec => true | _, _ => false end.
(* model file vs the file observed with the independent tool (None: the tool could not read it -- never equal).
   Data written under the Avro schema "empty" carries no fields: only its count can be compared. *)
Definition file_same (m : file) (i : option file) : bool :=
  match i with
  | None => false
  | Some i =>
    match m, i with
    | FileStream a, FileStream b => list_eqb frame_eqb a b
    | FilePlain a, FilePlain b => list_eqb rec_eqb a b
    | FileAvro h a, FileAvro h' b =>
        akind_eqb h h' && match h with KEmpty => Nat.eqb (List.length a) (List.length b) | _ => list_eqb rec_eqb a b end
    | FileSqlite a, FileSqlite b =>
        list_eqb (fun x y => N.eqb (fst x) (fst y) && list_eqb rec_eqb (snd x) (snd y)) a b
    | _, _ => false
    end
  end.
(* model readable vs what RecordReader returned (outer None: this target has no reader) *)
Definition reader_same (m : option (list rec)) (i : option (option (list rec))) : bool :=
  match i with
  | None => true
  | Some None => match m with None => true | Some _ => false end
  | Some (Some l) => match m with Some l' => list_eqb rec_eqb l' l | None => false end
  end.
(* one writer, one file: history h (explicit operations), then `del` when with_del *)
Definition chk (k : adapter) (batch : nat) (h : list op) (with_del : bool) (outs : list outcome)
               (f : option file) (rd : option (option (list rec))) : bool :=
  let h' := if with_del then h ++ [Del] else h in
  let st := fst (run writer_shapes batch k (w_init k) h') in
  list_eqb outcome_eqb (outcomes writer_shapes batch k (w_init k) h) outs
  && file_same (w_file st) f && reader_same (readable (w_file st)) rd.
Definition obs := (string * option file * option (option (list rec)))%type.
Fixpoint find_obs (name : string) (l : list obs) : option obs :=
  match l with [] => None | (n, f, r) :: t => if String.eqb n name then Some (n, f, r) else find_obs name t end.
(* the split writer: history h then del; the parts on disk, by name.  (netloc, path) = urlparse of the path the
   SplitWriter receives: a target taken for stdout is one unsuffixed output that never rolls over *)
Definition chk_split (k : adapter) (count suffix_length : nat) (name netloc path : string) (h : list op)
                     (outs : list outcome) (parts : list obs) : bool :=
  let stdout := split_is_stdout writer_shapes netloc path in
  let st := fst (split_run writer_shapes 1000 k count stdout (split_init k) (h ++ [Del])) in
  list_eqb outcome_eqb (split_outcomes writer_shapes 1000 k count stdout (split_init k) h) outs
  && Nat.eqb (List.length (split_files st)) (List.length parts)
  && forallb (fun nf =>
       match find_obs (if stdout then name else part_name name suffix_length (N.of_nat (fst nf))) parts with
       | Some (_, f, r) => file_same (snd nf) f && reader_same (readable (snd nf)) r
       | None => false
       end) (split_files st).
(* the stdout target: after each operation its outcome and the records that have left sys.stdout's buffer *)
Definition chk_stdout (kind : okind) (h : list op) (trace : list (outcome * list rec)) : bool :=
  list_eqb (fun a b => outcome_eqb (fst a) (fst b) && list_eqb rec_eqb (snd a) (snd b))
           (o_trace writer_shapes (stdout_shapes kind) o_init h) trace.
(* the path-template writer: the files on disk afterwards, by relative path *)
Definition chk_rot (k : adapter) (pre : list (path * file)) (clock : list stamp) (h : list pop)
                   (outs : list outcome) (files : list obs) : bool :=
  let res := pt_run writer_shapes 1000 rot_name_py k (pt_init pre clock) h in
  list_eqb outcome_eqb (snd res) outs
  && Nat.eqb (List.length (pt_files (fst res))) (List.length files)
  && forallb (fun nf =>
       match find_obs (fst nf) files with
       | Some (_, f, r) => file_same (snd nf) f && reader_same (readable (snd nf)) r
       | None => false
       end) (pt_files (fst res)).
"""


def known_class(kf, case):
    for f in kf:
        m = f.get("match", {})
        if all(case.get(k) == v for k, v in m.items()):
            return f
    return None


class LibraryFailure(Exception):
    """the library itself refused to set the case up (e.g. RecordWriter(uri) raised): a failing input of the library"""


def _lib(fn, what):
    try:
        return fn()
    except Exception as e:  # noqa
        raise LibraryFailure("%s raised %s: %s" % (what, type(e).__name__, str(e)[:200]))


class Case:
    """one executed case: Coq terms (bool) for the correspondence, the verdict of the property oracle"""
    __slots__ = ("terms", "meta", "problems", "kcase", "harness_error")

    def __init__(self, terms, meta, problems, kcase=None, harness_error=None):
        self.harness_error = harness_error   # the HARNESS could not run the case (never a failing input of the library)
        self.terms = terms          # list of Gallina bool terms
        self.meta = meta            # replay object
        self.problems = problems    # list of str: the property fails on the implementation
        self.kcase = kcase          # dict to match against known findings (when problems)


# ------------------------------------------------------------------------------------------------------
# 1. histories on one writer

# X: the with-block is left normally; E: it is left by an exception (an Exception subclass); K: by KeyboardInterrupt
OPS = ["WA", "WB", "F", "C", "X", "E"]
EXITS = ("X", "E", "K")


class _Boom(Exception):
    pass


def leave_with_block(w, kind):
    """leave a with-block on w: normally (X), by an exception of the user's code (E) or by KeyboardInterrupt (K).
    An exception other than the one raised inside the block propagates (the operation then counts as Raised)."""
    if kind == "X":
        with w:
            pass
        return
    exc = _Boom("raised inside the with-block") if kind == "E" else KeyboardInterrupt()
    try:
        with w:
            raise exc
    except BaseException as e:  # noqa
        if e is not exc:
            raise


def sqlite_order(recs):
    order = []
    for d, _ in recs:
        if d not in order:
            order.append(d)
    return [r for d in order for r in recs if r[0] == d]


def run_history(tname, hist, workdir):
    """Run the history on the implementation.  -> (outs, written, obs_before_del, obs_after_del, errors)"""
    from flow.record import RecordWriter
    k, family, ext, wuri, ruri, codec, batch = TARGETS[tname]
    path = os.path.join(workdir, "h" + ext)
    for p in (path, path + "-journal", path + "-wal"):
        if os.path.exists(p):
            os.remove(p)
    w = _lib(lambda: RecordWriter(wuri.format(p=path)), "RecordWriter(%r)" % wuri.format(p=os.path.basename(path)))
    outs, written, errors = [], [], []
    nid = 0
    for op in hist:
        try:
            if op[0] == "W":
                r = mkrec(op[1], nid)
                nid += 1
                w.write(r)
                written.append((op[1], nid - 1))
            elif op == "F":
                w.flush()
            elif op == "C":
                w.close()
            elif op in EXITS:
                leave_with_block(w, op)
            outs.append("Ok")
        except Exception as e:  # noqa
            outs.append("Raised")
            errors.append("%s: %s" % (type(e).__name__, str(e)[:80]))
    reader_uri = ruri.format(p=path) if ruri else None
    obs1 = observe_file(family, codec, path, reader_uri)
    del w
    gc.collect()
    obs2 = observe_file(family, codec, path, reader_uri)
    return outs, written, obs1, obs2, errors


def history_case(tname, hist, workdir):
    k, family, ext, wuri, ruri, codec, batch = TARGETS[tname]
    outs, written, obs1, obs2, errors = run_history(tname, hist, workdir)
    has_close = any(op in ("C",) + EXITS for op in hist)
    expected = sqlite_order(written) if family == "sqlite" else written
    problems = []
    for label, obs in ((("closed, before del", obs1),) if has_close else ()) + (("after del", obs2),):
        if ruri is not None and obs["reader"] != expected:
            problems.append("%s: RecordReader gives %s, written: %s" % (
                label, obs["reader_err"] or obs["reader"], expected))
        if obs["indep_records"] != expected:
            problems.append("%s: independent read gives %s, written: %s" % (
                label, obs["indep_err"] or obs["indep_records"], expected))
    raises = unexpected_raises(family, hist, outs, errors)
    problems += raises
    kcase = None
    if problems:
        full = list(hist) + ["Del"]
        klass = None
        symptom = None
        if family == "stream" and full[0] in ("C", "Del"):
            klass = "bare-close-first"
            if obs2["indep"] == [] and all(o == "Ok" for o in outs[:1]) and not raises:
                symptom = "zero-byte-stream"
        kcase = dict(adapter=family, klass=klass, symptom=symptom)
    terms = []
    has_reader = ruri is not None
    poison = any(op == "WP" for op in hist)
    if poison:
        # a refused record is not modelled: these histories are judged by the property's oracle alone
        # (the records accepted before and after the refused one must all be readable after close)
        if any(w[0] == "P" for w in written):
            problems.append("the record with an unencodable text was accepted: %s" % [w for w in written if w[0] == "P"])
        meta = dict(kind="history", target=tname, history=list(hist), outcomes=outs, written=[list(x) for x in written],
                    errors=errors, before_del=_obs_brief(obs1) if has_close else None, after_del=_obs_brief(obs2))
        return Case(terms, meta, problems, kcase)
    if has_close:
        terms.append("chk %s %d %s false %s %s %s" % (k, batch, c_ops(hist), c_outs(outs),
                                                     _opt(c_file(family, obs1)), c_reader(obs1, has_reader)))
    terms.append("chk %s %d %s true %s %s %s" % (k, batch, c_ops(hist), c_outs(outs),
                                                _opt(c_file(family, obs2)), c_reader(obs2, has_reader)))
    meta = dict(kind="history", target=tname, history=list(hist), outcomes=outs, written=[list(x) for x in written],
                errors=errors, before_del=_obs_brief(obs1) if has_close else None, after_del=_obs_brief(obs2))
    return Case(terms, meta, problems, kcase)


def unexpected_raises(family, hist, outs, errors):
    """flush / close / leaving a with-block never raise (a writer may be closed twice, closed inside its with-block,
    flushed after close); write() may raise only on a closed writer, for Avro on a second descriptor, or for a record
    that cannot be encoded"""
    problems = []
    closed = False
    first = None
    ei = 0
    for op, out in zip(hist, outs):
        err = None
        if out == "Raised":
            err = errors[ei] if ei < len(errors) else "?"
            ei += 1
        if op[0] == "W":
            letter = "A" if op[1] == "P" else op[1]
            allowed = closed or op[1] == "P" or (family == "avro" and first is not None and letter != first)
            if first is None and not closed:
                first = letter
            if err and not allowed:
                problems.append("write() of a valid record on an open writer raised %s" % err)
        else:
            if err:
                problems.append("%s raised %s" % ({"F": "flush()", "C": "close()", "X": "leaving the with-block",
                                                 "E": "leaving the with-block by an exception",
                                                 "K": "leaving the with-block by KeyboardInterrupt"}[op], err))
            if op in ("C",) + EXITS:
                closed = True
    return problems


def _opt(t):
    return "None" if t is None else "(Some %s)" % t


def _obs_brief(obs):
    return dict(size=obs["size"], independent=repr(obs["indep"])[:300] if obs["indep_err"] is None else obs["indep_err"],
                reader=repr(obs["reader"])[:200] if obs["reader_err"] is None else obs["reader_err"])


BASE_OPS = ["WA", "WB", "F", "C", "X"]


def histories(maxlen):
    """all histories of <= maxlen operations over write A / write B / flush / close / with-exit; all of < maxlen
    operations that also use the exit-by-exception; and, of length maxlen, every history that ENDS by it"""
    for n in range(0, maxlen + 1):
        yield from itertools.product(BASE_OPS, repeat=n)
    for n in range(1, maxlen):
        for h in itertools.product(OPS, repeat=n):
            if "E" in h:
                yield h
    if maxlen >= 1:
        for h in itertools.product(OPS, repeat=maxlen - 1):
            yield h + ("E",)


def history_plan(tier):
    """target -> maximal history length"""
    main = 4 if tier == "quick" else 5
    side = 3 if tier == "quick" else 4
    plan = {}
    for name in available_targets():
        plan[name] = main if name in ("stream", "jsonfile", "avro", "sqlite") else side
    return plan


# ------------------------------------------------------------------------------------------------------
# 1a. writers constructed on a caller-supplied file object; the caller keeps its reference until the very end

GIVEN_MODEL = {   # class -> (model adapter, family, has reader, letters)
    "RecordStreamWriter": ("AStream", "stream", True, "AB"), "RecordOutput": ("AStream", "stream", True, "AB"),
    "StreamWriter": ("AStream", "stream", True, "AB"), "AvroWriter": ("AAvro", "avro", True, "A"),
    "LineWriter": ("APlain", "text", False, "AB"), "TextWriter": ("APlain", "text", False, "AB"),
    "JsonfileWriter": ("APlain", "json", True, "AB"), "RecordPrinter": (None, "text", False, "AB"),
}
GIVEN_EXT = {"stream": ".records", "avro": ".avro", "text": ".txt", "json": ".json"}


def given_case(clsname, fpkind, hist, workdir):
    """hist over WA / WB / F / C on <class>(fp) with fp opened by the caller (plain file, gzip.GzipFile, a large
    BufferedWriter, a text file for the JSON writer); the disk is observed while the caller still holds fp"""
    from vf.factgen import c17 as facts
    k, family, has_reader, _ = GIVEN_MODEL[clsname]
    cls, _ = facts.given_class(clsname)
    codec = "gz" if fpkind == "gzip" else None
    path = os.path.join(workdir, "given" + GIVEN_EXT[family] + (".gz" if codec else ""))
    if os.path.exists(path):
        os.remove(path)
    fp = facts.open_given(fpkind, path)
    w = _lib(lambda: cls(fp), "%s(<%s file object>)" % (clsname, fpkind))
    outs, written, errors, after_write = [], [], [], []
    nid = 0
    for op in hist:
        try:
            if op[0] == "W":
                r = mkrec(op[1], nid)
                nid += 1
                w.write(r)
                written.append((op[1], nid - 1))
            elif op == "F":
                w.flush()
            elif op == "C":
                w.close()
            outs.append("Ok")
        except Exception as e:  # noqa
            outs.append("Raised")
            errors.append("%s: %s" % (type(e).__name__, str(e)[:80]))
        if clsname == "RecordPrinter":
            after_write.append((list(written), observe_file(family, codec, path, None)["indep_records"]))
    reader_uri = None
    if has_reader:
        reader_uri = ("avro://" + path) if family == "avro" else path
    has_close = "C" in hist
    obs1 = observe_file(family, codec, path, reader_uri)          # writer and fp still referenced
    del w
    gc.collect()
    obs2 = observe_file(family, codec, path, reader_uri)          # fp still referenced by the caller
    fp_closed = bool(fp.closed)
    try:
        fp.close()
    except Exception:
        pass
    problems = []
    if clsname == "RecordPrinter":
        # the printer owns no file: it flushes after every record, close() is a no-op
        for acc, got in after_write:
            if got != acc:
                problems.append("after %d writes the file holds %s, written %s" % (len(acc), got, acc))
                break
    else:
        for label, obs in ((("closed, the caller still holds the file object", obs1),) if has_close else ()) + \
                (("after del of the writer, the caller still holds the file object", obs2),):
            if has_reader and obs["reader"] != written:
                problems.append("%s: RecordReader gives %s, written: %s" % (label, obs["reader_err"] or obs["reader"], written))
            if obs["indep_records"] != written:
                problems.append("%s: independent read gives %s, written: %s" % (label, obs["indep_err"] or obs["indep_records"], written))
    raises = unexpected_raises(family, hist, outs, errors)
    problems += raises
    kcase = None
    if problems and family == "stream" and (list(hist) + ["Del"])[0] in ("C", "Del"):
        kcase = dict(adapter="stream", klass="bare-close-first", via="given-fp",
                     symptom="zero-byte-stream" if obs2["indep"] == [] and all(o == "Ok" for o in outs[:1]) and not raises else None)
    elif problems:
        kcase = dict(adapter=family, klass=None, symptom=None)
    terms = []
    if k is not None:
        if has_close:
            terms.append("chk %s 1000 %s false %s %s %s" % (k, c_ops(hist), c_outs(outs), _opt(c_file(family, obs1)), c_reader(obs1, has_reader)))
        terms.append("chk %s 1000 %s true %s %s %s" % (k, c_ops(hist), c_outs(outs), _opt(c_file(family, obs2)), c_reader(obs2, has_reader)))
    meta = dict(kind="given-fp", cls=clsname, fileobj=fpkind, history=list(hist), outcomes=outs, errors=errors,
                fileobj_closed_by_writer=fp_closed, before_del=_obs_brief(obs1) if has_close else None, after_del=_obs_brief(obs2))
    return Case(terms, meta, problems[:4], kcase)


# ------------------------------------------------------------------------------------------------------
# 1b. the stdout target

STDOUT_OPS = ["W", "F", "C", "X", "E"]


def stdout_case(kind, hist, workdir):
    """hist over W (write a record of descriptor A) / F / C / X / E on RecordWriter(<stdout uri of the kind>) with sys.stdout
    replaced by a buffered file object (a pseudo terminal for OPrinter)"""
    from flow.record import RecordWriter
    from vf.factgen import c17 as facts
    uri, tty = {k: (u, t) for k, u, t in facts.STDOUT_KINDS}[kind]
    outs, errors, trace, accepted = [], [], [], []
    with facts.FakeStdout(workdir, tty) as fs:
        w = _lib(lambda: RecordWriter(uri), "RecordWriter(%r)" % uri)
        nid = 0
        for op in hist:
            try:
                if op == "W":
                    r = mkrec("A", nid)
                    nid += 1
                    w.write(r)
                    accepted.append(("A", nid - 1))
                elif op == "F":
                    w.flush()
                elif op == "C":
                    w.close()
                else:
                    leave_with_block(w, op)
                outs.append("Ok")
            except Exception as e:  # noqa
                outs.append("Raised")
                errors.append("%s: %s" % (type(e).__name__, str(e)[:80]))
            trace.append((outs[-1], list(accepted), facts.delivered_marks(kind, fs.snapshot())))
        del w
        gc.collect()
    problems = []
    if fs.stdout_closed:
        problems.append("the writer closed sys.stdout")
    # the property's oracle: (a) leaving the with-block of a writer that is still open delivers everything accepted;
    # (b) the text writer and the record printer deliver every record at once; (c) nothing but write() raises
    is_open = True
    autoflush = kind in ("OText", "OPrinter")
    for op, (out, acc, got) in zip(hist, trace):
        if op in EXITS and is_open and got != acc:
            problems.append("after %s: %s have left stdout's buffer, accepted so far: %s" % (
                "leaving the with-block" if op == "X" else "leaving the with-block by an exception", got, acc))
        if autoflush and got != acc:
            problems.append("after %s: %s have left stdout's buffer, accepted so far: %s (this writer flushes after every record)" % (op, got, acc))
            break
        if got != acc[:len(got)]:
            problems.append("stdout received %s, accepted: %s" % (got, acc))
        if op in ("C",) + EXITS:
            is_open = False
    problems += unexpected_raises("stdout", ["WA" if o == "W" else o for o in hist], outs, errors)
    term = "chk_stdout %s %s %s" % (kind, clist(["Write (R 1 %d)" % i if o == "W" else {"F": "Flush", "C": "Close", "X": "WithExit", "E": "WithExitExc"}[o]
                                                 for o, i in zip(hist, _write_ids(hist))]),
                                    clist(["(%s, %s)" % (out, c_recs(got)) for out, acc, got in trace]))
    meta = dict(kind="stdout", writer=kind, uri=uri, terminal=tty, history=list(hist), outcomes=outs, errors=errors,
                delivered_after_each_op=[[list(x) for x in got] for _, _, got in trace])
    return Case([term], meta, problems[:4], None)


def _write_ids(hist):
    out, i = [], 0
    for o in hist:
        out.append(i)
        if o == "W":
            i += 1
    return out


# ------------------------------------------------------------------------------------------------------
# 2. split

INNER_SCHEME = {"jsonfile": "jsonfile", "jsonl": "jsonfile", "avro": "avro", "csvfile": "csvfile"}


def split_uri(tname, path, count, suf, scheme=False):
    """scheme: spell the inner adapter explicitly also for the stream family (split+stream://...)"""
    k, family, ext, wuri, ruri, codec, batch = TARGETS[tname]
    q = "?count=%d&suffix-length=%d" % (count, suf)
    if family == "stream":
        return ("split+stream://" if scheme else "split://") + path + q
    return "split+%s://%s%s" % (INNER_SCHEME[tname], path, q)


def rdump_target(tname, path, scheme=False):
    k, family, ext, wuri, ruri, codec, batch = TARGETS[tname]
    if family == "stream":
        return ("stream://" + path) if scheme else path
    return ("%s://%s" % (INNER_SCHEME[tname], path)) if scheme else path


def split_target_parts(uri):
    """(netloc, path) of urlparse(<the path SplitWriter is constructed with>), as RecordAdapter derives it from the URI"""
    from urllib.parse import urlparse
    p = urlparse(uri)
    adapter, _, sub = p.scheme.partition("+")
    cls_url = p.netloc + p.path
    if sub:
        cls_url = sub + "://" + cls_url
    q = urlparse(cls_url)
    return q.netloc, q.path


def split_bare_empty_close(hist, count):
    """does the history (incl. the final Del) close a part that is empty and unflushed by a bare close()?"""
    open_, cur, flushed = True, 0, False
    for op in hist:
        if not open_:
            break
        if op[0] == "W":
            cur += 1
            if cur >= count:
                cur, flushed = 0, False
        elif op == "F":
            flushed = True
        elif op in EXITS:
            open_ = False
        elif op in ("C", "Del"):
            if cur == 0 and not flushed:
                return True
            open_ = False
    return False


def expected_part_name(base, suf, i):
    p = Path(base)
    return str(p.with_suffix("." + str(i).zfill(suf) + p.suffix))


def run_split(tname, hist, count, suf, workdir, via="writer", spelling="abs"):
    """spelling: "abs" = absolute path; "bare" = bare relative file name (cwd is the output directory);
    "bare+scheme" = bare name behind an explicit inner adapter scheme (urlparse puts the name into netloc).
    -> (outs, written, {part name: obs}, errors, dir, base, (netloc, path))"""
    from flow.record import RecordReader, RecordWriter
    k, family, ext, wuri, ruri, codec, batch = TARGETS[tname]
    d = os.path.join(workdir, "split")
    shutil.rmtree(d, ignore_errors=True)
    os.makedirs(d)
    base = "out" + ext
    path = os.path.join(d, base) if spelling == "abs" else base
    scheme = spelling == "bare+scheme"
    outs, written, errors = [], [], []
    cwd = os.getcwd()
    if spelling != "abs":
        os.chdir(d)
    try:
        if via == "rdump":
            from flow.record.tools import rdump
            inp = os.path.join(workdir, "split-input.records")
            recs = [(op[1], i) for i, op in enumerate(o for o in hist if o[0] == "W")]
            with RecordWriter(inp) as w:
                for letter, i in recs:
                    w.write(mkrec(letter, i))
            target = rdump_target(tname, path, scheme)
            uri = ("split://" + target) if "://" not in target else ("split+" + target)
            _lib(lambda: rdump.main([inp, "--split=%d" % count, "--suffix-length=%d" % suf, "-w", target]),
                 "rdump --split=%d --suffix-length=%d -w %s" % (count, suf, target))
            outs = ["Ok"] * len(hist)
            written = recs
        else:
            uri = split_uri(tname, path, count, suf, scheme)
            w = _lib(lambda: RecordWriter(uri), "RecordWriter(%r)" % uri)
            nid = 0
            for op in hist:
                try:
                    if op[0] == "W":
                        r = mkrec(op[1], nid)
                        nid += 1
                        w.write(r)
                        written.append((op[1], nid - 1))
                    elif op == "F":
                        w.flush()
                    elif op == "C":
                        w.close()
                    elif op in EXITS:
                        leave_with_block(w, op)
                    outs.append("Ok")
                except Exception as e:  # noqa
                    outs.append("Raised")
                    errors.append("%s: %s" % (type(e).__name__, str(e)[:80]))
            del w
            gc.collect()
    finally:
        os.chdir(cwd)
    parts = {}
    for name in sorted(os.listdir(d)):
        p = os.path.join(d, name)
        parts[name] = observe_file(family, codec, p, (ruri.format(p=p) if ruri else None))
    return outs, written, parts, errors, d, base, split_target_parts(uri)


def split_case(tname, hist, count, suf, workdir, via="writer", matrix=True, spelling="abs"):
    from flow.record import RecordReader
    k, family, ext, wuri, ruri, codec, batch = TARGETS[tname]
    outs, written, parts, errors, d, base, (netloc, upath) = run_split(tname, hist, count, suf, workdir, via, spelling)
    problems = []
    unreadable_empty = []
    # names: the parts are numbered 0 .. m-1
    m = len(parts)
    exp_names = [expected_part_name(base, suf, i) for i in range(m)]
    if sorted(parts) != sorted(exp_names):
        problems.append("part names %s, expected %s" % (sorted(parts), exp_names))
    got_all = []
    sizes = []
    for i, name in enumerate(exp_names):
        obs = parts.get(name)
        if obs is None:
            continue
        got = obs["reader"] if ruri is not None else obs["indep_records"]
        if got is None or obs["indep_records"] != got:
            if family == "stream" and obs["indep"] == []:
                unreadable_empty.append(name)
            else:
                problems.append("part %s is not readable on its own: %s / %s" % (name, obs["reader_err"], obs["indep_err"] or obs["indep_records"]))
            continue
        if len(got) > count:
            problems.append("part %s holds %d records, limit %d" % (name, len(got), count))
        sizes.append(len(got))
        got_all += got
    if got_all != written and not (family == "sqlite"):
        problems.append("concatenation of the parts gives %s, written %s" % (got_all, written))
    all_writes = all(op[0] == "W" for op in hist[:-1]) and hist and hist[-1] in ("C",) + EXITS or via == "rdump"
    n = len(written)
    if matrix and all(o == "Ok" for o in outs):
        if m != n // count + 1:
            problems.append("%d parts for %d records with limit %d, expected %d" % (m, n, count, n // count + 1))
        elif any(s != count for s in sizes[:-1]) and not unreadable_empty:
            problems.append("a part other than the last is not full: sizes %s, limit %d" % (sizes, count))
    # raw concatenation (record streams and JSON lines)
    raw_ok = None
    if family in ("stream", "json") and not problems:
        cat = os.path.join(os.path.dirname(d), "cat" + ext)
        with open(cat, "wb") as out:
            for name in exp_names:
                out.write(open(os.path.join(d, name), "rb").read())
        try:
            with RecordReader(cat) as rd:
                raw = [canon_record(x) for x in rd]
        except Exception as e:  # noqa
            raw = "%s: %s" % (type(e).__name__, str(e)[:80])
        os.remove(cat)
        raw_ok = raw == written
        if not raw_ok and not (unreadable_empty and n == 0):
            problems.append("raw concatenation of the parts reads %s, written %s" % (raw, written))
    kcase = None
    if unreadable_empty:
        problems.insert(0, "part(s) %s are 0-byte files (not a record stream)" % unreadable_empty)
    if problems:
        bare = via == "writer" and split_bare_empty_close(list(hist) + ["Del"], count)
        only_empty = len(problems) == 1 and unreadable_empty
        kcase = dict(adapter=family, via="split", klass="bare-close-first" if (bare and only_empty and len(unreadable_empty) == 1) else None,
                     symptom="zero-byte-stream" if only_empty else None)
    terms = []
    has_reader = ruri is not None
    obs_terms = clist(["(%s, %s, %s)" % (cstr(name), _opt(c_file(family, o)), c_reader(o, has_reader))
                       for name, o in sorted(parts.items())])
    terms.append("chk_split %s %d %d %s %s %s %s %s %s" % (k, count, suf, cstr(base), cstr(netloc), cstr(upath), c_ops(hist),
                                                        c_outs(outs), obs_terms))
    meta = dict(kind="split", target=tname, history=list(hist), count=count, suffix_length=suf, via=via, matrix=matrix,
                spelling=spelling, urlparse=[netloc, upath], outcomes=outs, errors=errors,
                parts={n_: _obs_brief(o) for n_, o in parts.items()})
    return Case(terms, meta, problems, kcase)


def split_plan(tier):
    """(target, n, count, suffix_length, closing op, via[, spelling])"""
    tg = available_targets()
    plan = []
    ns = list(range(0, 8)) + [10, 12] if tier == "quick" else list(range(0, 14)) + [20, 25, 101]
    counts = [1, 2, 3, 5] if tier == "quick" else [1, 2, 3, 4, 5, 7, 10]
    sufs = [0, 1, 2, 4]
    for n, count, closing in itertools.product(ns, counts, ("X", "E", "K", "C", "Del")):
        if tier == "quick" and n > 7 and closing not in ("X", "E"):
            continue
        for suf in ([2] if (n + count) % 2 else sufs):
            plan.append(("stream", n, count, suf, closing, "writer"))
    others = [t for t in ("stream.gz", "stream.bz2", "stream.lz4", "stream.zst", "jsonfile", "csvfile", "avro") if t in tg]
    ns2 = [0, 1, 4, 5] if tier == "quick" else [0, 1, 2, 4, 5, 6, 9]
    for t, n, closing in itertools.product(others, ns2, ("X", "E", "C")):
        plan.append((t, n, 2, 2, closing, "writer"))
    for t in ["stream", "stream.gz", "jsonfile"] + (["stream.bz2", "jsonl"] if tier != "quick" else []):
        if t in tg:
            for n, count in ((0, 3), (6, 3), (7, 3)):
                plan.append((t, n, count, 2, "X", "rdump"))
            plan.append((t, 5, 2, 4, "X", "rdump"))
    # other spellings of the target: a bare relative file name, with and without an explicit inner adapter scheme
    bare = [("stream", "bare"), ("stream", "bare+scheme"), ("stream.gz", "bare+scheme"), ("jsonl", "bare+scheme"),
            ("jsonfile", "bare+scheme"), ("jsonfile", "bare"), ("csvfile", "bare+scheme")]
    ns3 = [0, 1, 4, 5] if tier == "quick" else [0, 1, 2, 3, 4, 5, 6, 9, 23]
    for (t, sp), n, closing in itertools.product(bare, ns3, ("X", "E", "C")):
        if t in tg and not (t == "jsonfile" and sp == "bare" and False):
            plan.append((t, n, 2, 2, closing, "writer", sp))
    for (t, sp), (n, count) in itertools.product(bare, ((5, 2), (6, 3)) if tier == "quick" else ((0, 3), (5, 2), (6, 3), (23, 5))):
        if t in tg:
            plan.append((t, n, count, 2, "X", "rdump", sp))
    return plan


def next_path_cases():
    """SplitWriter._next_path on a stub object vs model part_name and vs pathlib"""
    from flow.record.adapter.split import SplitWriter
    terms, problems = [], []

    class Stub:
        pass

    for name, suf, fc in itertools.product(["out.records", "out.records.gz", "out", ".hidden", "a.b.c", "x.json", "trail."],
                                           [0, 1, 2, 3, 6], [0, 1, 9, 10, 99, 100, 1005]):
        s = Stub()
        s.path, s.file_count, s.suffix_length, s.is_stdout = name, fc, suf, False
        try:
            got = SplitWriter._next_path(s)
        except Exception:
            continue
        terms.append("String.eqb (part_name %s %d %d) %s" % (cstr(name), suf, fc, cstr(got)))
        try:
            want = expected_part_name(name, suf, fc)
        except Exception:
            continue
        if got != want or s.file_count != fc + 1:
            problems.append("_next_path(%r, file_count=%d, suffix_length=%d) = %r (file_count -> %r), expected %r" % (
                name, fc, suf, got, s.file_count, want))
    return terms, problems


# ------------------------------------------------------------------------------------------------------
# 3. rotation

TEMPLATES = {
    "default": (None, "AStream", "stream", "gz"),      # PathTemplateWriter.DEFAULT_TEMPLATE
    "plain": ("{name}-{record._generated:%Y%m%dT%H}.records", "AStream", "stream", None),
    "json": ("{name}-{ts:%Y%m%dT%H}.json", "APlain", "json", None),
    "daily": ("{ts:%Y/%m/%d}/{name}-{record._generated:%Y%m%dT%H}.records.gz", "AStream", "stream", "gz"),
}


class _FakeNow:
    def __init__(self, clock):
        self.clock = list(clock)
        self.calls = 0

    def now(self, tz=None):
        v = self.clock[min(self.calls, len(self.clock) - 1)]
        self.calls += 1
        return v


class _FakeDatetimeModule:
    """stands in for the name `datetime` in flow.record.stream's namespace"""

    def __init__(self, clock):
        self.datetime = _FakeNow(clock)
        self.timezone = _dt.timezone
        self.timedelta = _dt.timedelta


def make_clock(mode, n=12):
    t0 = _dt.datetime(2021, 5, 5, 10, 0, 0, tzinfo=UTC)
    if mode == "stepped":
        return [t0 + _dt.timedelta(seconds=i) for i in range(n)]
    if mode == "frozen":
        return [t0] * n
    if mode == "same-second":
        return [t0 + _dt.timedelta(microseconds=1000 * i) for i in range(n)]
    raise ValueError(mode)


def rot_py(rel, stamp):
    """the rotated name, for classification and for placing pre-existing files only"""
    d, f = os.path.split(rel)
    if f.endswith(".records.gz"):
        out = f[:-len(".records.gz")] + "." + stamp + ".records.gz"
    else:
        a, b = os.path.splitext(f)
        out = "%s.%s.%s" % (a, stamp, b)
    return os.path.join(d, out) if d else out


def run_rotation(tkind, ops, clock_mode, pre_kind, workdir, archive=False, name="records"):
    """ops: ("W", hour) | "C".  -> dict(...)"""
    import flow.record.stream as S
    from flow.record import RecordWriter
    from vf.factgen import c17 as facts
    tmpl, k, family, codec = TEMPLATES[tkind]
    if tmpl is None:
        tmpl = S.PathTemplateWriter.DEFAULT_TEMPLATE
    d = os.path.join(workdir, "rot")
    shutil.rmtree(d, ignore_errors=True)
    os.makedirs(d)
    clock = make_clock(clock_mode)
    # the stamp of each instant, observed by rotating a scratch file with the clock frozen there
    stamps = [facts.rotation_stamp(c) for c in clock]

    def ts_of(hour):
        return _dt.datetime(2020, 1, 1 + hour // 24, hour % 24, tzinfo=UTC)

    def rel_of(hour):
        r = mkrec("A", 0, ts_of(hour))
        return tmpl.format(name=name, record=r, ts=r._generated)

    pre = {}
    if pre_kind in ("target", "target+rotated"):
        pre[rel_of(1)] = 900
    if pre_kind == "target+rotated":
        pre[rot_py(rel_of(1), stamps[0])] = 901
    for rel, rid in pre.items():
        p = os.path.join(d, rel)
        os.makedirs(os.path.dirname(p), exist_ok=True)
        with RecordWriter(p) as w:
            w.write(mkrec("A", rid))
    fake = _FakeDatetimeModule(clock)
    outs, written, errors = [], [], []
    saved = S.datetime
    S.datetime = fake
    try:
        if archive:
            w = _lib(lambda: RecordWriter("archive://" + d + "?name=" + name), "RecordWriter('archive://...')")
        else:
            w = _lib(lambda: S.PathTemplateWriter(path_template=os.path.join(d, tmpl), name=name), "PathTemplateWriter(...)")
        nid = 0
        for op in ops:
            try:
                if op == "C":
                    w.close()
                else:
                    r = mkrec("A", nid, ts_of(op[1]))
                    nid += 1
                    w.write(r)
                    written.append((("A", nid - 1), rel_of(op[1])))
                outs.append("Ok")
            except Exception as e:  # noqa
                outs.append("Raised")
                errors.append("%s: %s" % (type(e).__name__, str(e)[:80]))
        if archive == "exc":      # the archive:// writer's with-block is left by an exception
            leave_with_block(w, "E")
        else:
            w.close()
    finally:
        S.datetime = saved
    files1 = _observe_tree(d, family, codec)
    del w
    gc.collect()
    files2 = _observe_tree(d, family, codec)
    return dict(tmpl=tmpl, k=k, family=family, pre=pre, stamps=stamps, outs=outs, written=written, errors=errors,
                files_before_del=files1, files=files2, now_calls=fake.datetime.calls, rel_of=rel_of)


def _observe_tree(d, family, codec):
    out = {}
    for root, _, names in os.walk(d):
        for nm in names:
            p = os.path.join(root, nm)
            out[os.path.relpath(p, d)] = observe_file(family, codec, p, p)
    return out


def rotation_collision(ops, pre, stamps, rel_of):
    """does some rename hit a name that exists (python re-enactment, for classification only)?"""
    exists = set(pre)
    cur = None
    ci = 0
    hit = False
    for op in ops:
        if op == "C":
            continue
        p = rel_of(op[1])
        if p != cur:
            if p in exists:
                dst = rot_py(p, stamps[min(ci, len(stamps) - 1)])
                ci += 1
                if dst in exists:
                    hit = True
                exists.discard(p)
                exists.add(dst)
            exists.add(p)
            cur = p
    return hit


def rotation_case(tkind, ops, clock_mode, pre_kind, workdir, archive=False, name="records"):
    rname = name
    res = run_rotation(tkind, ops, clock_mode, pre_kind, workdir, archive, rname)
    family = res["family"]
    problems = []
    files = res["files"]
    if {n: o["reader"] for n, o in res["files_before_del"].items()} != {n: o["reader"] for n, o in files.items()}:
        problems.append("files differ before/after deleting the closed writer: %s vs %s" % (
            {n: o["reader"] or o["reader_err"] for n, o in res["files_before_del"].items()},
            {n: o["reader"] or o["reader_err"] for n, o in files.items()}))
    where = {}
    for name, o in res["files_before_del"].items():
        if o["reader"] is None or o["indep_records"] != o["reader"]:
            problems.append("closed, before del: file %s is not readable: %s / %s" % (name, o["reader_err"], o["indep_err"] or o["indep_records"]))
    for name, o in files.items():
        if o["reader"] is None or o["indep_records"] != o["reader"]:
            problems.append("file %s is not readable: %s / %s" % (name, o["reader_err"], o["indep_err"] or o["indep_records"]))
            continue
        for r in o["reader"]:
            where.setdefault(r, []).append(name)
    lost = []
    for r, rel in res["written"]:
        names = where.get(r, [])
        if not names:
            lost.append(r)
            continue
        if len(names) > 1:
            problems.append("record %s is in %s" % (r, names))
        nm = names[0]
        stem, ext = (rel[:-len(".records.gz")], ".records.gz") if rel.endswith(".records.gz") else os.path.splitext(rel)
        if not (nm == rel or (nm.startswith(stem + ".") and nm.endswith(ext) and os.path.dirname(nm) == os.path.dirname(rel))):
            problems.append("record %s (template path %s) is in %s" % (r, rel, nm))
    # the newest segment of a path is under the template's own name
    last_rel = {}
    for r, rel in res["written"]:
        last_rel[rel] = r
    for rel, r in last_rel.items():
        if r not in lost and where.get(r, [None])[0] != rel:
            problems.append("the last record written to %s (%s) is in %s" % (rel, r, where.get(r)))
    for rel, rid in res["pre"].items():
        if ("A", rid) not in where:
            lost.append(("A", rid))
    if lost:
        problems.insert(0, "records %s are in no file any more" % sorted(lost))
    # write() of a valid record raises only on a closed writer that is asked for the path it was closed on
    cur, closed, ei = None, False, 0
    for op, out in zip(ops, res["outs"]):
        err = None
        if out == "Raised":
            err = res["errors"][ei] if ei < len(res["errors"]) else "?"
            ei += 1
        if op == "C":
            closed = True
            if err:
                problems.append("close() raised %s" % err)
            continue
        p = res["rel_of"](op[1])
        expected_raise = closed and p == cur
        if p != cur:
            cur, closed = p, False
        if err and not expected_raise:
            problems.append("write() of a record for %s raised %s" % (p, err))
    kcase = None
    if problems:
        # (no known finding for the path-template writer: a rename never replaces a file)
        kcase = dict(writer="path-template", klass=None, symptom=None,
                     rename_target_existed=rotation_collision(ops, res["pre"], res["stamps"], res["rel_of"]))
    terms = []
    if not archive or True:
        # model: paths relative to the directory; pre-existing files hold one record under descriptor A
        pre_t = clist(["(%s, %s)" % (cstr(rel), "FilePlain [R 1 %d]" % rid if family == "json"
                                     else "FileStream [FHdr; FD 1; FRec (R 1 %d)]" % rid) for rel, rid in res["pre"].items()])
        i = 0
        pops = []
        for op in ops:
            if op == "C":
                pops.append("PClose")
            else:
                pops.append("PWrite %s (R 1 %d)" % (cstr(res["rel_of"](op[1])), i))
                i += 1
        pops.append("PClose")
        obs_terms = clist(["(%s, %s, %s)" % (cstr(name), _opt(c_file(family, o)), c_reader(o, True)) for name, o in sorted(files.items())])
        terms.append("chk_rot %s %s %s %s %s %s" % (res["k"], pre_t, clist([cstr(s) for s in res["stamps"]]), clist(pops),
                                                  c_outs(res["outs"] + ["Ok"]), obs_terms))
    meta = dict(kind="rotation", template=tkind, ops=[list(o) if o != "C" else "C" for o in ops], clock=clock_mode, pre=pre_kind,
                archive=archive, name=rname, outcomes=res["outs"], errors=res["errors"], now_calls=res["now_calls"],
                files={n: (o["reader"] if o["reader_err"] is None else o["reader_err"]) for n, o in files.items()})
    return Case(terms, meta, problems, kcase)


def rotation_plan(tier):
    plan = []
    maxlen = 4 if tier == "quick" else 5
    alpha = [("W", 1), ("W", 2), "C"]
    seqs = []
    for n in range(1, maxlen + 1):
        seqs += list(itertools.product(alpha, repeat=n))
    # the property's own example and longer alternations
    seqs += [tuple(("W", h) for h in hs) for hs in ([1, 2, 1, 2, 1], [1, 1, 2, 2, 1, 1], [1, 2, 3, 1, 2, 3, 1], [2, 1, 2, 1, 2, 1])]
    for ops in seqs:
        if not any(o != "C" for o in ops):
            continue
        for clock in ("stepped", "frozen"):
            plan.append(("default", ops, clock, "none", False))
        if tier != "quick" or len(ops) <= 3 or len(ops) > 4:
            plan.append(("default", ops, "same-second", "target", False))
            plan.append(("default", ops, "stepped", "target", False))
            plan.append(("default", ops, "stepped", "target+rotated", False))
    short = [s for s in seqs if len(s) <= 3 or len(s) > 4]
    for ops in short:
        if not any(o != "C" for o in ops):
            continue
        plan.append(("plain", ops, "stepped", "target", False))
        plan.append(("plain", ops, "frozen", "none", False))
        plan.append(("json", ops, "stepped", "target", False))
        if all(o != "C" for o in ops):
            plan.append(("daily", ops, "stepped", "none", True))       # through archive://
            plan.append(("daily", ops, "stepped", "none", "exc"))      # ... its with-block left by an exception
            plan.append(("daily", ops, "frozen", "none", True))
    # hostile template values: names that contain the naming-convention suffix, dots, something like a rotation stamp
    hostile = ["backup.records.gz", "a.records", "x.20210505T100000", "dots.in.name", ".records.gz.records.gz.x"]
    for nm in hostile:
        for hs in ([1], [1, 2, 1], [1, 1, 2, 2, 1]):
            ops = tuple(("W", h) for h in hs)
            plan.append(("default", ops, "stepped", "target", False, nm))
            plan.append(("default", ops, "frozen", "target+rotated", False, nm))
        plan.append(("plain", (("W", 1), ("W", 2), ("W", 1)), "frozen", "target", False, nm))
        plan.append(("daily", (("W", 1), ("W", 2), ("W", 1)), "stepped", "none", True, nm))
    return plan


# ------------------------------------------------------------------------------------------------------

class ScenarioTimeout(BaseException):
    pass


SCENARIO_TIMEOUT_S = 30
_TIMED_OUT_KINDS = set()     # per worker process: after one scenario of a kind hung, the rest of that kind is skipped


def _alarm(signum, frame):
    raise ScenarioTimeout()


def _run_job(job):
    """executed in a worker process: one case on the implementation, under a per-scenario time limit"""
    import signal
    kind, workroot, args = job
    if kind in _TIMED_OUT_KINDS:
        return Case([], dict(kind=kind, skipped="an earlier scenario of this kind did not finish"), [], None)
    wd = os.path.join(workroot, "w%d" % os.getpid())
    os.makedirs(wd, exist_ok=True)
    old_handler = None
    try:
        old_handler = signal.signal(signal.SIGALRM, _alarm)
        signal.setitimer(signal.ITIMER_REAL, SCENARIO_TIMEOUT_S)
    except (ValueError, AttributeError):      # not the main thread of this process: no per-scenario limit
        old_handler = None
    try:
        return _run_job_inner(kind, workroot, args, wd)
    except ScenarioTimeout:
        _TIMED_OUT_KINDS.add(kind)
        c = _failed_case(kind, args, LibraryFailure("the scenario did not finish within %d s (the library hangs or loops)" % SCENARIO_TIMEOUT_S))
        return c
    finally:
        if old_handler is not None:
            signal.setitimer(signal.ITIMER_REAL, 0)
            signal.signal(signal.SIGALRM, old_handler)


def _run_job_inner(kind, workroot, args, wd):
    try:
        if kind == "history":
            return history_case(args[0], args[1], wd)
        if kind == "split":
            return split_case(args[0], args[1], args[2], args[3], wd, args[4], matrix=args[5], spelling=args[6])
        if kind == "rotation":
            return rotation_case(args[0], args[1], args[2], args[3], wd, args[4], name=args[5] if len(args) > 5 else "records")
        if kind == "stdout":
            return stdout_case(args[0], args[1], wd)
        if kind == "given-fp":
            return given_case(args[0], args[1], args[2], wd)
        raise ValueError(kind)
    except Exception as e:  # the writer could not even be driven through the case
        return _failed_case(kind, args, e)


def _failed_case(kind, args, e):
    if True:
        import traceback
        meta = dict(kind=kind, args=repr(args), traceback=traceback.format_exc()[-1500:])
        if kind == "history":
            meta.update(target=args[0], history=list(args[1]))
        elif kind == "split":
            meta.update(target=args[0], history=list(args[1]), count=args[2], suffix_length=args[3], via=args[4], matrix=args[5],
                        spelling=args[6])
        elif kind == "stdout":
            meta.update(writer=args[0], history=list(args[1]))
        elif kind == "given-fp":
            meta.update(cls=args[0], fileobj=args[1], history=list(args[2]))
        else:
            meta.update(template=args[0], ops=[list(o) if o != "C" else "C" for o in args[1]], clock=args[2], pre=args[3], archive=args[4],
                        name=args[5] if len(args) > 5 else "records")
        if isinstance(e, LibraryFailure):
            return Case([], meta, [str(e)], None)
        # anything else is the harness's own failure (a recogniser, an observation tool, a bug): not a failing input
        return Case([], meta, [], None, harness_error="%s: %s" % (type(e).__name__, str(e)[:300]))


def plan_jobs(ctx):
    """-> list of (job, canonical key, nontrivial)"""
    root = str(ctx.work)
    jobs = []
    for tname, maxlen in history_plan(ctx.tier).items():
        for hist in histories(maxlen):
            jobs.append((("history", root, (tname, hist)), ("history", tname, hist), len(hist) > 0))
    ctx.notes.append("histories: " + ", ".join("%s<=%d" % kv for kv in history_plan(ctx.tier).items()))
    # leaving the with-block by KeyboardInterrupt, at every point of a short history, for every target
    nk = 0
    for tname in available_targets():
        for n in range(0, (3 if ctx.tier == "quick" else 4) + 1):
            for pre in itertools.product(["WA", "WB", "F"], repeat=n):
                nk += 1
                jobs.append((("history", root, (tname, pre + ("K",))), ("history", tname, pre + ("K",)), True))
    ctx.notes.append("histories ended by KeyboardInterrupt inside the with-block: %d" % nk)
    # Avro: a write() that is refused half-way (unencodable text) must not disturb the records accepted around it
    npoison = 0
    if "avro" in available_targets():
        for n in range(1, (4 if ctx.tier == "quick" else 5) + 1):
            for hist in itertools.product(["WA", "WP", "F", "C", "X"] + (["E"] if n < 4 else []), repeat=n):
                if "WP" in hist:
                    npoison += 1
                    jobs.append((("history", root, ("avro", hist)), ("history-refused-write", "avro", hist), True))
    ctx.notes.append("avro histories with a refused (unencodable) record: %d" % npoison)
    nsplit = 0
    for item in split_plan(ctx.tier):
        tname, n, count, suf, closing, via = item[:6]
        spelling = item[6] if len(item) > 6 else "abs"
        letters = "A" if tname == "avro" else "AB"
        hist = tuple("W" + letters[i % len(letters)] for i in range(n)) + ((closing,) if closing != "Del" else ())
        nsplit += 1
        jobs.append((("split", root, (tname, hist, count, suf, via, True, spelling)),
                     ("split", tname, n, count, suf, closing, via, spelling), True))
    # the split writer under arbitrary small histories
    maxlen = 3 if ctx.tier == "quick" else 4
    for tname in ("stream", "jsonfile"):
        for hist in histories(maxlen):
            if hist:
                jobs.append((("split", root, (tname, hist, 2, 2, "writer", False, "abs")), ("split-history", tname, hist), True))
    ctx.notes.append("split: %d matrix cases (N x limit x suffix length x target x closing op x writer|rdump) + histories <= %d on split://" % (nsplit, maxlen))
    # writers on a caller-supplied file object
    from vf.factgen import c17 as facts
    ngiven = 0
    for clsname, _, _, kinds in facts.GIVEN_FP_CLASSES:
        letters = GIVEN_MODEL[clsname][3]
        alpha = ["W" + l for l in letters] + ["F", "C"]
        for fpkind in kinds:
            for n in range(0, (3 if ctx.tier == "quick" else 4) + 1):
                for hist in itertools.product(alpha, repeat=n):
                    if clsname in ("RecordStreamWriter", "RecordOutput", "RecordPrinter") and "C" in hist \
                            and any(o != "C" for o in hist[hist.index("C"):]):
                        continue      # low-level classes: nothing is promised for write()/flush() after close()
                    ngiven += 1
                    jobs.append((("given-fp", root, (clsname, fpkind, hist)), ("given-fp", clsname, fpkind, hist), len(hist) > 0))
    ctx.notes.append("writers on a caller-supplied file object (plain / gzip.GzipFile / BufferedWriter / text), the caller keeping its "
                     "reference: %d histories over write/flush/close (+ del)" % ngiven)
    # the stdout target, every writer kind that supports it
    nso = 0
    for kind, _, _ in facts.STDOUT_KINDS:
        for n in range(0, (3 if ctx.tier == "quick" else 4) + 1):
            for hist in itertools.product(STDOUT_OPS, repeat=n):
                nso += 1
                jobs.append((("stdout", root, (kind, hist)), ("stdout", kind, hist), len(hist) > 0))
    ctx.notes.append("stdout target (sys.stdout = a buffered file object, a pseudo terminal for the record printer): %d histories over "
                     "write/flush/close/with-exit/exit-by-exception for stream, printer, jsonfile, csvfile, line, text, avro" % nso)
    nrot = 0
    for item in rotation_plan(ctx.tier):
        tkind, ops, clock, pre, archive = item[:5]
        nrot += 1
        jobs.append((("rotation", root, tuple(item)), ("rotation",) + tuple(item), True))
    ctx.notes.append("rotation: %d scenarios (operation sequences over two/three hour buckets and close, clock stepped / frozen / "
                     "same second, with and without pre-existing files, default / plain / json / archive:// templates)" % nrot)
    return jobs


def collect(ctx):
    """Run everything on the implementation (in worker processes).  -> list of Case, in plan order"""
    import multiprocessing as mp
    descs()
    jobs = plan_jobs(ctx)
    nproc = max(1, min(8, (os.cpu_count() or 2) // 2))
    if nproc == 1:
        cases = [_run_job(j[0]) for j in jobs]
    else:
        with mp.get_context("fork").Pool(nproc) as pool:
            cases = pool.map(_run_job, [j[0] for j in jobs], chunksize=40)
    for (_, canon, nontrivial) in jobs:
        ctx.count_case(canon, nontrivial=nontrivial)
    return cases


def report_property(ctx, cases):
    """known findings / violations of the property on the implementation.  -> True when a violation was reported"""
    kf = core.known_for("C17")
    reported = False
    for c in cases:
        if not c.problems:
            continue
        f = known_class(kf, c.kcase or {})
        if f:
            ctx.known_finding(f["id"], f["what"])
        elif not reported:
            reported = True
            ctx.violation("%s: %s" % (_describe(c.meta), "; ".join(c.problems)[:400]), dict(c.meta, problems=c.problems))
    return reported


def _describe(meta):
    if meta["kind"] == "history":
        return "history %s on %s" % (" ".join(meta["history"]) or "(open only)", meta["target"])
    if meta["kind"] == "split":
        return "split %s (target spelled %s, urlparse %s) count=%d suffix-length=%d via %s history %s" % (
            meta["target"], meta.get("spelling"), meta.get("urlparse"), meta["count"], meta["suffix_length"], meta["via"],
            " ".join(meta["history"]))
    if meta["kind"] == "given-fp":
        return "%s(fp) on a caller-held %s file object, history %s" % (meta["cls"], meta["fileobj"], " ".join(meta["history"]) or "(open only)")
    if meta["kind"] == "stdout":
        return "stdout target %s (RecordWriter(%r), stdout %s) history %s" % (
            meta["writer"], meta.get("uri"), "a terminal" if meta.get("terminal") else "a buffered file", " ".join(meta["history"]) or "(open only)")
    return "rotation template=%s name=%r ops=%s clock=%s pre-existing=%s" % (meta["template"], meta.get("name", "records"), meta["ops"],
                                                                          meta["clock"], meta["pre"])


def search(ctx, reason):
    """the proof / translator broke: look for a concrete failing input on the implementation"""
    try:
        cases = collect(ctx)
        terms, problems = next_path_cases()
    except Exception as e:  # noqa
        ctx.notes.append("search raised %r" % (e,))
        return False
    kf = core.known_for("C17")
    herr = [c for c in cases if c.harness_error]
    if herr:
        ctx.notes.append("search: the harness could not run %d cases, first: %s" % (len(herr), herr[0].harness_error))
    for c in cases:
        if c.problems and not known_class(kf, c.kcase or {}):
            ctx.violation("%s; failing input: %s: %s" % (reason, _describe(c.meta), "; ".join(c.problems)[:300]),
                          dict(c.meta, problems=c.problems, reason=reason))
            return True
    if problems:
        ctx.violation("%s; %s" % (reason, problems[0]), dict(kind="next-path", problems=problems[:5], reason=reason))
        return True
    return False


def run(ctx):
    ctx.coverage["rule"] = (
        "bounded-exhaustive histories over {write A, write B, flush, close, with-exit, with-block left by an exception "
        "(Exception subclass; KeyboardInterrupt in a separate family)} (then del) per adapter target "
        "(stream plain/gz/bz2/lz4/zst, jsonfile, jsonl, avro, sqlite (batch 1000 and 2), csvfile, line, text); split matrix "
        "N x limit x suffix length x target x {with-exit, close, del} x {RecordWriter('split://'), rdump --split} x target spelling "
        "(absolute path, bare relative name, bare name behind split+<adapter>://) plus all small "
        "histories on split://; rotation scenarios = operation sequences over hour buckets and close x clock (stepped, "
        "frozen, same second) x pre-existing files x template.  distinct = distinct (target, history) / split configuration / "
        "rotation scenario; a history is non-trivial when it has at least one operation")
    ok = core.standard_proof_stage(ctx, ["props/C17.vo"], "C17", THEOREMS, search_fn=search, gens=["gen_writers"])
    ctx.assumptions += [
        "a file's content is what is on disk once its file object is closed: OS / Python buffering is not modelled (the check "
        "observes the disk after close while the writer object is alive, and after del)",
        "compression (gzip, bz2, lz4, zstd) is the identity at model level; validated by decompressing with the libraries "
        "directly and walking the frames by hand",
        "fastavro's block writer is an in-memory buffer emptied by flush (sync_interval auto-flush not modelled: records are small); "
        "its constructor writes the header and refuses a file whose position is not 0",
        "sqlite3: rows of the open transaction become visible at COMMIT; tables are listed in creation order",
        "os.rename replaces an existing destination; os.path.exists / realpath / makedirs behave as on a plain directory tree; "
        "an open file is identified by its path (no rename ever targets the open file's path in the scenarios)",
        "__del__ runs when the last reference is dropped (CPython reference counting)",
        "JSON descriptor lines and CSV header lines are not modelled (a JSON/CSV/line/text file = the records it holds)",
    ]
    if not ok:
        return
    import time
    t_proof = time.time() - ctx.t0
    cases = collect(ctx)
    herr = [c for c in cases if c.harness_error]
    if herr:
        ctx.violation("the check's harness could not run %d of %d cases (its own failure, not a failing input), first: %s: %s" % (
            len(herr), len(cases), _describe(herr[0].meta), herr[0].harness_error),
            dict(kind="harness-exception", first=herr[0].meta, error=herr[0].harness_error), no_input=True)
        return
    t_impl = time.time() - ctx.t0 - t_proof
    np_terms, np_problems = next_path_cases()
    terms = []
    owner = []
    for i, c in enumerate(cases):
        for t in c.terms:
            terms.append(t)
            owner.append(i)
    for t in np_terms:
        terms.append(t)
        owner.append(None)
    failing, err = core.eval_bool_cases(ctx, HEADER, terms, shard_size=350, name="c17")
    if err:
        ctx.violation("correspondence shards did not evaluate: " + err[:300], dict(kind="coq-eval", log=err), no_input=True)
        return
    ctx.coverage["traces_validated_against_impl"] = len(terms) - len(failing)
    ctx.coverage["exhaustive"] = True
    ctx.notes.append("wall: proof stage %.0fs, implementation runs %.0fs, model evaluation in Coq (%d comparisons) %.0fs" % (
        t_proof, t_impl, len(terms), time.time() - ctx.t0 - t_proof - t_impl))
    reported = report_property(ctx, cases)
    if np_problems and not reported:
        reported = True
        ctx.violation(np_problems[0], dict(kind="next-path", problems=np_problems[:5]))
    if failing and not reported:
        i = owner[failing[0]]
        if i is None:
            ctx.violation("SplitWriter._next_path disagrees with model part_name (it agrees with pathlib): %s" % terms[failing[0]][:200],
                          dict(kind="next-path", term=terms[failing[0]]), no_input=True)
        else:
            c = cases[i]
            # the property's own oracle holds on this case (else it was reported above): the tie is broken, no failing input
            ctx.violation("model/Writers.v and the implementation disagree on %d of %d comparisons, first: %s -> outcomes %s, on disk %s; "
                          "the property itself holds on that case" % (
                len(failing), len(terms), _describe(c.meta), c.meta.get("outcomes"),
                json.dumps(c.meta.get("after_del") or c.meta.get("parts") or c.meta.get("files"), default=repr)[:300]),
                dict(c.meta, correspondence="C17 history vs model/Writers.v", term=terms[failing[0]][:2000]), no_input=True)
    for c in cases[:: max(1, len(cases) // 6)]:
        ctx.sample({k: v for k, v in c.meta.items() if k in ("kind", "target", "history", "count", "suffix_length", "via",
                                                               "template", "ops", "clock", "pre", "outcomes", "files", "after_del")})


def replay(obj):
    class _Ctx:
        work = core.WORK / ("C17.replay.%d" % os.getpid())
    wd = _Ctx.work
    shutil.rmtree(wd, ignore_errors=True)
    wd.mkdir(parents=True)
    try:
        kind = obj.get("kind")
        if kind == "history":
            c = history_case(obj["target"], tuple(obj["history"]), str(wd))
        elif kind == "split":
            c = split_case(obj["target"], tuple(obj["history"]), obj["count"], obj["suffix_length"], str(wd), obj.get("via", "writer"),
                           matrix=obj.get("matrix", True), spelling=obj.get("spelling", "abs"))
        elif kind == "rotation":
            ops = tuple("C" if o == "C" else (o[0], o[1]) for o in obj["ops"])
            c = rotation_case(obj["template"], ops, obj["clock"], obj["pre"], str(wd), obj.get("archive", False),
                              name=obj.get("name", "records"))
        elif kind == "stdout":
            c = stdout_case(obj["writer"], tuple(obj["history"]), str(wd))
        elif kind == "given-fp":
            c = given_case(obj["cls"], obj["fileobj"], tuple(obj["history"]), str(wd))
        elif kind == "next-path":
            _, problems = next_path_cases()
            print("replay next-path:", problems[:3] or "ok")
            return 1 if problems else 0
        else:
            print("replay of kind %s: re-run ./check C17" % kind)
            return 2
        print("replay %s" % _describe(c.meta))
        print("  outcomes: %s" % c.meta.get("outcomes"))
        for p in c.problems:
            print("  FAILS: " + p)
        if not c.problems:
            print("  property holds on this case")
        return 1 if c.problems else 0
    finally:
        shutil.rmtree(wd, ignore_errors=True)
