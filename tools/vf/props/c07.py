"""C07 -- both selector engines compute the Python meaning of the expression.

proof:   coq/props/C07.v (theorems about model/SelSem.v: `interp` = transcription of RecordContextMatcher._eval,
         `py_eval` = the Python meaning; both over the shared primitives of SelSem.v part 1)
tie:     (T) gen/Gen_selsem.v (+ Gen_selector.v) regenerated from selector.py on every run: AST_OPERATORS, the shape
             of every _eval branch (chained Compare loop, comprehension ifs, eager BoolOp, BinOp guard, dispatch order),
             self.data, whitelists, helper signatures; the proofs use them.
         (C) grammar-generated expressions x generated records; per pair: Selector.match, CompiledSelector.match,
             CPython eval over the real record with an independent reference namespace (ground truth) and an
             independent strict reference evaluator (all sub-expressions defined?); the same pair is evaluated by the
             Coq models `interpreted`, `py_eval`, `compiled`, `py_strict` inside Coq and compared (value or exception
             class).
checks:  (a) PROPERTY on the implementation: ground truth is a value and every sub-expression is defined => both
             engines give that truth value, except listed known-finding classes;
         (b) model = implementation (validates both models and the definedness notion);
         (c) expressions outside the language are rejected with an exception by the interpreted engine.
"""
from __future__ import annotations

import ast
import datetime as _pydt
import itertools
import operator
import random
import re
import time

from vf import core

THEOREMS = [
    "C07_generated_shapes", "C07_generated_operator_table", "C07_generated_comparators",
    "C07_interpreted", "C07_interpreted_values", "C07_strict_is_python", "C07_compiled",
    "C07_rejects_outside", "C07_rejects_outside_binop", "C07_generator_variables_do_not_leak",
    "C07_refuted_boolop_as_operand", "C07_refuted_generator_variable_builtin",
    "C07_refuted_generator_variable_shadows_enclosing", "C07_refuted_typed_matcher_left_of_not_in",
    "C07_prefix_refuted_first_link_only", "C07_prefix_refuted_ifs_ignored", "C07_prefix_refuted_attrs_dropped",
    "C07_prefix_refuted_generator_variables_leak", "C07_prefix_refuted_binop_lookup_last",
    "C07_prefix_refuted_compiled_without_fieldtypes",
    "C07_eager_needs_all_defined", "C07_hyp_satisfiable",
]

TS = _pydt.datetime(2021, 1, 1, tzinfo=_pydt.timezone.utc)

# -------------------------------------------------------------------------------------------------
# records

D1_FIELDS = [("varint", "n"), ("varint", "m"), ("varint", "k"), ("string", "s"), ("string", "t"), ("string", "e"),
             ("boolean", "b"), ("varint[]", "a"), ("string[]", "l"), ("varint", "u")]
D2_FIELDS = [("varint", "n"), ("string", "s"), ("varint[]", "a"), ("string", "z")]
# nested records: typed values at depth 1 and 2 (record / record[] fields)
I1_FIELDS = [("uri", "link"), ("string", "txt"), ("varint", "num")]
I2_FIELDS = [("string", "txt"), ("varint", "num"), ("record", "deeper")]
D3_FIELDS = [("varint", "n"), ("string", "s"), ("uri", "u"), ("record", "sub"), ("record[]", "subs"), ("varint[]", "a")]
# implementation-level only (values the Coq model has no literal for)
D4_FIELDS = [("net.ipaddress", "ip"), ("string", "s"), ("record", "sub")]
I4_FIELDS = [("net.ipaddress", "addr"), ("uri", "link")]
# bytes values: implementation-level only (the helpers must leave them alone: they are not text)
D5_FIELDS = [("bytes", "data"), ("bytes", "d2"), ("string", "s"), ("varint", "n")]
BYTES_VALUES = [b"MZ-Header", b"mz-header", b"ABC", b"abc", b"\x00\xffPK", b""]
# field types whose == is wider than their hash (net.ipaddress == '10.0.0.1'), unhashable ones (path, command), numeric
# ones: membership in literal lists / tuples of constants of the foreign kinds must follow ==
D6_FIELDS = [("net.ipaddress", "ip"), ("net.ipnetwork", "netw"), ("path", "p"), ("command", "cmd"), ("filesize", "fs"),
             ("boolean", "b"), ("varint", "n"), ("uri", "u"), ("string", "s"), ("uint16", "port"), ("float", "f"),
             ("unix_file_mode", "mode")]
# several fields of one type, ordered so that different fields satisfy different links of a chained comparison
D7_FIELDS = [("varint", "size"), ("varint", "count"), ("varint", "k"), ("string", "first"), ("string", "last"), ("uint16", "port")]
# typed matchers WITH attribute paths over several fields of one type of which an earlier one is unset / lacks the
# attribute and a later one matches (and the mirror order)
D8_FIELDS = [("uri", "a"), ("uri", "b"), ("uri", "c"), ("path", "p1"), ("path", "p2"), ("datetime", "d1"), ("datetime", "d2"),
             ("digest", "g1"), ("digest", "g2")]
D9_FIELDS = [("varint", "v0"), ("varint", "v1"), ("varint", "v2"), ("string", "s0"), ("string", "s1")]     # (the Coq model knows these)
DESCS = {"D8": ("test/c07attrs", D8_FIELDS), "D9": ("test/c07attrs2", D9_FIELDS), "D6": ("test/c07wide", D6_FIELDS), "D7": ("test/c07multi", D7_FIELDS), "D5": ("test/c07bytes", D5_FIELDS), "D1": ("test/c07", D1_FIELDS), "D2": ("test/c07b", D2_FIELDS), "D3": ("test/c07n", D3_FIELDS),
         "D4": ("test/c07ip", D4_FIELDS), "I1": ("test/inner", I1_FIELDS), "I2": ("test/inner2", I2_FIELDS),
         "I4": ("test/innerip", I4_FIELDS)}
URIS_TOP = ["http://top.net/x/y.z", "https://example.com/a/b.txt", "ftp://files.org/pub/readme"]
URIS_NESTED = ["http://example.com/dl/evil.bin", "http://other.org/a/b.txt", "https://cdn.net/img/logo.png"]
URI_ATTRS = ["filename", "hostname", "path", "scheme", "dirname"]
URI_LITS = {"filename": ["y.z", "b.txt", "readme", "evil.bin", "logo.png"], "hostname": ["top.net", "example.com", "other.org", "cdn.net", "files.org"],
            "path": ["/x/y.z", "/a/b.txt", "/dl/evil.bin", "/img/logo.png"], "scheme": ["http", "https", "ftp"],
            "dirname": ["/x", "/a", "/dl", "/img", "/pub"]}
IPS = ["10.0.0.1", "192.168.1.7", "::1"]

INTS = [0, 1, 2, 3, 5, 7, 100, -1, -7, 255, 256, 65536, 2 ** 31, 2 ** 63, 2 ** 64, -2 ** 63 - 1]
SMALL = [0, 1, 2, 3, 5, 7]
STRS = ["", "a", "b", "abc", "ABC", "Xy", "ab c", "a.b", "é", "中", "aXb"]


_DESC_CACHE = {}


def descriptor(which):
    from flow.record import RecordDescriptor
    if which not in _DESC_CACHE:
        nm, fields = DESCS[which]
        _DESC_CACHE[which] = RecordDescriptor(nm, fields)
    return _DESC_CACHE[which]


def descriptors():
    return descriptor("D1"), descriptor("D2")


def random_inner(rnd, depth):
    """spec of a nested record: ("I1" | "I2" | "I4", values)"""
    if depth > 0 and rnd.random() < 0.5:
        return ("I2", dict(txt=rnd.choice(STRS[:7]), num=rnd.choice(SMALL + [9, 100]),
                           deeper=None if rnd.random() < 0.2 else random_inner(rnd, depth - 1)))
    return ("I1", dict(link=None if rnd.random() < 0.1 else rnd.choice(URIS_NESTED), txt=rnd.choice(STRS[:7] + ["hello"]),
                       num=rnd.choice(SMALL + [9, 100])))


def random_nested_values(rnd):
    return dict(n=rnd.choice(SMALL + [100]), s=rnd.choice(STRS[:7]), u=None if rnd.random() < 0.15 else rnd.choice(URIS_TOP),
                sub=None if rnd.random() < 0.15 else random_inner(rnd, 1),
                subs=[random_inner(rnd, 1) for _ in range(rnd.choice([0, 1, 2, 2]))],
                a=[rnd.choice(SMALL) for _ in range(rnd.choice([0, 1, 2]))])


def random_ip_values(rnd):
    return dict(ip=rnd.choice(IPS), s=rnd.choice(STRS[:5]),
                sub=("I4", dict(addr=rnd.choice(IPS), link=rnd.choice(URIS_NESTED))))


def random_values(rnd, fields):
    out = {}
    for ty, nm in fields:
        none = rnd.random() < 0.08 or nm == "u"
        if nm == "u":
            out[nm] = None if rnd.random() < 0.7 else rnd.choice(SMALL)
        elif none:
            out[nm] = None
        elif ty == "varint":
            out[nm] = rnd.choice(INTS if rnd.random() < 0.4 else SMALL + [100, -7])
        elif ty == "string":
            out[nm] = rnd.choice(STRS) if nm != "e" else rnd.choice(["", "", "a"])
        elif ty == "boolean":
            out[nm] = rnd.random() < 0.5
        elif ty == "varint[]":
            out[nm] = [rnd.choice(SMALL + [100, -1]) for _ in range(rnd.choice([0, 1, 2, 3, 3]))]
        elif ty == "string[]":
            out[nm] = [rnd.choice(STRS[:7]) for _ in range(rnd.choice([0, 1, 2, 3]))]
    return out


FIXED_RECORDS = [
    ("D1", dict(n=100, m=5, k=-7, s="abc", t="Xy", e="", b=True, a=[1, 2, 3], l=["a", "b"], u=None)),
    ("D1", dict(n=2, m=2, k=0, s="a", t="ABC", e="a", b=False, a=[], l=[], u=3)),
    ("D2", dict(n=2, s="abc", a=[2, 5], z="a")),
    # the matching values sit ONLY in the nested records
    ("D3", dict(n=1, s="top", u="http://top.net/x/y.z", sub=("I1", dict(link="http://example.com/dl/evil.bin", txt="hello", num=5)),
                subs=[("I2", dict(txt="b", num=9, deeper=("I1", dict(link="http://other.org/a/b.txt", txt="abc", num=7))))],
                a=[2])),
    ("D3", dict(n=3, s="a", u=None, sub=None, subs=[("I1", dict(link="https://cdn.net/img/logo.png", txt="Xy", num=100))], a=[])),
    ("D4", dict(ip="10.0.0.1", s="a", sub=("I4", dict(addr="192.168.1.7", link="http://example.com/dl/evil.bin")))),
    ("D5", dict(data=b"MZ-Header", d2=b"abc", s="MZ-Header", n=1)),
    ("D5", dict(data=b"ABC", d2=None, s="abc", n=2)),
    ("D6", dict(ip="10.0.0.1", netw="10.0.0.0/8", p="/tmp/x", cmd="ls -l", fs=1024, b=True, n=1, u="http://a/b", s="abc", port=80,
                f=1.0, mode=0o644)),
    ("D6", dict(ip="::1", netw="192.168.0.0/16", p="/", cmd="cat /etc/passwd", fs=0, b=False, n=0, u="ftp://h/x", s="", port=0,
                f=0.0, mode=0)),
    ("D8", dict(a=None, b="http://host/dir/x.txt", c=None, p1=None, p2="/tmp/dir/f.txt", d1=None, d2="2020-05-06T07:08:09+00:00",
                g1=None, g2=("d41d8cd98f00b204e9800998ecf8427e", None, None))),
    ("D8", dict(a="http://host/dir/x.txt", b=None, c="ftp://other/y.bin", p1="/tmp/dir/f.txt", p2=None, d1="2020-05-06T07:08:09+00:00", d2=None,
                g1=("d41d8cd98f00b204e9800998ecf8427e", None, None), g2=None)),
    ("D9", dict(v0=None, v1=5, v2=None, s0=None, s1="x")),
    ("D9", dict(v0=5, v1=None, v2=7, s0="x", s1=None)),
    ("D7", dict(size=50, count=5000, k=7, first="m", last="zz", port=80)),
    ("D7", dict(size=5000, count=50, k=0, first="zz", last="b", port=8080)),
]


def make_records(rnd, count):
    specs = list(FIXED_RECORDS)
    for i in range(max(0, count - len(specs))):
        if i % 6 == 3:
            specs.append(("D2", random_values(rnd, D2_FIELDS)))
        elif i % 6 in (1, 4):
            specs.append(("D3", random_nested_values(rnd)))
        elif i % 6 == 5 and i % 12 == 5:
            specs.append(("D4", random_ip_values(rnd)))
        elif i % 12 == 11:
            specs.append(("D7", dict(size=rnd.choice([5, 50, 500, 5000]), count=rnd.choice([5, 50, 500, 5000]), k=rnd.choice(SMALL),
                                     first=rnd.choice(["a", "m", "zz", "B"]), last=rnd.choice(["a", "m", "zz", "B"]), port=rnd.choice([0, 80, 8080]))))
        elif i % 6 == 5:
            specs.append(("D5", dict(data=rnd.choice(BYTES_VALUES), d2=rnd.choice(BYTES_VALUES + [None]), s=rnd.choice(STRS[:6]), n=rnd.choice(SMALL))))
        else:
            specs.append(("D1", random_values(rnd, D1_FIELDS)))
    return [build_record(which, vals) for which, vals in specs[:max(count, len(FIXED_RECORDS))]]


def build_obj(which, vals):
    """a real Record from a (descriptor key, values) spec; nested specs are tuples / lists of tuples / JSON lists"""
    kw = {}
    for ty, nm in DESCS[which][1]:
        v = vals[nm]
        if ty == "bytes" and isinstance(v, str):       # from a replay file: repr() of the bytes
            v = ast.literal_eval(v)
        if ty == "digest" and isinstance(v, list):
            v = tuple(v)
        if ty == "record" and v is not None:
            v = build_obj(v[0], v[1])
        elif ty == "record[]" and v is not None:
            v = [build_obj(x[0], x[1]) for x in v]
        kw[nm] = v
    return descriptor(which)(_generated=TS, **kw)


def build_record(which, vals):
    r = dict(which=which, vals=vals, fields=DESCS[which][1], rec=build_obj(which, vals))
    r["coq"] = None
    return r


# -------------------------------------------------------------------------------------------------
# Coq literals

class NotModelled(Exception):
    pass


def cq_str(s):
    return '"%s"' % s.replace('"', '""')


def cq_cps(s):
    return "[%s]%%N" % "; ".join(str(ord(c)) for c in s) if s else "[]"


def cq_value(v, rec=None):
    from flow.record.selector import NONE_OBJECT
    if v is None:
        return "VNone"
    if v is NONE_OBJECT:
        return "VMissing"
    if isinstance(v, bool):
        return "(VBool %s)" % ("true" if v else "false")
    if isinstance(v, int):
        return "(VInt (%d)%%Z)" % int(v)
    if isinstance(v, str):
        for c in v:
            if 0xD800 <= ord(c) <= 0xDFFF:
                raise NotModelled("surrogate")
        return "(VStr %s)" % cq_cps(v)
    if isinstance(v, list):
        return "(VList [%s])" % "; ".join(cq_value(x, rec) for x in v)
    if isinstance(v, tuple):
        return "(VTuple [%s])" % "; ".join(cq_value(x, rec) for x in v)
    if rec is not None and v is rec:
        return "VRec"
    from flow.record.base import Record
    if isinstance(v, Record):
        return cq_sub(v)
    raise NotModelled(type(v).__name__)


def cq_fields(rec):
    import flow.record.fieldtypes as ft
    fs = []
    for nm, fld in rec._desc.fields.items():
        v = getattr(rec, nm)
        ty = fld.typename
        if ty == "boolean" and v is not None:
            v = int(v)          # flow.record's boolean is an int subclass holding 0/1
        if v is not None and ty not in ("varint", "string", "boolean", "uri", "uint16", "record", "varint[]", "string[]", "record[]"):
            raise NotModelled(ty)
        # a uri is a str with extra properties: the model knows it as the str (its properties are outside the model)
        fs.append("(%s, %s, %s)" % (cq_str(nm), cq_str(ty), cq_value(v)))
    return "[%s]" % "; ".join(fs)


def cq_sub(rec):
    return "(VSub %s %s)" % (cq_cps(rec._desc.name), cq_fields(rec))


def cq_record(r):
    """the record as a Gallina literal, from what the real record holds (None for a list field becomes []);
    None when it holds values the model has no literal for"""
    try:
        return "{| rec_name := %s; rec_fields := %s |}" % (cq_cps(r["rec"]._desc.name), cq_fields(r["rec"]))
    except NotModelled:
        return None


BINOPS = {"Add": "Add", "Sub": "Sub", "Mult": "Mult", "MatMult": "MatMult", "Div": "Div", "Mod": "Mod", "Pow": "Pow",
          "LShift": "LShift", "RShift": "RShift", "BitOr": "BitOr", "BitXor": "BitXor", "BitAnd": "BitAnd",
          "FloorDiv": "FloorDiv"}
CMPOPS = {"Eq": "CEq", "NotEq": "CNotEq", "Lt": "CLt", "LtE": "CLtE", "Gt": "CGt", "GtE": "CGtE", "In": "CIn",
          "NotIn": "CNotIn", "Is": "CIs", "IsNot": "CIsNot"}


def is_quant_call(node):
    return (isinstance(node, ast.Call) and isinstance(node.func, ast.Name) and node.func.id in ("any", "all")
            and len(node.args) == 1 and isinstance(node.args[0], ast.GeneratorExp) and not node.keywords)


def cq_expr(node):
    """Python ast -> Gallina `expr` literal (model/SelAst.v).  NotModelled for what the model has no literal for."""
    k = type(node).__name__
    if isinstance(node, ast.Constant):
        v = node.value
        if v is None or isinstance(v, (bool, int, str)):
            return "(EConst %s)" % cq_value(v)
        raise NotModelled("constant " + type(v).__name__)
    if isinstance(node, ast.Name):
        return "(EName %s)" % cq_str(node.id)
    if isinstance(node, ast.Attribute):
        return "(EAttr %s %s)" % (cq_expr(node.value), cq_str(node.attr))
    if isinstance(node, (ast.List, ast.Tuple)):
        if any(isinstance(e, ast.Starred) for e in node.elts):
            raise NotModelled("starred")
        return "(%s [%s])" % ("EList" if isinstance(node, ast.List) else "ETuple", "; ".join(cq_expr(e) for e in node.elts))
    if isinstance(node, ast.BoolOp):
        return "(EBoolOp %s [%s])" % (type(node.op).__name__, "; ".join(cq_expr(e) for e in node.values))
    if isinstance(node, ast.UnaryOp):
        return "(EUnary %s %s)" % (type(node.op).__name__, cq_expr(node.operand))
    if isinstance(node, ast.BinOp):
        return "(EBinOp %s %s %s)" % (BINOPS[type(node.op).__name__], cq_expr(node.left), cq_expr(node.right))
    if isinstance(node, ast.Compare):
        return "(ECompare %s [%s])" % (cq_expr(node.left), "; ".join(
            "(%s, %s)" % (CMPOPS[type(o).__name__], cq_expr(c)) for o, c in zip(node.ops, node.comparators)))
    if is_quant_call(node):
        g = node.args[0]
        comps = []
        for c in g.generators:
            if not isinstance(c.target, ast.Name) or c.is_async:
                raise NotModelled("generator target")
            comps.append("(Comp %s %s [%s])" % (cq_str(c.target.id), cq_expr(c.iter), "; ".join(cq_expr(i) for i in c.ifs)))
        return "(EQuant %s %s [%s])" % ("true" if node.func.id == "all" else "false", cq_expr(g.elt), "; ".join(comps))
    if isinstance(node, ast.Call):
        if any(isinstance(a, ast.Starred) for a in node.args) or any(kw.arg is None for kw in node.keywords):
            raise NotModelled("starred call")
        return "(ECall %s [%s] [%s])" % (cq_expr(node.func), "; ".join(cq_expr(a) for a in node.args),
                                          "; ".join("(%s, %s)" % (cq_str(kw.arg), cq_expr(kw.value)) for kw in node.keywords))
    if isinstance(node, ast.GeneratorExp):
        raise NotModelled("generator expression outside any()/all()")
    return "(EOther %s)" % cq_str(k)


EXC_MAP = {"TypeError": "(ETypeError false)", "KeyError": "EKeyError", "AttributeError": "EAttributeError",
           "NameError": "ENameError", "InvalidOperation": "EInvalidOperation", "ZeroDivisionError": "EZeroDivision",
           "ValueError": "EValueError"}


def cq_outcome(o, rec):
    """o = ("val", v) | ("exc", classname, message)"""
    if o[0] == "val":
        try:
            return "(IVal %s)" % cq_value(o[1], rec)
        except NotModelled:
            return "IOpaque"
    e = EXC_MAP.get(o[1])
    return "(IExc %s)" % e if e else "IOtherExc"


COQ_HEADER = """From Coq Require Import List Bool String ZArith NArith.
Import ListNotations.
From FR Require Import SelAst SelSem.
Open Scope string_scope.
Inductive impl := IVal (v : value) | IExc (x : exc) | IOpaque | IOtherExc.
Definition declined (m : result) : bool := match m with Exc EUnmodelled => true | _ => false end.
Definition same (m : result) (i : impl) : bool :=
  match m, i with
  | Exc EUnmodelled, _ => true
  | Val a, IVal b => value_eqb a b
  | Exc a, IExc b => exc_class_eqb a b
  | _, _ => false
  end.
(* the strict evaluation: defined with the same value, or undefined on both sides (whatever the reason) *)
Definition same_strict (m : result) (i : impl) : bool :=
  match m, i with
  | Exc EUnmodelled, _ => true
  | Val a, IVal b => value_eqb a b
  | Exc _, (IExc _ | IOtherExc) => true
  | _, _ => false
  end.
Definition bitn (b : bool) (k : N) : N := if b then k else 0%N.
(* one (expression, record) pair: which of the four models disagree with what was observed / decline *)
Definition pair_code (R : record) (e : expr) (oi op oc os : impl) : N :=
  let mi := interpreted R e in let mp := py_eval R e in let mc := compiled R e in let ms := py_strict R e in
  (bitn (negb (same mi oi)) 1 + bitn (negb (same mp op)) 2 + bitn (negb (same mc oc)) 4 + bitn (negb (same_strict ms os)) 8
   + bitn (declined mi) 16 + bitn (declined mp) 32 + bitn (declined mc) 64 + bitn (declined ms) 128
   + bitn (in_language e && fresh_vars e) 256)%N.
"""


def eval_codes(ctx, records_coq, cases, shard_size=150, name="c07"):
    """cases: list of (record index, expr literal, oi, op, oc, os).  Returns (codes, err)."""
    shards = []
    sizes = []
    hdr = COQ_HEADER + "".join("Definition R%d : record := %s.\n" % (i, r) for i, r in enumerate(records_coq) if r is not None)
    for k in range(0, len(cases), shard_size):
        chunk = cases[k:k + shard_size]
        sizes.append(len(chunk))
        text = hdr + "Definition codes : list N :=\n [ " + "\n ; ".join(
            "pair_code R%d %s %s %s %s %s" % c for c in chunk) + "\n ; 7777%N ].\n"
        text += 'Goal True. idtac "@@codes". exact I. Qed.\nEval vm_compute in codes.\n'
        shards.append(("%s_%04d" % (name, k // shard_size), text))
    res = core.run_case_shards(ctx.work, shards, timeout=900)
    codes = []
    for k, (nm, _) in enumerate(shards):
        rc, out = res[nm]
        lst = core.parse_nat_list(out, marker="codes") if rc == 0 else None
        if lst is None:
            return None, "shard %s failed (rc=%s): %s" % (nm, rc, out[-1500:])
        if len(lst) != sizes[k] + 1 or lst[-1] != 7777:
            return None, "shard %s: unexpected output length %d (want %d): %s" % (nm, len(lst), sizes[k] + 1, out[-400:])
        codes.extend(lst[:-1])
    return codes, None


# -------------------------------------------------------------------------------------------------
# ground truth: CPython `eval` with an independent reference namespace, and a strict reference evaluator

def _whitelisted_class(dotted):
    import importlib
    mod = importlib.import_module("flow.record.fieldtypes")
    obj = mod
    try:
        for part in dotted.split("."):
            obj = getattr(obj, part)
    except AttributeError:
        return None
    return obj


class Undefined(Exception):
    """a sub-expression is not defined on this record / the construct is outside the documented language"""


class TooBig(Exception):
    """the pair is not run at all: a sequence repetition / power / shift that would need huge memory"""


class _ProbeMissing:
    """stands for a missing field while probing for huge intermediate values: absorbs every operation, so that the
    probe goes on to the sub-expressions the (eager) interpreted engine would still evaluate"""

    def __getattr__(self, k):
        if k.startswith("__"):
            raise AttributeError(k)
        return self

    def _f(self, *a):
        return False

    __add__ = __radd__ = __mul__ = __rmul__ = __mod__ = __rmod__ = __and__ = __rand__ = __or__ = __ror__ = _f
    __sub__ = __rsub__ = __truediv__ = __rtruediv__ = __floordiv__ = __pow__ = __xor__ = __lshift__ = __rshift__ = _f
    __eq__ = __ne__ = __lt__ = __le__ = __gt__ = __ge__ = __contains__ = _f
    __hash__ = None

    def __bool__(self):
        return False

    def __len__(self):
        return 0

    def __iter__(self):
        return iter(())


_PROBE_MISSING = _ProbeMissing()


class _ProbeRecord:
    def __init__(self, rec):
        self._rec = rec

    def __getattr__(self, k):
        return getattr(self._rec, k, _PROBE_MISSING)


def probe_too_big(tree, ns):
    """True when some sub-expression would build a huge value.  (1) the whole expression, eagerly, with missing fields
    absorbed; (2) every arithmetic node on its own, so that an exception in an earlier sibling cannot hide it."""
    env = dict(ns)
    env["r"] = _ProbeRecord(ns["r"])
    try:
        ref_eval(tree.body, env, "probe")
    except TooBig:
        return True
    except RecursionError:
        raise
    except Exception:  # noqa
        pass
    for n in ast.walk(tree):
        if isinstance(n, ast.BinOp):
            try:
                ref_eval(n, env, "probe")
            except TooBig:
                return True
            except RecursionError:
                raise
            except Exception:  # noqa
                pass
    return False


def _guard(op, a, b):
    if isinstance(op, ast.Mult):
        for x, y in ((a, b), (b, a)):
            if isinstance(x, (str, bytes, list, tuple)) and isinstance(y, int) and (y > 5000 or len(x) * y > 200000):
                raise TooBig()
    if isinstance(op, (ast.Pow, ast.LShift)) and isinstance(b, int) and (b > 512 or b < -512):
        raise TooBig()
    if isinstance(a, int) and isinstance(b, int) and (a.bit_length() > 4096 or b.bit_length() > 4096):
        raise TooBig()
    if isinstance(op, ast.Add) and isinstance(a, (str, bytes, list, tuple)) and len(a) > 20000:
        raise TooBig()


REF_MISSING = object()


def ref_walk(rec):
    """the record, then -- depth first -- the records in its `record` fields, then those in its `record[]` fields"""
    yield rec
    for nm, fld in rec._desc.fields.items():
        if fld.typename == "record":
            v = getattr(rec, nm)
            if v is not None:
                yield from ref_walk(v)
    for nm, fld in rec._desc.fields.items():
        if fld.typename == "record[]":
            v = getattr(rec, nm)
            if v is not None:
                for x in v:
                    yield from ref_walk(x)


class RefTypeValues:
    """Reference meaning of `Type.<type>[.<attr>...]` (documented: the comparison / membership holds for ANY field of
    that type anywhere in the record tree, after following the attribute path)."""

    def __init__(self, rec, ty, attrs=()):
        self._rec, self._ty, self._attrs = rec, ty, tuple(attrs)

    def __getattr__(self, a):
        if a.startswith("_"):
            raise AttributeError(a)
        return RefTypeValues(self._rec, self._ty, self._attrs + (a,))

    def _vals(self):
        for rec in ref_walk(self._rec):
            for nm, fld in rec._desc.fields.items():
                if fld.typename != self._ty:
                    continue
                v = getattr(rec, nm)
                for a in self._attrs:
                    v = getattr(v, a, REF_MISSING)
                    if v is REF_MISSING:
                        break
                if v is not REF_MISSING:
                    yield v

    def __iter__(self):
        return iter([nm for nm, fld in self._rec._desc.fields.items() if fld.typename == self._ty])

    def _any(self, op, other):
        for v in self._vals():
            if op(v, other):
                return True
        return False

    def __eq__(self, o):
        return self._any(operator.eq, o)

    def __ne__(self, o):
        return self._any(operator.ne, o)

    def __lt__(self, o):
        return self._any(operator.lt, o)

    def __le__(self, o):
        return self._any(operator.le, o)

    def __gt__(self, o):
        return self._any(operator.gt, o)

    def __ge__(self, o):
        return self._any(operator.ge, o)

    def __contains__(self, o):
        return self._any(operator.contains, o)

    __hash__ = None


class RefType:
    def __init__(self, rec, prefix=""):
        self._rec, self._prefix = rec, prefix

    def __getattr__(self, ty):
        from flow.record.whitelist import WHITELIST
        if ty.startswith("_"):
            raise AttributeError(ty)
        path = self._prefix + ty
        if path in WHITELIST:
            return RefTypeValues(self._rec, path)
        if any(w.startswith(path + ".") for w in WHITELIST):
            return RefType(self._rec, path + ".")
        raise AttributeError(ty)


def ref_lower(s):
    return s.lower() if isinstance(s, str) else s


def ref_upper(s):
    return s.upper() if isinstance(s, str) else s


def reference_namespace(r):
    """The names of the documented selector language, bound to independent reference implementations."""
    rec = r["rec"]
    from flow.record.base import Record
    MISSING = object()

    def need_record(x):
        if not isinstance(x, Record):
            raise AttributeError("not a record")

    def getter(x):
        need_record(x)
        fieldnames = list(x._desc.fields)

        def get(field):
            if not isinstance(field, str):
                raise TypeError("attribute name must be string")
            if field.startswith("__"):
                from flow.record.selector import InvalidOperation
                raise InvalidOperation("dunder field name")
            return getattr(x, field) if field in fieldnames else (getattr(x, field, MISSING) if field.startswith("_") else MISSING)
        return get

    def ref_name(x):
        return x._desc.name if isinstance(x, Record) else "UnknownRecord"

    def ref_names(x):
        from flow.record.base import GroupedRecord
        if isinstance(x, GroupedRecord):
            return {m._desc.name for m in x.records}        # documented: the names of the member records
        return {x._desc.name} if isinstance(x, Record) else ["UnknownRecord"]

    def ref_has_field(x, field):
        need_record(x)
        return field in list(x._desc.fields)

    def ref_field_equals(x, fields, strings, nocase=True):
        get = getter(x)
        want = [ref_lower(s) for s in strings] if nocase else strings
        for f in fields:
            v = get(f)
            if v is MISSING:
                continue
            if nocase:
                v = ref_lower(v)
            for s in want:
                if s == v:
                    return True
        return False

    def ref_field_contains(x, fields, strings, nocase=True, word_boundary=False):
        get = getter(x)
        want = [ref_lower(s) for s in strings] if nocase else strings
        for f in fields:
            v = get(f)
            if v is MISSING:
                continue
            if nocase:
                v = ref_lower(v)
            for s in want:
                if word_boundary is False:
                    if s in v:
                        return True
                elif v is None:
                    if s is None:
                        return True
                elif isinstance(v, str) and re.search(r"\b%s\b" % re.escape(s), v) is not None:
                    return True
        return False

    def ref_field_regex(x, fields, regex):
        get = getter(x)
        pat = re.compile(regex)
        for f in fields:
            v = get(f)
            if v is MISSING:
                continue
            if pat.search(v) is not None:
                return True
        return False

    def ref_get_type(x):
        return str(type(x))

    import flow.record.fieldtypes as ft

    def ref_fields(t):
        """documented: the fields of the record that have the given type, named by a string, a bare type name
        (string, varint ...) or a dotted one (net.ipaddress)"""
        from flow.record.whitelist import WHITELIST
        if isinstance(t, str):
            tn = t
        else:
            hits = [w for w in WHITELIST if _whitelisted_class(w) is t]
            if not hits:
                raise TypeError("not a field type")
            tn = hits[0]
            # aliases (net.IPAddress is net.ipaddress ...): any of the names of that class
            return [f for f in rec._desc.fields.values() if f.typename in hits]
        return [f for f in rec._desc.fields.values() if f.typename == tn]

    ns = dict(r=rec, Type=RefType(rec), fields=ref_fields, lower=ref_lower, upper=ref_upper, name=ref_name, names=ref_names,
              has_field=ref_has_field, field_equals=ref_field_equals, field_contains=ref_field_contains,
              field_regex=ref_field_regex, get_type=ref_get_type, net=ft.net,
              string=ft.string, varint=ft.varint, wstring=ft.wstring, uint16=ft.uint16, uint32=ft.uint32,
              boolean=ft.boolean, path=ft.path, uri=ft.uri)
    ns["__callables__"] = tuple(v for v in ns.values() if callable(v)) + (
        ft.net.ipaddress, ft.net.ipnetwork, ft.net.IPAddress, ft.net.IPNetwork)
    return ns


PY_BIN = {ast.Add: operator.add, ast.Sub: operator.sub, ast.Mult: operator.mul, ast.MatMult: operator.matmul,
          ast.Div: operator.truediv, ast.Mod: operator.mod, ast.Pow: operator.pow, ast.LShift: operator.lshift,
          ast.RShift: operator.rshift, ast.BitOr: operator.or_, ast.BitXor: operator.xor, ast.BitAnd: operator.and_,
          ast.FloorDiv: operator.floordiv}
PY_UN = {ast.Not: operator.not_, ast.USub: operator.neg, ast.UAdd: operator.pos, ast.Invert: operator.inv}
PY_CMP = {ast.Eq: operator.eq, ast.NotEq: operator.ne, ast.Lt: operator.lt, ast.LtE: operator.le, ast.Gt: operator.gt,
          ast.GtE: operator.ge, ast.Is: operator.is_, ast.IsNot: operator.is_not,
          ast.In: lambda a, b: operator.contains(b, a), ast.NotIn: lambda a, b: not operator.contains(b, a)}
BUILTINS = dict(any=any, all=all, str=str, repr=repr)
# the operators of the documented language; every other operator is outside it
LANG_BIN = (ast.Add, ast.Mult, ast.Div, ast.Mod, ast.BitAnd, ast.BitOr)
LANG_UN = (ast.Not,)


def ref_eval(node, env, strict):
    """Independent evaluator of the documented language over Python values.  strict: and/or evaluate every operand
    (the value is still the operand Python selects); constructs outside the language raise Undefined."""
    if isinstance(node, ast.Constant):
        return node.value
    if isinstance(node, ast.Name):
        if node.id in env:
            return env[node.id]
        if node.id in BUILTINS:
            return BUILTINS[node.id]
        import builtins as _b
        if hasattr(_b, node.id):
            if strict is True:
                raise Undefined("a builtin that is not part of the language")
            return getattr(_b, node.id)
        raise NameError(node.id)
    if isinstance(node, ast.Attribute):
        if strict is True and node.attr.startswith("__"):
            raise Undefined("dunder attribute")
        return getattr(ref_eval(node.value, env, strict), node.attr)
    if isinstance(node, ast.List):
        return [ref_eval(e, env, strict) for e in node.elts]
    if isinstance(node, ast.Tuple):
        return tuple(ref_eval(e, env, strict) for e in node.elts)
    if isinstance(node, ast.BoolOp):
        stop = (lambda v: not v) if isinstance(node.op, ast.And) else (lambda v: bool(v))
        if strict:
            vals = [ref_eval(e, env, strict) for e in node.values]
            for v in vals[:-1]:
                if stop(v):
                    return v
            return vals[-1]
        for e in node.values[:-1]:
            v = ref_eval(e, env, strict)
            if stop(v):
                return v
        return ref_eval(node.values[-1], env, strict)
    if isinstance(node, ast.UnaryOp):
        if strict is True and not isinstance(node.op, LANG_UN):
            raise Undefined("operator outside the language")
        return PY_UN[type(node.op)](ref_eval(node.operand, env, strict))
    if isinstance(node, ast.BinOp):
        if strict is True and not isinstance(node.op, LANG_BIN):
            raise Undefined("operator outside the language")
        a = ref_eval(node.left, env, strict)
        b = ref_eval(node.right, env, strict)
        _guard(node.op, a, b)
        return PY_BIN[type(node.op)](a, b)
    if isinstance(node, ast.Compare):
        left = ref_eval(node.left, env, strict)
        res = True
        for op, c in zip(node.ops, node.comparators):
            right = ref_eval(c, env, strict)
            if strict is True and isinstance(op, (ast.In, ast.NotIn)) and isinstance(left, RefTypeValues):
                raise Undefined("typed matcher on the left of a membership test (documented as interpreter-only)")
            res = PY_CMP[type(op)](left, right)
            if not res:
                return res
            left = right
        return res
    if isinstance(node, ast.Call):
        f = ref_eval(node.func, env, strict)
        if strict is True and not any(f is v for v in list(env.get("__callables__", ())) + list(BUILTINS.values())):
            raise Undefined("call of something that is not a function of the language")
        args = []
        for a in node.args:
            if isinstance(a, ast.Starred):
                raise Undefined("starred")
            if isinstance(a, ast.GeneratorExp):
                args.append(ref_genexp(a, env, strict))
            else:
                args.append(ref_eval(a, env, strict))
        kw = {}
        for k in node.keywords:
            if k.arg is None:
                raise Undefined("**")
            kw[k.arg] = ref_eval(k.value, env, strict)
        return f(*args, **kw)
    raise Undefined(type(node).__name__)


def ref_genexp(g, env, strict):
    def rec(gens, env):
        if not gens:
            yield ref_eval(g.elt, env, strict)
            return
        c = gens[0]
        if not isinstance(c.target, ast.Name):
            raise Undefined("target")
        for v in ref_eval(c.iter, env, strict):
            env2 = dict(env)
            env2[c.target.id] = v
            if all(ref_eval(i, env2, strict) for i in c.ifs):
                yield from rec(gens[1:], env2)
    return rec(list(g.generators), env)


def outcome(fn):
    try:
        return ("val", fn())
    except Undefined as e:
        return ("undef", str(e))
    except TooBig:
        return ("undef", "too big")
    except RecursionError:
        raise
    except Exception as e:  # noqa
        return ("exc", type(e).__name__, str(e)[:120])


def truth_of(o):
    """canonical: truth value or exception class"""
    if o[0] == "val":
        try:
            return ("val", bool(o[1]))
        except Exception as e:  # noqa
            return ("exc", type(e).__name__, "bool()")
    return o[:2]


# -------------------------------------------------------------------------------------------------
# syntactic classes (known findings are identified by these)

DATA_NAMES = {"None", "True", "False", "str", "repr", "fields", "any", "all", "lower", "upper", "name", "names",
              "get_type", "field_contains", "field_equals", "field_regex", "has_field", "r", "Type"}


def syntactic_classes(tree):
    """Which hypotheses of C07_interpreted does the expression break syntactically?
    boolop-as-operand: and/or whose VALUE is used; generator-variable-shadows: a generator variable that is a name of the
    selector namespace or the variable of an enclosing generator expression (per-element parts only)."""
    cls = set()

    def walk(n, boolpos, enclosing):
        if isinstance(n, ast.BoolOp):
            if not boolpos:
                cls.add("boolop-as-operand")
            for v in n.values:
                walk(v, True, enclosing)
            return
        if isinstance(n, ast.UnaryOp) and isinstance(n.op, ast.Not):
            walk(n.operand, True, enclosing)
            return
        if isinstance(n, ast.GeneratorExp):
            own = [c.target.id for c in n.generators if isinstance(c.target, ast.Name)]
            if any(v in DATA_NAMES or v in enclosing for v in own):
                cls.add("generator-variable-shadows")
            inner = enclosing | set(own)
            for i, c in enumerate(n.generators):
                walk(c.iter, False, enclosing if i == 0 else inner)
                for cond in c.ifs:
                    walk(cond, True, inner)
            walk(n.elt, True, inner)
            return
        for ch in ast.iter_child_nodes(n):
            if isinstance(ch, (ast.expr, ast.comprehension, ast.keyword)):
                walk(ch, False, enclosing)

    walk(tree.body, True, frozenset())
    return cls


def find_known(kf, **case):
    for f in kf:
        m = f.get("match", {})
        if all(case.get(k) == v for k, v in m.items()):
            return f
    return None


# -------------------------------------------------------------------------------------------------
# expression generator (source text)

class Gen:
    VARS = ["x", "y", "z", "w", "v", "q"]

    def __init__(self, rnd, fields, wide=False, nested=False):
        self.rnd = rnd
        self.nested = nested
        self.ints = [nm for ty, nm in fields if ty in ("varint", "boolean")]
        self.strs = [nm for ty, nm in fields if ty in ("string", "uri")]
        if nested:
            self.ints += ["sub.num", "sub.deeper.num"]
            self.strs += ["sub.txt", "sub.link"]
        self.ilists = [nm for ty, nm in fields if ty == "varint[]"]
        self.slists = [nm for ty, nm in fields if ty == "string[]"]
        self.wide = wide            # also constructs the Coq model declines (floats, regex, net.*): implementation-level only
        self.used = []
        self.scope = []             # (name, kind)

    def new(self):
        self.used = []
        self.scope = []
        return self

    # ---- leaves
    def int_leaf(self):
        r = self.rnd
        c = r.random()
        vs = [v for v, k in self.scope if k == "int"]
        if vs and c < 0.35:
            return r.choice(vs)
        if c < 0.6 and self.ints:
            return "r." + r.choice(self.ints)
        if c < 0.63:
            return "r.u"
        return str(r.choice(SMALL + [100, 255, 2 ** 31, 2 ** 64] if r.random() < 0.25 else SMALL))

    def str_leaf(self):
        r = self.rnd
        c = r.random()
        vs = [v for v, k in self.scope if k == "str"]
        if vs and c < 0.35:
            return r.choice(vs)
        if c < 0.6 and self.strs:
            return "r." + r.choice(self.strs)
        return repr(r.choice(STRS))

    def list_leaf(self):
        r = self.rnd
        c = r.random()
        if c < 0.35 and self.ilists:
            return "r." + r.choice(self.ilists)
        if c < 0.55 and self.slists:
            return "r." + r.choice(self.slists)
        if c < 0.6:
            return "[]"
        n = r.choice([1, 2, 3])
        if r.random() < 0.5:
            items = [self.int_leaf() for _ in range(n)]
        else:
            items = [self.str_leaf() for _ in range(n)]
        if r.random() < 0.25:
            return "(%s,)" % ", ".join(items)
        return "[%s]" % ", ".join(items)

    def leaf(self, want):
        r = self.rnd
        if r.random() < 0.012:
            # an attribute (chain) of a field the record lacks: missing as well, in both engines
            return r.choice(["r.zz.yy", "r.zz.a.b", "r.zz.real", "r.zz.yy.zz"])
        if want == "int":
            return self.int_leaf()
        if want == "str":
            return self.str_leaf()
        if want == "list":
            return self.list_leaf()
        c = r.random()
        if c < 0.08:
            return r.choice(["None", "True", "False"])
        return self.leaf(r.choice(["int", "str", "list"]))

    # ---- values
    def value(self, d, want="any"):
        r = self.rnd
        if want == "any":
            want = r.choice(["int", "int", "str", "str", "list"])
        if r.random() < 0.06:
            want = r.choice(["int", "str", "list"])      # deliberately ill-typed now and then
        if d <= 0 or r.random() < 0.3:
            return self.leaf(want)
        c = r.random()
        if want == "int":
            if c < 0.75:
                op = r.choice(["+", "*", "%", "&", "|", "+", "%"])
                if self.wide and r.random() < 0.1:
                    op = "/"
                return "(%s %s %s)" % (self.value(d - 1, "int"), op, self.value(d - 1, "int"))
            if c < 0.82:
                return "varint(%s)" % self.value(d - 1, "int")
            if c < 0.9:
                return "(%s)" % self.boolean(d - 1)     # a bool used as a number
            return "upper(%s)" % self.value(d - 1, "int")
        if want == "str":
            if c < 0.3:
                return "(%s + %s)" % (self.value(d - 1, "str"), self.value(d - 1, "str"))
            if c < 0.4:
                return "(%s * %s)" % (self.value(d - 1, "str"), r.choice(["0", "1", "2", "3", "r.m"]))
            if c < 0.65:
                return "%s(%s)" % (r.choice(["lower", "upper"]), self.value(d - 1, "str"))
            if c < 0.72:
                return "lower(s=%s)" % self.value(d - 1, "str")
            if c < 0.8:
                return "name(r)"
            if c < 0.9:
                return "string(%s)" % self.value(d - 1, "str")
            return self.leaf("str")
        # list
        if c < 0.35:
            n = r.choice([0, 1, 2, 3])
            items = [self.value(d - 1, r.choice(["int", "str"])) for _ in range(n)]
            if r.random() < 0.3:
                return "(%s,)" % ", ".join(items) if items else "()"
            return "[%s]" % ", ".join(items)
        if c < 0.6:
            return "(%s + %s)" % (self.value(d - 1, "list"), self.value(d - 1, "list"))
        if c < 0.7:
            return "(%s * %s)" % (self.value(d - 1, "list"), r.choice(["0", "1", "2"]))
        return self.leaf("list")

    # ---- booleans
    def compare(self, d):
        r = self.rnd
        c = r.random()
        if c < 0.18:
            item = self.value(d - 1, r.choice(["int", "str"]))
            cont = self.value(d - 1, r.choice(["list", "list", "str"]))
            return "(%s %s %s)" % (item, r.choice(["in", "not in"]), cont)
        if c < 0.24:
            return "(%s %s None)" % (self.value(d - 1), r.choice(["is", "is not", "==", "!="]))
        if c < 0.30:
            # the same members in a list and in a tuple: equal only if the container kinds are equal
            items = [self.leaf(r.choice(["int", "str"])) for _ in range(r.choice([0, 1, 2, 2, 3]))]
            tup = "(%s,)" % ", ".join(items) if items else "()"
            lst = "[%s]" % ", ".join(items)
            a, b = r.choice([(tup, lst), (lst, tup), (tup, tup), (lst, lst)])
            c2 = r.random()
            if c2 < 0.6:
                return "(%s %s %s)" % (a, r.choice(["==", "!=", "=="]), b)
            if c2 < 0.8:
                return "(%s %s [%s])" % (a, r.choice(["in", "not in"]), b)
            return "((%s + %s) %s (%s + %s))" % (a, a, r.choice(["==", "!="]), b, b)
        want = r.choice(["int", "int", "str", "list", "any"])
        n = r.choice([1, 1, 1, 2, 2, 3])
        parts = [self.value(d - 1, want)]
        for _ in range(n):
            parts.append(r.choice(["==", "!=", "<", "<=", ">", ">=", "==", "<"]))
            parts.append(self.value(d - 1, want))
        return "(%s)" % " ".join(parts)

    def typed_nested(self, d):
        """typed matchers with and without attribute paths, aimed at values held by nested records"""
        r = self.rnd
        c = r.random()
        cmp6 = ["==", "==", "!=", "<", "<=", ">", ">="]
        if c < 0.4:
            at = r.choice(URI_ATTRS)
            lit = repr(r.choice(URI_LITS[at]))
            if r.random() < 0.2:
                return "(%s %s Type.uri.%s)" % (lit if r.random() < 0.7 else repr(r.choice(URI_LITS[at])[1:3]), r.choice(["in", "not in"]), at)
            return "(Type.uri.%s %s %s)" % (at, r.choice(["==", "==", "==", "!="]), lit) if r.random() < 0.8 \
                else "(%s %s Type.uri.%s)" % (lit, r.choice(["==", "!="]), at)
        if c < 0.5:
            return "(Type.uri %s %s)" % (r.choice(["==", "!="]), repr(r.choice(URIS_TOP + URIS_NESTED)))
        if c < 0.7:
            at = r.choice(["real", "real", "imag", "denominator", "numerator"])
            return "(Type.varint.%s %s %s)" % (at, r.choice(cmp6), r.choice(["0", "1", "5", "7", "9", "100", "r.n"]))
        if c < 0.8:
            return "(Type.varint %s %s)" % (r.choice(cmp6), r.choice(["5", "7", "9", "100"]))
        if c < 0.9:
            return "(Type.string %s %s)" % (r.choice(["==", "!="]), repr(r.choice(["hello", "abc", "b", "Xy", "top"])))
        if c < 0.95:
            return "(%s in Type.string)" % repr(r.choice(["ell", "b", "X", "zz"]))
        return "(Type.uri.%s == 1)" % r.choice(["zzz", "filename.zz", "port"])

    def typed(self, d):
        r = self.rnd
        if self.nested and r.random() < 0.75:
            return self.typed_nested(d)
        ty = r.choice(["varint", "string", "boolean", "varint[]", "uint16"])
        ty = ty if "[" not in ty else "varint"
        lit = self.value(d - 1, "int" if ty in ("varint", "boolean", "uint16") else "str")
        c = r.random()
        if r.random() < 0.2:
            # the typed matcher as the middle (or an end) of a chained comparison: each link looks at every field again
            lit2 = self.value(d - 1, "int" if ty in ("varint", "boolean", "uint16") else "str")
            ops = ["<", "<=", ">", ">=", "==", "!="]
            if r.random() < 0.7:
                return "(%s %s Type.%s %s %s)" % (lit, r.choice(ops), ty, r.choice(ops), lit2)
            return "(Type.%s %s %s %s Type.%s)" % (ty, r.choice(ops), lit, r.choice(ops), ty)
        if c < 0.45:
            return "(Type.%s %s %s)" % (ty, r.choice(["==", "!=", "<", "<=", ">", ">="]), lit)
        if c < 0.65:
            return "(%s %s Type.%s)" % (lit, r.choice(["==", "!=", "<", "<=", ">", ">="]), ty)
        if c < 0.85:
            return "(%s %s Type.%s)" % (self.value(d - 1, "str"), r.choice(["in", "not in"]), "string")
        if c < 0.93:
            return "(Type.%s %s %s)" % (ty, r.choice(["in", "not in"]), self.value(d - 1, "list"))
        return "field_equals(r, Type.string, [%s])" % self.value(d - 1, "str")

    def helper(self, d):
        r = self.rnd
        c = r.random()
        flds = "[%s]" % ", ".join(repr(r.choice(self.strs + self.ints + ["zz", "s"])) for _ in range(r.choice([1, 2, 3])))
        strs = "[%s]" % ", ".join(self.value(d - 1, "str") for _ in range(r.choice([1, 2])))
        if r.random() < 0.25:
            flds = "['u', %s]" % flds[1:-1]                     # an unset field first
        if r.random() < 0.2:
            strs = "[None, %s]" % strs[1:-1] if r.random() < 0.5 else "[%s, None]" % strs[1:-1]
        if c < 0.06:
            return r.choice(["(%s in names(r))" % repr(r.choice(["test/c07", "test/c07n", "UnknownRecord", "x"])),
                             "(name(r) == %s)" % repr(r.choice(["test/c07", "test/c07n", "UnknownRecord"])),
                             "any(nm == name(r) for nm in names(r))"])
        if c < 0.2:
            return "has_field(r, %s)" % repr(r.choice(self.strs + ["zz", "n", "_generated"]))
        if c < 0.6:
            extra = r.choice(["", "", ", nocase=False", ", False", ", nocase=True", ", nocase=%s" % self.int_leaf()])
            return "field_equals(r, %s, %s%s)" % (flds, strs, extra)
        if self.wide and c < 0.68:
            return "field_regex(r, %s, %s)" % (flds, repr(r.choice(["a.c", "^a", "b$", "[A-Z]"])))
        if c < 0.74 and (self.wide or r.random() < 0.3):
            return "field_contains(r, %s, %s, word_boundary=True%s)" % (flds, strs, r.choice(["", ", nocase=False"]))
        extra = r.choice(["", "", ", nocase=False", ", True, False", ", word_boundary=False"])
        sflds = "[%s]" % ", ".join(repr(r.choice(self.strs + ["zz"])) for _ in range(r.choice([1, 2])))
        return "field_contains(r, %s, %s%s)" % (sflds if r.random() < 0.85 else flds, strs, extra)

    def quant(self, d, nested_ok):
        r = self.rnd
        q = r.choice(["any", "all"])
        free = [v for v in self.VARS if v not in self.used]
        reuse = r.random() < 0.15 and self.used
        if reuse or not free:
            var = r.choice(self.used) if self.used else "x"
        elif r.random() < 0.01:
            var = r.choice(["r", "lower", "Type", "any"])
        else:
            var = free[0]
        self.used.append(var)
        kind = r.choice(["int", "str"])
        c = r.random()
        if self.nested and r.random() < 0.3:
            # over the records of a record[] field: the element's own fields
            saved = list(self.scope)
            fld, lits, k2 = r.choice([("num", ["5", "7", "9", "100", "r.n"], "int"), ("txt", ["'hello'", "'b'", "'abc'", "r.s"], "str")])
            elt = "(%s.%s %s %s)" % (var, fld, r.choice(["==", "!=", "<", ">"]), r.choice(lits))
            if r.random() < 0.3:
                elt = "(%s and %s)" % (elt, self.boolean(max(d - 2, 0), nested_ok=False))
            self.scope = saved
            return "%s(%s for %s in r.subs)" % (q, elt, var)
        if kind == "int":
            it = ("r." + r.choice(self.ilists)) if (c < 0.5 and self.ilists) else "[%s]" % ", ".join(self.int_leaf() for _ in range(r.choice([0, 1, 2, 3])))
        else:
            if c < 0.35 and self.slists:
                it = "r." + r.choice(self.slists)
            elif c < 0.55 and self.strs:
                it = "r." + r.choice(self.strs)
            elif c < 0.62:
                it = "Type.string"
            else:
                it = "[%s]" % ", ".join(self.str_leaf() for _ in range(r.choice([0, 1, 2, 3])))
        if r.random() < 0.05:
            it = self.value(d - 1)      # any iterable (or not)
        saved = list(self.scope)
        self.scope.append((var, kind))
        clauses = "for %s in %s" % (var, it)
        if d >= 2 and r.random() < 0.2:
            free2 = [v for v in self.VARS if v not in self.used]
            if free2:
                var2 = free2[0]
                self.used.append(var2)
                it2 = r.choice(["[%s, 1]" % var, "r." + (self.ilists[0] if self.ilists else "a"), "[1, 2]"]) if kind == "int" \
                    else r.choice(["[%s, 'a']" % var, var, "['a', 'b']"])
                clauses += " for %s in %s" % (var2, it2)
                self.scope.append((var2, kind))
        inner = d - 1
        body_nested = nested_ok and r.random() < 0.25
        last = self.scope[-1][0]

        def about_var():
            # a test whose outcome depends on WHICH element the loop variable holds
            if kind == "int":
                return "(%s %s %s)" % (last, r.choice(["==", "!=", "<", ">", "<=", ">="]), r.choice(["0", "1", "2", "3", "5", "7", "r.m", "r.k"]))
            return "(%s %s %s)" % (last, r.choice(["==", "!=", "<", ">", "in"]), r.choice(["'a'", "'b'", "'abc'", "r.s", "r.t", "'Xy'"]))

        for _ in range(r.choice([0, 0, 0, 1, 1, 2])):
            clauses += " if %s" % (about_var() if r.random() < 0.5 else self.boolean(min(inner, 1), nested_ok=body_nested))
        c2 = r.random()
        if c2 < 0.4:
            elt = about_var()
        elif c2 < 0.5:
            elt = "(%s %s %s)" % (about_var(), r.choice(["and", "or"]), self.boolean(max(inner - 1, 0), nested_ok=False))
        elif c2 < 0.9:
            elt = self.boolean(inner, nested_ok=body_nested)
        else:
            elt = self.value(inner)
        self.scope = saved
        return "%s(%s %s)" % (q, elt, clauses)

    def boolean(self, d, nested_ok=True):
        r = self.rnd
        if d <= 0:
            return self.compare(1) if r.random() < 0.7 else self.leaf("any")
        c = r.random()
        if c < 0.40:
            return self.compare(d)
        if c < 0.58:
            op = r.choice(["and", "or"])
            n = r.choice([2, 2, 3])
            return "(%s)" % (" %s " % op).join(self.boolean(d - 1, nested_ok) for _ in range(n))
        if c < 0.66:
            return "(not %s)" % self.boolean(d - 1, nested_ok)
        if c < (0.70 if self.nested else 0.76):
            return self.helper(d)
        if c < 0.82:
            return self.typed(d)
        if c < 0.94:
            if nested_ok or r.random() < 0.5:
                return self.quant(d, nested_ok)
            return self.compare(d)
        if c < 0.96:
            return "%s(%s)" % (r.choice(["any", "all"]), self.value(d - 1, "list"))
        return self.value(d - 1)            # a value in boolean position: its truthiness

    def top(self, d):
        self.new()
        r = self.rnd
        c = r.random()
        if c < 0.06:
            # boolean operators used as non-boolean operands (known finding class)
            return "(%s %s %s)" % ("(%s %s %s)" % (self.value(1), r.choice(["and", "or"]), self.value(1)),
                                   r.choice(["==", "!=", "in", "<"]), self.value(1))
        if c < 0.12:
            return self.value(d)
        return self.boolean(d)


OUTSIDE_NODES = [
    "r.n - 1", "-r.n", "+r.n", "~r.n", "r.n ** 2", "r.n // 2", "r.n ^ 1", "r.n << 1", "r.n >> 1", "r.n @ 2",
    "(1 if r.n else 2)", "r.a[0]", "r.a[0:1]", "{1: 2}", "{1, 2}", "[x for x in r.a]", "{x for x in r.a}",
    "{x: 1 for x in r.a}", "f'{r.n}'", "(lambda: 1)", "(y := 1)", "r.s.upper()", "'abc'.upper()", "len(r.a)", "bool(r.n)",
    "[*r.a]", "lower(*r.l)", "lower(**{})", "foo", "foo(1)", "r.__class__", "any(a for a, b in [(1, 2)])",
    "r.zz - 1", "1 - r.zz", "r.zz ** r.zz", "r.zz // 2",
    "field_equals(r, ['__doc__'], ['x'])", "field_equals(r, ['s', '__class__'], ['x'], nocase=False)",
    "field_contains(r, ['__module__'], ['flow'])", "field_regex(r, ['__doc__'], '.')",
]
IP_TEMPLATES = [
    "Type.net.ipaddress == '192.168.1.7'", "Type.net.ipaddress == '10.0.0.1'", "Type.net.ipaddress == '10.9.9.9'",
    "r.ip == '10.0.0.1'", "r.sub.addr == net.ipaddress('192.168.1.7')", "r.sub.addr != r.ip", "Type.uri.filename == 'evil.bin'",
    "Type.uri.hostname == 'example.com' and r.ip == net.ipaddress('10.0.0.1')", "Type.net.ipaddress.version == 4",
    "Type.net.ipaddress.version == 6", "any(x.addr == r.ip for x in [r.sub])", "net.ipaddress('10.0.0.1') in net.ipnetwork('10.0.0.0/8')",
    "r.ip in net.ipnetwork('10.0.0.0/8')", "Type.net.ipaddress.is_private == True", "r.sub.link.filename == 'evil.bin'",
]
def bytes_exprs(rnd, count):
    """helper functions over bytes values (fields and literals with ASCII letters): bytes are not text, lower/upper and
    the nocase folding of field_equals / field_contains must leave them alone"""
    lits = [repr(b) for b in BYTES_VALUES[:5]]
    ops = ["r.data", "r.d2", "r.data", "r.s"] + lits
    fixed = ["lower(r.data) == b'MZ-Header'", "field_equals(r, ['data'], [b'mz-header'])", "field_equals(r, ['data'], [b'MZ-Header'])",
             "field_contains(r, ['data'], [b'mz'])", "field_contains(r, ['data'], [b'MZ'])", "Type.bytes == b'MZ-Header'",
             "b'MZ' in Type.bytes", "upper(r.d2) == b'abc'", "(r.data + b'x') == b'MZ-Headerx'"]
    out = list(fixed)
    for _ in range(count):
        c = rnd.random()
        if c < 0.45:
            f1, f2 = rnd.choice(["lower", "upper", ""]), rnd.choice(["lower", "upper", "", ""])
            a, b = rnd.choice(ops), rnd.choice(ops)
            out.append("(%s %s %s)" % ("%s(%s)" % (f1, a) if f1 else a, rnd.choice(["==", "!=", "in", "=="]),
                                       ("%s(%s)" % (f2, b) if f2 else b)))
        elif c < 0.8:
            h = rnd.choice(["field_equals", "field_contains"])
            flds = "[%s]" % ", ".join(repr(rnd.choice(["data", "d2", "s", "zz"])) for _ in range(rnd.choice([1, 2])))
            strs = "[%s]" % ", ".join(rnd.choice(lits + ["'abc'", "lower(%s)" % rnd.choice(lits), "r.d2"]) for _ in range(rnd.choice([1, 2])))
            out.append("%s(r, %s, %s%s)" % (h, flds, strs, rnd.choice(["", "", ", nocase=False", ", nocase=True"])))
        else:
            out.append("(%s %s Type.bytes)" % (rnd.choice(lits + ["lower(%s)" % rnd.choice(lits)]), rnd.choice(["==", "!=", "in"])))
    return out


def membership_exprs(rnd, r, count):
    """`field in / not in <literal list or tuple of constants>` for every field of the record, the constants taken from a
    pool of foreign-kind renderings of the field values (str / int / float / bool) so that a member may EQUAL the field
    value without being of its type"""
    rec = r["rec"]
    pool = ["zzz", -1, 2.5, "", None]
    per_field = {}
    for ty, nm in r["fields"]:
        v = getattr(rec, nm)
        cands = [str(v)]
        for conv in (int, float, bool):
            try:
                cands.append(conv(v))
            except Exception:  # noqa
                pass
        if isinstance(v, str):
            cands += [v.upper(), v + "x"]
        per_field[nm] = cands
        pool += cands
    out = []
    for _ in range(count):
        nm = rnd.choice(list(per_field))
        k = rnd.choice([1, 2, 2, 3, 4])
        members = [rnd.choice(per_field[nm]) if rnd.random() < 0.45 else rnd.choice(pool) for _ in range(k)]
        lits = ", ".join(repr(m) for m in members)
        seq = "[%s]" % lits if rnd.random() < 0.6 else "(%s,)" % lits
        e = "(r.%s %s %s)" % (nm, rnd.choice(["in", "not in"]), seq)
        c = rnd.random()
        if c < 0.15:
            e = "(not %s)" % e
        elif c < 0.3:
            e = "(%s and %s)" % (e, "(r.%s %s [%s])" % (nm, rnd.choice(["in", "not in"]), repr(rnd.choice(per_field[nm]))))
        elif c < 0.4:
            e = "any(%s for x in [1, 2])" % e
        out.append(e)
    return out


# helper functions with None among the wanted strings, unset fields first, word_boundary on/off, nocase on/off; fields(...)
HELPER_NONE_TEMPLATES = [
    "field_contains(r, ['u', 's'], [None, 'ab'], word_boundary=True)", "field_contains(r, ['u'], [None], word_boundary=True)",
    "field_contains(r, ['u', 's'], [None, 'zz'], nocase=False, word_boundary=True)", "field_contains(r, ['s', 'u'], ['abc', None], word_boundary=True)",
    "field_contains(r, ['u', 's'], ['abc'], word_boundary=True)", "field_contains(r, ['u', 's'], ['ab'], word_boundary=True)",
    "field_contains(r, ['u'], ['abc'], word_boundary=True)", "field_contains(r, ['s', 't'], ['ABC'], word_boundary=True)",
    "field_contains(r, ['s', 't'], ['ABC'], nocase=False, word_boundary=True)", "field_contains(r, ['n'], ['1'], word_boundary=True)",
    "field_equals(r, ['u'], [None])", "field_equals(r, ['u', 's'], [None, 'ABC'], nocase=False)", "field_equals(r, ['s', 'u'], ['zz', None])",
    "field_equals(r, ['u'], ['abc', None], nocase=False)", "field_equals(r, ['s'], [None])",
    "any(f.name == 's' for f in fields(string))", "any(f.name == 'n' for f in fields('varint'))", "all(f.name != 's' for f in fields(string))",
    "any(f.name == 'a' for f in fields('varint[]'))", "any(f.name == 'b' for f in fields(boolean))", "any(f.name == 's' for f in fields(varint))",
    "name(r) == 'test/c07'", "'test/c07' in names(r)", "'UnknownRecord' in names(r)", "any(n == name(r) for n in names(r))", "'test_c07' in get_type(r)",
]
WIDE_FIELDS_TEMPLATES = [
    "any(f.name == 'ip' for f in fields(net.ipaddress))", "any(f.name == 'netw' for f in fields(net.ipnetwork))",
    "any(f.name == 'ip' for f in fields('net.ipaddress'))", "all(f.name != 'ip' for f in fields(net.ipaddress))",
    "any(f.name == 'p' for f in fields(path))", "any(f.name == 'u' for f in fields(uri))",
    "'test/c07wide' in names(r)", "name(r) == 'test/c07wide'",
]
# list vs tuple: the kind of the container is part of the value
KIND_TEMPLATES = [
    "(1, 2) == [1, 2]", "() == []", "(r.n,) != [r.n]", "[1, 2] in [(1, 2)]", "(1, 2) in [[1, 2]]", "(r.s, r.n) == (r.s, r.n)", "[r.s] == [r.s]",
    "((1,) + (2,)) == (1, 2)", "([1] + [2]) == [1, 2]", "(1, 2) < (1, 3)", "any(x == (1, 2) for x in [[1, 2]])", "(r.a == (1, 2, 3)) or (r.a == [1, 2, 3])",
    "(1, 2) != (1, 2)", "[(r.n, r.m)] == [(r.n, r.m)]", "[(r.n, r.m)] == [[r.n, r.m]]", "() == r.l", "(r.l == ()) or (r.l == [])",
]
ATTR_TEMPLATES = [
    "Type.uri.filename == 'x.txt'", "'x.t' in Type.uri.filename", "Type.uri.hostname == 'host'", "Type.uri.filename == 'y.bin'",
    "Type.uri.filename != 'x.txt'", "Type.uri.scheme == 'http'", "'nope' in Type.uri.hostname", "Type.uri.filename == 'nope'",
    "Type.path.name == 'f.txt'", "Type.path.suffix == '.txt'", "'f.t' in Type.path.name", "Type.path.name == 'nope'",
    "Type.datetime.year == 2020", "Type.datetime.month > 4", "Type.datetime.year == 1999",
    "Type.digest.md5 == 'd41d8cd98f00b204e9800998ecf8427e'", "Type.digest.md5 == 'x'",
    "'x.txt' == Type.uri.filename", "Type.uri.filename == 'x.txt' and Type.path.name == 'f.txt'",
]
ATTR2_TEMPLATES = [
    "Type.varint.real == 5", "Type.varint.denominator == 1", "Type.varint.real > 6", "Type.varint.imag == 0", "Type.varint.real == 6",
    "5 == Type.varint.real", "Type.varint == 5", "Type.string == 'x'", "'x' in Type.string", "1 < Type.varint.real < 6",
]
# the VALUE (not only the truth value) of every helper's result: compared with True / False / None / 0 / 1, used in
# arithmetic, for the match and the no-match case
def helper_value_exprs():
    calls = ["field_regex(r, ['s'], 'zzz')", "field_regex(r, ['s'], '^a')", "field_regex(r, ['zz'], '.')",
             "field_equals(r, ['s'], ['zzz'])", "field_equals(r, ['s'], ['ABC'])", "field_equals(r, ['zz'], ['x'])",
             "field_contains(r, ['s'], ['zzz'])", "field_contains(r, ['s'], ['b'])", "field_contains(r, ['s'], ['b'], word_boundary=True)",
             "field_contains(r, ['s'], ['abc'], word_boundary=True)", "has_field(r, 's')", "has_field(r, 'zz')",
             "lower(r.u)", "upper(r.n)", "lower(r.s)", "name(r)", "name(r.n)"]
    out = []
    for c in calls:
        for lit in ("True", "False", "None", "0", "1"):
            out += ["(%s == %s)" % (c, lit), "(%s != %s)" % (c, lit)]
        out += ["(%s in [False])" % c, "(%s in [True])" % c, "(%s in [None])" % c, "(%s not in [False, None])" % c,
                "(%s is None)" % c, "(%s is not None)" % c]
        if c.startswith(("field_", "has_field")):
            out += ["((%s + 1) == 1)" % c, "((%s + 1) == 2)" % c, "((%s * 2) == 0)" % c, "((%s | False) == False)" % c,
                    "((%s & True) == True)" % c]
    out += ["('test/c07' in names(r)) == True", "(names(r) == None)", "(names(r) != None)", "(names(r.n) == ['UnknownRecord'])"]
    return out


MULTI_TEMPLATES = [
    "10 < Type.varint < 100", "1000 < Type.varint < 10000", "10 < Type.varint < 60 < Type.varint", "1 < Type.varint < 10 < Type.varint < 100",
    "'a' <= Type.string <= 'z'", "'n' < Type.string < 'zzz'", "'a' <= Type.string <= 'c'", "Type.varint > 1000 > Type.varint",
    "Type.varint == 50 != Type.varint", "100 > Type.varint > 10", "Type.string < 'n' < Type.string",
    "all(c for t in [Type.varint] for c in [t > 10, t < 100000])", "all(c for t in [Type.string] for c in [t == r.first, t == r.last])",
    "any(t > 4000 and t < 60 for t in [Type.varint])", "field_contains(r, Type.string, [r.first]) and field_contains(r, Type.string, [r.last])",
    "any(f == 'last' for f in Type.string) and any(f == 'first' for f in Type.string)",
    "all(any(f == g for f in t) for t in [Type.string] for g in ['first', 'last'])",
    "80 <= Type.uint16 <= 8080", "Type.varint.real > 100 > Type.varint.real",
]


# record layouts that share the descriptor NAME and the field NAMES but not the field TYPES, met one after the other in
# one process (a stream of mixed producers): a typed matcher must go by the types the record at hand declares
LAYOUT_PAIRS = [
    ("test/c07layout1", [("uint32", "port"), ("string", "host")], dict(port=8080, host="h"),
     [("string", "port"), ("string", "host")], dict(port="8080", host="h")),
    ("test/c07layout2", [("string", "port"), ("varint", "n")], dict(port="8080", n=5),
     [("uint32", "port"), ("varint", "n")], dict(port=8080, n=5)),
    ("test/c07layout3", [("varint", "a"), ("string", "b")], dict(a=7, b="x7"),
     [("string", "a"), ("varint", "b")], dict(a="x7", b=7)),
]
LAYOUT_EXPRS = ["Type.string == '8080'", "'808' in Type.string", "Type.uint32 == 8080", "Type.uint32 > 1", "Type.string == 'h'",
                "Type.varint == 5", "Type.varint == 7", "Type.string == 'x7'", "'x' in Type.string", "Type.varint > 6",
                "any(f == 'port' for f in Type.string)", "any(f == 'a' for f in Type.varint)", "field_equals(r, Type.string, ['8080', 'x7'])"]


# grouped records (and records nested in their members) through every record-taking helper of the namespace, fixed
# cases; ground truth = the library's own helper called DIRECTLY on the record by CPython (not through an engine)
GROUPED_EXPRS = [
    "'a/x' in names(r)", "'grp/z' in names(r)", "'b/y' in names(r)", "names(r) == names(r)", "'a/x' in names(r) and 'b/y' in names(r)",
    "any(n == 'b/y' for n in names(r))", "all(n != name(r) for n in names(r))",
    "name(r) == 'grp/z'", "name(r) == 'a/x'", "upper(name(r)) == 'GRP/Z'", "name(r) in names(r)",
    "has_field(r, 's')", "has_field(r, 'n')", "has_field(r, 'sub')", "has_field(r, 'zz')",
    "'GroupedRecord' in get_type(r)", "'WrappedRecord' in get_type(r)", "get_type(r) == get_type(r)", "'varint' in get_type(r.n)",
    "'grp/z' in str(r)", "'grp/z' in repr(r)", "str(r) == repr(r)", "'q' in str(r)",
    "field_equals(r, ['s'], ['Q'])", "field_equals(r, ['s', 'n'], ['q'], nocase=False)", "field_equals(r, ['t'], ['tt'])",
    "field_contains(r, ['t', 's'], ['t'])", "field_contains(r, ['t'], ['T'], nocase=False)", "field_regex(r, ['t'], '^T')",
    "field_regex(r, ['s', 't'], 'q$')", "field_equals(r, Type.string, ['TT'])", "field_contains(r, Type.string, ['q'])",
    "r.s == 'q' and r.n == 1", "Type.string == 'Tt'", "Type.varint > 2", "'T' in Type.string",
    # the record held by a field of a member
    "name(r.sub) == 'a/x'", "'a/x' in names(r.sub)", "has_field(r.sub, 's')", "has_field(r.sub, 'n')", "field_equals(r.sub, ['s'], ['INNER'])",
    "field_contains(r.sub, ['s'], ['nn'])", "field_regex(r.sub, ['s'], '^in')", "'a/x' in str(r.sub)", "'a_x' in get_type(r.sub) or 'Record' in get_type(r.sub)",
    "any(name(x) == 'a/x' for x in r.subs)", "all('a/x' in names(x) for x in r.subs)",
    "'c/w' in names(r)", "name(r) == 'c/w'", "names(r.sub) == names(r.sub)", "any(n == 'a/x' for n in names(r.sub))",
    "'UnknownRecord' in names(r)", "'UnknownRecord' in names(r.sub)", "name(r.sub) != 'UnknownRecord'", "name(r.s) == 'UnknownRecord'",
    "'UnknownRecord' in names(r.s)", "'a_x' in get_type(r) or 'c_w' in get_type(r) or 'Grouped' in get_type(r)",
    # fields(...): interpreted engine only
    "any(f.name == 's' for f in fields('string'))", "any(f.name == 's' for f in fields(string))", "all(f.name != 's' for f in fields(string))",
    "any(f.name == 'k' for f in fields(varint))", "any(f.name == 'sub' for f in fields('record'))", "any(f.name == 'subs' for f in fields('record[]'))",
    "any(f.name == 's' for f in fields(varint))",
]


def grouped_records():
    from flow.record import GroupedRecord, RecordDescriptor
    A = RecordDescriptor("a/x", [("string", "s"), ("varint", "k")])
    B = RecordDescriptor("b/y", [("varint", "n"), ("string", "t")])
    C = RecordDescriptor("c/w", [("record", "sub"), ("record[]", "subs"), ("varint", "m")])
    a1, b1 = A(s="q", k=3, _generated=TS), B(n=1, t="Tt", _generated=TS)
    inner = A(s="inner", k=9, _generated=TS)
    c1 = C(sub=inner, subs=[inner, A(s="x", k=0, _generated=TS)], m=5, _generated=TS)
    g1 = GroupedRecord("grp/z", [a1, b1])
    g2 = GroupedRecord("grp/z", [a1, b1, c1])
    g3 = GroupedRecord("grp/outer", [g1, c1])            # a group inside a group
    out = []
    for label, rec in (("GroupedRecord('grp/z', [a/x(s='q', k=3), b/y(n=1, t='Tt')])", g1),
                       ("GroupedRecord('grp/z', [a/x(s='q', k=3), b/y(n=1, t='Tt'), c/w(sub=a/x(s='inner', k=9), subs=[a/x, a/x], m=5)])", g2),
                       ("GroupedRecord('grp/outer', [GroupedRecord('grp/z', [a/x, b/y]), c/w(sub=a/x(s='inner'), ...)])", g3),
                       ("a/x(s='q', k=3)", a1), ("c/w(sub=a/x(s='inner', k=9), subs=[a/x, a/x], m=5)", c1)):
        out.append(dict(which="grouped:" + label, vals={}, fields=[(f.typename, n) for n, f in rec._desc.fields.items()], rec=rec, coq=None))
    return out


def library_namespace(rec):
    """CPython's view: the library's helper functions themselves, called directly on the record"""
    import flow.record.selector as sel
    ns = {f.__name__: f for f in sel.FUNCTION_WHITELIST}
    ns.update(r=rec, Type=RefType(rec))
    ns["__callables__"] = tuple(v for v in ns.values() if callable(v))
    return ns


def grouped_check(ctx, chk):
    """ground truth: the INDEPENDENT reference helpers (documented meaning: names(r) = the member names of a group,
    {r's own name} for any other record ...) -- a defect of a helper itself shows up, not only an engine that hands the
    helper something else than the record"""
    n = 0
    for r in grouped_records():
        for text in GROUPED_EXPRS:
            tree = ast.parse(text, mode="eval")
            outs = run_pair(text, tree, r, chk.sel_cache)
            if outs is None:
                continue
            n += 1
            ctx.count_case(("grouped", r["which"], text), nontrivial=True)
            chk.property_check(text, tree, r, outs)
            if chk.reported:
                return n
    ctx.notes.append("grouped records / records nested in members through every record-taking helper: %d evaluations" % n)
    return n


def layout_check(ctx, chk):
    from flow.record import RecordDescriptor
    n = 0
    for name, fa, va, fb, vb in LAYOUT_PAIRS:
        for text in LAYOUT_EXPRS:
            tree = ast.parse(text, mode="eval")
            for fields, vals in ((fa, va), (fb, vb), (fa, va)):
                rec = RecordDescriptor(name, fields)(_generated=TS, **vals)
                r = dict(which="layout:%s:%s" % (name, ",".join("%s %s" % f for f in fields)), vals=vals, fields=fields, rec=rec, coq=None)
                outs = run_pair(text, tree, r, chk.sel_cache)
                if outs is None:
                    continue
                n += 1
                ctx.count_case(("layout", name, tuple(fields), text), nontrivial=True)
                chk.property_check(text, tree, r, outs)
                if chk.reported:
                    return n
    ctx.notes.append("descriptor layouts sharing name and field names but not types, met in sequence: %d evaluations" % n)
    return n


OUTSIDE_CONTEXTS = ["{U}", "({U}) == 1", "True or ({U}) == 1", "False and ({U}) == 1", "not ({U})", "[{U}] == []", "lower({U}) == 1",
                    "({U}) + 1 == 2", "any(({U}) == 1 for x in [1])", "1 < 2 < ({U})", "field_equals(r, ['s'], [{U}])"]


def exhaustive_small():
    """every expression of depth <= 2 over a small leaf set (thorough tier): leaf / unary / binary / comparison
    (1 and 2 links) / and / or, with depth-1 operands on either side of a depth-2 node"""
    leaves = ["1", "'a'", "None", "r.n", "r.a"]
    cmps = ["==", "!=", "<", "<=", ">", ">=", "in", "not in", "is", "is not"]
    bins = ["+", "*", "%", "&", "|"]
    d1 = []
    for a, b in itertools.product(leaves, leaves):
        for o in cmps + bins + ["and", "or"]:
            d1.append("(%s %s %s)" % (a, o, b))
    for a in leaves:
        d1.append("(not %s)" % a)
    yield from leaves
    yield from d1
    for e in d1:
        yield "(not %s)" % e
        for lf in leaves:
            for o in cmps + bins + ["and", "or"]:
                yield "(%s %s %s)" % (e, o, lf)
                yield "(%s %s %s)" % (lf, o, e)
    for a, b, c in itertools.product(leaves, leaves, leaves):
        for o1, o2 in itertools.product(cmps[:8], cmps[:8]):
            yield "(%s %s %s %s %s)" % (a, o1, b, o2, c)


# -------------------------------------------------------------------------------------------------
# one (expression, record) pair on the implementation

def run_pair(text, tree, r, sel_cache, ns=None):
    from flow.record.selector import CompiledSelector, Selector
    rec = r["rec"]
    if text not in sel_cache:
        sel_cache[text] = (Selector(text), CompiledSelector(text), compile(text, "<c07>", "eval"))
    s, c, code = sel_cache[text]
    ns = reference_namespace(r) if ns is None else ns
    # "probe": eager like strict but nothing is Undefined -- only to find operations that would exhaust memory
    if probe_too_big(tree, ns):
        return None
    try:
        ref_eval(tree.body, ns, False)
    except TooBig:
        return None
    except RecursionError:
        raise
    except Exception:  # noqa
        pass
    oi = outcome(lambda: s.match(rec))
    oc = outcome(lambda: c.match(rec))
    op = outcome(lambda: eval(code, dict(ns)))
    orf = outcome(lambda: ref_eval(tree.body, ns, False))
    os_ = outcome(lambda: ref_eval(tree.body, ns, True))
    return oi, oc, op, orf, os_


def deep_same(a, b):
    """same outcome: values compared with type (bool vs int distinguished), exceptions by class"""
    if a[0] != b[0]:
        return False
    if a[0] == "val":
        try:
            return type(a[1]) is type(b[1]) and (a[1] == b[1] or (a[1] != a[1] and b[1] != b[1]))
        except Exception:  # noqa
            return True
    return a[1] == b[1]


class Checker:
    def __init__(self, ctx, kf):
        self.ctx = ctx
        self.kf = kf
        self.sel_cache = {}
        self.stats = dict(pairs=0, defined=0, agree_checked=0, known=0, outside=0, harness_skips=0)
        self.reported = False

    def property_check(self, text, tree, r, outs):
        """(a): ground truth is a value and every sub-expression is defined => both engines agree with it."""
        ctx = self.ctx
        oi, oc, op, orf, os_ = outs
        self.stats["pairs"] += 1
        if orf[0] != "undef" and not deep_same(op, orf) and not (op[0] == "exc" and orf[0] == "exc"):
            # the reference evaluator and CPython disagree: the harness is wrong, do not judge the implementation
            raise RuntimeError("reference evaluator %r vs CPython %r on %s with %r" % (orf, op, text, r["vals"]))
        if op[0] != "val" or os_[0] != "val":
            return True
        self.stats["defined"] += 1
        want = truth_of(op)
        if want[0] != "val":
            return True
        ok = True
        classes = syntactic_classes(tree)
        uses_fields = any(isinstance(n, ast.Name) and n.id == "fields" for n in ast.walk(tree))
        for engine, o in (("interpreted", oi), ("compiled", oc)):
            if engine == "compiled" and uses_fields:
                continue        # `fields` is a name of the interpreted engine only (not defined in the compiled namespace)
            got = truth_of(o)
            self.stats["agree_checked"] += 1
            if got == want:
                continue
            f = None
            msg = o[2] if o[0] == "exc" else ""
            if engine == "interpreted":
                if "boolop-as-operand" in classes:
                    f = find_known(self.kf, engine=engine, shape="boolop-as-operand")
                if f is None and o[0] == "exc" and o[1] == "InvalidOperation" and "overwrites existing variable" in msg \
                        and "generator-variable-shadows" in classes:
                    f = find_known(self.kf, engine=engine, shape="generator-variable-shadows")
            if f is not None:
                self.stats["known"] += 1
                ctx.known_finding(f["id"], f["what"])
                continue
            ok = False
            if not self.reported:
                self.reported = True
                ctx.violation(
                    "the %s engine gives %s for %s on %s, Python evaluation gives %r" % (
                        engine, got[1] if got[0] == "val" else got[1] + "(" + msg + ")", text, fmt_vals(r), op[1]),
                    dict(kind="agreement", expr=text, engine=engine, record=dict(which=r["which"], vals=r["vals"]),
                         got=list(map(repr, got)), expected=repr(want[1]), python_value=repr(op[1])))
        return ok

    def outside_check(self, text, tree, r, oi):
        """(c): an expression with a construct outside the language at an evaluated position must raise."""
        self.stats["outside"] += 1
        if oi[0] != "val":
            return True
        if not self.reported:
            self.reported = True
            self.ctx.violation("an expression outside the supported language is evaluated to %r instead of being rejected: %s on %s" % (
                oi[1], text, fmt_vals(r)),
                dict(kind="outside", expr=text, record=dict(which=r["which"], vals=r["vals"]), got=repr(oi[1])))
        return False


def fmt_vals(r):
    if r["which"].startswith("grouped:"):
        return r["which"][len("grouped:"):]
    return "%s(%s)" % (r["which"], ", ".join("%s=%r" % kv for kv in r["vals"].items()))


def nontrivial(text):
    return "r." in text and any(t in text for t in ("==", "!=", "<", ">", " in ", " is ", "("))


def shape_of(tree):
    return ast.dump(tree, annotate_fields=False)


def differential(ctx, kf, budget_pairs, maxdepth, rnd, with_coq, exhaustive=False, time_limit=None, outside_first=True):
    """Generate, run on the implementation, check (a) and (c); optionally collect Coq cases for (b)."""
    chk = Checker(ctx, kf)
    nrec = 10 if ctx.tier == "quick" else 24
    recs = make_records(rnd, nrec)
    for r in recs:
        r["coq"] = cq_record(r) if with_coq else None
    d1_idx = [i for i, r in enumerate(recs) if r["which"] == "D1"]
    d3_idx = [i for i, r in enumerate(recs) if r["which"] == "D3"]
    d4_idx = [i for i, r in enumerate(recs) if r["which"] == "D4"]
    cases, metas = [], []
    t0 = time.time()
    g1 = Gen(rnd, D1_FIELDS)
    gw = Gen(rnd, D1_FIELDS, wide=True)
    g3 = Gen(rnd, D3_FIELDS, nested=True)
    d5_idx = [i for i, r in enumerate(recs) if r["which"] == "D5"]
    d6_idx = [i for i, r in enumerate(recs) if r["which"] == "D6"]
    d7_idx = [i for i, r in enumerate(recs) if r["which"] == "D7"]

    def texts():
        if outside_first:
            for u, c in itertools.product(OUTSIDE_NODES, OUTSIDE_CONTEXTS):
                yield "outside", c.replace("{U}", u)
        if exhaustive:
            for t in exhaustive_small():
                yield "exh", t
        for t in IP_TEMPLATES:
            yield "ip", t
        for t in bytes_exprs(rnd, 150 if budget_pairs else 60):
            yield "bytes", t
        for ri in d6_idx[:3]:
            for t in membership_exprs(rnd, recs[ri], 120 if budget_pairs else 60):
                yield ("on", ri), t
        for t in MULTI_TEMPLATES:
            yield "multi", t
        for t in HELPER_NONE_TEMPLATES + KIND_TEMPLATES + helper_value_exprs():
            yield "helpernone", t
        for t in ATTR_TEMPLATES:
            yield "attrs", t
        for t in ATTR2_TEMPLATES:
            yield "attrs2", t
        for t in WIDE_FIELDS_TEMPLATES:
            yield "widefields", t
        for _ in range(budget_pairs):
            depth = rnd.choice(range(1, maxdepth + 1))
            c = rnd.random()
            if c < 0.25:
                yield "nested", g3.top(depth)
            else:
                yield "gen", (gw if c < 0.35 else g1).top(depth)
        if outside_first is False:
            for u, c in itertools.product(OUTSIDE_NODES, OUTSIDE_CONTEXTS):
                yield "outside", c.replace("{U}", u)

    npairs = 0
    ngen = 0
    seen = set()
    for kind, text in texts():
        if ngen >= budget_pairs and kind == "gen":
            continue
        if chk.reported:
            break
        if time_limit and time.time() - t0 > time_limit:
            break
        if text in seen:
            continue
        seen.add(text)
        try:
            tree = ast.parse(text, mode="eval")
        except (SyntaxError, RecursionError, MemoryError):
            continue
        try:
            lit = cq_expr(tree.body) if with_coq else None
        except NotModelled:
            lit = None
        if kind == "exh":
            picks = [0, 1]
            if with_coq and rnd.random() > 0.04:
                lit = None
        elif kind == "outside":
            picks = [0, 2]
        elif kind == "ip":
            picks = d4_idx[:3]
        elif kind == "bytes":
            picks = d5_idx[:3]
        elif kind == "multi":
            picks = d7_idx[:4]
        elif kind == "helpernone":
            picks = d1_idx[:2]
        elif kind == "attrs":
            picks = [i for i, r in enumerate(recs) if r["which"] == "D8"]
        elif kind == "attrs2":
            picks = [i for i, r in enumerate(recs) if r["which"] == "D9"]
        elif kind == "widefields":
            picks = d6_idx[:2]
        elif isinstance(kind, tuple):
            picks = [kind[1]]
        elif kind == "nested":
            picks = [rnd.choice(d3_idx), rnd.choice(d3_idx[:2])]
            if rnd.random() < 0.2:
                picks.append(rnd.randrange(len(recs)))
            kind = "gen"
        else:
            picks = [rnd.choice(d1_idx), rnd.randrange(len(recs))]
            if rnd.random() < 0.5:
                picks.append(rnd.choice(d1_idx))
        for ri in dict.fromkeys(picks):
            r = recs[ri]
            try:
                outs = run_pair(text, tree, r, chk.sel_cache)
            except RecursionError:
                break
            if outs is None:
                chk.stats["harness_skips"] += 1
                continue
            oi, oc, op, orf, os_ = outs
            npairs += 1
            if kind == "gen":
                ngen += 1
            ctx.count_case((shape_of(tree), r["which"], ri), nontrivial=nontrivial(text))
            if kind == "outside":
                chk.outside_check(text, tree, r, oi)
            chk.property_check(text, tree, r, outs)
            if lit is not None and r["coq"] is not None:
                rec = r["rec"]
                cases.append((ri, lit, cq_outcome(oi, rec), cq_outcome(op, rec), cq_outcome(oc, rec),
                              cq_outcome(os_, rec) if os_[0] != "undef" else "(IExc EUndefined)"))
                metas.append(dict(expr=text, record=dict(which=r["which"], vals=r["vals"]), interpreted=repr(oi)[:200],
                                  python=repr(op)[:200], compiled=repr(oc)[:200], strict=repr(os_)[:200]))
            if len(ctx.coverage["samples"]) < 6 and kind == "gen" and nontrivial(text) and len(text) > 40 \
                    and all(smp["expr"] != text for smp in ctx.coverage["samples"]):
                ctx.sample(dict(expr=text, record=fmt_vals(r), interpreted=repr(truth_of(oi)), compiled=repr(truth_of(oc)),
                                python=repr(truth_of(op)), all_defined=os_[0] == "val"))
        if len(chk.sel_cache) > 4000:
            chk.sel_cache.clear()
    return chk, recs, cases, metas


# -------------------------------------------------------------------------------------------------
# deep whitelist paths (net.ipv4.Subnet, net.tcp.Port ...): each expression in a FRESH process, compiled engine first,
# so that no earlier import of a fieldtypes submodule can make a name resolve by accident

DEEP_TEMPLATES = {
    "net.ipv4.Subnet": ["r.s in net.ipv4.Subnet('10.0.0.0/8')", "r.s in net.ipv4.Subnet('11.0.0.0/8')",
                        "net.ipv4.Address(r.s) in net.ipv4.Subnet('10.0.0.0/8')"],
    "net.ipv4.Address": ["net.ipv4.Address('10.1.2.3') == net.ipv4.Address(r.s)", "net.ipv4.Address('10.9.9.9') == net.ipv4.Address(r.s)"],
    "net.tcp.Port": ["net.tcp.Port(80) == r.n", "net.tcp.Port(r.n) > 79", "net.tcp.Port(81) == r.n"],
    "net.udp.Port": ["net.udp.Port(53) == 53", "net.udp.Port(r.n) == 80 and r.n > 1"],
    "net.ipaddress": ["net.ipaddress(r.s) == net.ipaddress('10.1.2.3')", "net.ipaddress(r.s) in net.ipnetwork('10.0.0.0/8')"],
    "net.ipnetwork": ["net.ipnetwork('10.0.0.0/8') == net.ipnetwork('10.0.0.0/8')", "net.ipaddress(r.s) in net.ipnetwork('11.0.0.0/8')"],
    "net.IPAddress": ["net.IPAddress(r.s) == net.ipaddress('10.1.2.3')"],
    "net.IPNetwork": ["net.IPNetwork('10.0.0.0/8') != net.ipnetwork('11.0.0.0/8')", "net.IPAddress(r.s) in net.IPNetwork('10.0.0.0/8')"],
}
# whitelisted ROOT constructors that need a fresh look as well (the name `path` used to collide with an attribute of
# DynamicFieldtypeModule)
ROOT_TEMPLATES = ["path('/tmp/x') == path('/tmp/x')", "path('/tmp/x').name == 'x'", "uri('http://a/b/c.txt').filename == 'c.txt'", "string(r.n) == '80'",
                  "uint16(r.n) == 80"]
DEEP_SCRIPT = r"""
import sys, json, datetime
expr = sys.argv[1]
from flow.record import RecordDescriptor
from flow.record.selector import CompiledSelector, Selector
D = RecordDescriptor("test/c07deep", [("string", "s"), ("varint", "n")])
r = D(s="10.1.2.3", n=80, _generated=datetime.datetime(2021, 1, 1, tzinfo=datetime.timezone.utc))
def out(f):
    try:
        return ["val", bool(f())]
    except Exception as e:
        return ["exc", type(e).__name__, str(e)[:100]]
oc = out(lambda: CompiledSelector(expr).match(r))        # the compiled engine FIRST
oi = out(lambda: Selector(expr).match(r))
# ground truth: the real classes, imported explicitly
import importlib
net = importlib.import_module("flow.record.fieldtypes.net")
for m in ("ip", "ipv4", "tcp", "udp"):
    importlib.import_module("flow.record.fieldtypes.net." + m)
import flow.record.fieldtypes as ft
og = out(lambda: eval(expr, {"r": r, "net": net, "path": ft.path, "uri": ft.uri, "string": ft.string, "uint16": ft.uint16}))
print("@@" + json.dumps([oc, oi, og]))
"""
DEEP_RECORD = "test/c07deep(s='10.1.2.3', n=80)"

# the deprecated net.ipv4 types: every constructor form (one / two arguments), membership with str / int / Address / None /
# an UNSET Address field.  The reference is independent of flow.record.fieldtypes.net.ipv4: the standard library's ipaddress.
IPV4_TEMPLATES = [
    "r.s in net.ipv4.Subnet('10.0.0.0', 8)", "r.s in net.ipv4.Subnet('11.0.0.0', 8)", "r.s in net.ipv4.Subnet('10.1.2.0', 24)",
    "r.s in net.ipv4.Subnet('10.1.3.0', 24)", "r.s in net.ipv4.Subnet('10.1.2.3')", "r.s in net.ipv4.Subnet('10.1.2.4')",
    "r.ip4 in net.ipv4.Subnet('10.0.0.0', 8)", "r.ip4 in net.ipv4.Subnet('10.0.0.0/8')", "r.ip4 in net.ipv4.Subnet('192.168.0.0/16')",
    "r.ip4 not in net.ipv4.Subnet('192.168.0.0', 16)", "r.unset in net.ipv4.Subnet('10.0.0.0/8')", "r.unset in net.ipv4.Subnet('0.0.0.0/0')",
    "r.unset not in net.ipv4.Subnet('10.0.0.0', 8)", "None in net.ipv4.Subnet('10.0.0.0/8')", "r.num in net.ipv4.Subnet('10.0.0.0/8')",
    "167838211 in net.ipv4.Subnet('10.1.2.0', 24)", "167838211 in net.ipv4.Subnet('10.1.3.0/24')",
    "net.ipv4.Address(r.s) in net.ipv4.Subnet('10.1.2.0', 24)", "net.ipv4.Address('10.9.9.9') in net.ipv4.Subnet('10.1.2.0/24')",
    "r.ip4 == net.ipv4.Address('10.1.2.3')", "r.ip4 == net.ipv4.Address('10.1.2.4')", "r.ip4 != net.ipv4.Address(r.s)",
    "any(a in net.ipv4.Subnet('10.0.0.0', 8) for a in [r.s, r.ip4])", "all(a in net.ipv4.Subnet('10.0.0.0', 8) for a in [r.s, r.unset])",
]
IPV4_SCRIPT = r"""
import sys, json, datetime, ipaddress, types
expr = sys.argv[1]
from flow.record import RecordDescriptor
from flow.record.selector import CompiledSelector, Selector
D = RecordDescriptor("test/c07ipv4", [("string", "s"), ("net.ipv4.Address", "ip4"), ("net.ipv4.Address", "unset"), ("varint", "num")])
r = D(s="10.1.2.3", ip4="10.1.2.3", unset=None, num=167838211, _generated=datetime.datetime(2021, 1, 1, tzinfo=datetime.timezone.utc))
def out(f):
    try:
        return ["val", bool(f())]
    except Exception as e:
        return ["exc", type(e).__name__, str(e)[:100]]
oc = out(lambda: CompiledSelector(expr).match(r))
oi = out(lambda: Selector(expr).match(r))

class RefAddress:
    def __init__(self, a):
        self.a = a.a if isinstance(a, RefAddress) else ipaddress.IPv4Address(a)
    def __eq__(self, o):
        return isinstance(o, RefAddress) and self.a == o.a
    def __ne__(self, o):
        return not self == o
    __hash__ = None

class RefSubnet:
    def __init__(self, addr, netmask=None):
        if not isinstance(addr, str):
            raise TypeError("string expected")
        self.n = ipaddress.IPv4Network(addr if netmask is None else "%s/%d" % (addr, netmask), strict=True)
    def __contains__(self, x):
        if x is None:
            return False
        if isinstance(x, RefAddress):
            return x.a in self.n
        if isinstance(x, (str, int)) and not isinstance(x, bool):
            return ipaddress.IPv4Address(x) in self.n
        return False

ref_net = types.SimpleNamespace(ipv4=types.SimpleNamespace(Address=RefAddress, Subnet=RefSubnet))
ref_r = types.SimpleNamespace(s="10.1.2.3", ip4=RefAddress("10.1.2.3"), unset=None, num=167838211)
og = out(lambda: eval(expr, {"r": ref_r, "net": ref_net}))
print("@@" + json.dumps([oc, oi, og]))
"""
IPV4_RECORD = "test/c07ipv4(s='10.1.2.3', ip4='10.1.2.3', unset=None, num=167838211)"


def deep_paths_check(ctx):
    import json
    import subprocess
    from flow.record.whitelist import WHITELIST
    deep = [w for w in WHITELIST if "." in w]
    missing = [w for w in deep if w not in DEEP_TEMPLATES]
    if missing:
        raise RuntimeError("whitelisted dotted types without a template in the check: %r" % missing)
    script = ctx.work / "c07_deep.py"
    script.write_text(DEEP_SCRIPT)
    exprs = [e for w in deep for e in DEEP_TEMPLATES[w]] + ROOT_TEMPLATES
    kf = core.known_for("C07")
    procs = [(e, subprocess.Popen([core.PY, "-W", "ignore", str(script), e], env=core.env_for_repo(), cwd=str(ctx.work),
                                  stdout=subprocess.PIPE, stderr=subprocess.STDOUT, text=True)) for e in exprs]
    n = 0
    for e, pr in procs:
        outp = pr.communicate(timeout=120)[0]
        line = [ln for ln in outp.splitlines() if ln.startswith("@@")]
        if pr.returncode != 0 or not line:
            raise RuntimeError("fresh-process evaluation of %r failed: %s" % (e, outp[-400:]))
        oc, oi, og = json.loads(line[0][2:])
        for engine, o in (("compiled", oc), ("interpreted", oi)):
            ctx.count_case(("deep", e, engine), nontrivial=True)
            n += 1
            if og[0] == "val" and o[:2] != og[:2] and not ctx.violations:
                ctx.violation(
                    "in a fresh process the %s engine gives %s for %s on %s, Python evaluation with the field types imported gives %r" % (
                        engine, o[1] if o[0] == "val" else "%s(%s)" % (o[1], o[2]), e, DEEP_RECORD, og[1]),
                    dict(kind="deep", expr=e, engine=engine, got=o, expected=og))
    ctx.notes.append("deep whitelist paths: %d expressions x 2 engines, each in a fresh process, compiled engine first" % len(exprs))
    if ctx.violations:
        return n
    script4 = ctx.work / "c07_ipv4.py"
    script4.write_text(IPV4_SCRIPT)
    procs = [(e, subprocess.Popen([core.PY, "-W", "ignore", str(script4), e], env=core.env_for_repo(), cwd=str(ctx.work),
                                  stdout=subprocess.PIPE, stderr=subprocess.STDOUT, text=True)) for e in IPV4_TEMPLATES]
    for e, pr in procs:
        outp = pr.communicate(timeout=120)[0]
        line = [ln for ln in outp.splitlines() if ln.startswith("@@")]
        if pr.returncode != 0 or not line:
            raise RuntimeError("fresh-process evaluation of %r failed: %s" % (e, outp[-400:]))
        oc, oi, og = json.loads(line[0][2:])
        for engine, o in (("compiled", oc), ("interpreted", oi)):
            ctx.count_case(("ipv4", e, engine), nontrivial=True)
            n += 1
            if og[0] == "val" and o[:2] != og[:2] and not ctx.violations:
                ctx.violation(
                    "the %s engine gives %s for %s on %s, the meaning of the net.ipv4 types (computed with the standard library's ipaddress) gives %r" % (
                        engine, o[1] if o[0] == "val" else "%s(%s)" % (o[1], o[2]), e, IPV4_RECORD, og[1]),
                    dict(kind="ipv4", expr=e, engine=engine, got=o, expected=og))
    ctx.notes.append("net.ipv4 constructor forms / membership: %d expressions x 2 engines against an ipaddress-based reference" % len(IPV4_TEMPLATES))
    return n


def search(ctx, reason):
    """The proof / translator broke: look for a concrete failing expression on the implementation."""
    kf = core.known_for("C07")
    rnd = random.Random(ctx.seed)
    try:
        deep_paths_check(ctx)
        if ctx.violations:
            return True
        layout_check(ctx, Checker(ctx, kf))
        if ctx.violations:
            return True
        grouped_check(ctx, Checker(ctx, kf))
        if ctx.violations:
            return True
        # the fixed streams (outside-the-language constructs, typed matchers on nested records) are short: they are tried
        # when the generated stream found nothing, so that a disagreement on an ordinary expression is preferred as witness
        chk, _, _, _ = differential(ctx, kf, 5000 if ctx.tier == "quick" else 40000, 3, rnd, with_coq=False,
                                    exhaustive=(ctx.tier != "quick"), time_limit=45 if ctx.tier == "quick" else 600,
                                    outside_first=None)
        if not ctx.violations:
            chk, _, _, _ = differential(ctx, kf, 0, 3, rnd, with_coq=False, time_limit=120, outside_first=True)
    except Exception as e:  # noqa
        ctx.notes.append("search failed: %r" % e)
        return False
    if ctx.violations:
        last = ctx.violations[-1]
        ctx.notes.append("found while searching after: " + reason)
        return True
    return False


def run(ctx):
    kf = core.known_for("C07")
    ctx.coverage["rule"] = (
        "grammar-generated selector expressions (random depth <= %d, all node kinds of the language, well-typed mostly, "
        "ill-typed 6%%; a fixed outside-the-language stream; thorough: every expression of depth <= 2 over 5 leaves) x "
        "generated records of two descriptors (matching and non-matching shapes); distinct = distinct (AST dump, record); "
        "non-trivial = refers to a field and contains a comparison or a call" % (3 if ctx.tier == "quick" else 5))
    ok = core.standard_proof_stage(ctx, ["props/C07.vo"], "C07", THEOREMS, search_fn=search,
                                   gens=["gen_selector", "gen_selsem"])
    ctx.assumptions += [
        "Python's operator semantics on None/bool/int/str/list/tuple (comparison, membership, + * % & |, truthiness) and "
        "the helper functions are hand-modelled once (model/SelSem.v part 1) and shared by both semantics; validated by "
        "running the models inside Coq against CPython and both engines on every generated pair",
        "floats (true division), regular expressions (field_regex, word_boundary), non-ASCII case mapping, str/repr/"
        "get_type/names/fields, field types other than string()/varint(), sequence repetition beyond 1000 and values of other "
        "kinds are outside the model (it answers Unmodelled); those expressions are covered by the implementation-level "
        "differential check against CPython only",
        "ground truth = CPython eval of the same source with r = the real record, Type / helper functions bound to "
        "independent reference implementations written from the documentation (tools/vf/props/c07.py)",
        "ast.parse is trusted to give the tree the interpreter walks; the Coq literal is printed from that tree",
    ]
    if not ok:
        return
    rnd = random.Random(ctx.seed)
    quick = ctx.tier == "quick"
    chk, recs, cases, metas = differential(ctx, kf, 12000 if quick else 120000, 3 if quick else 5, rnd, with_coq=True,
                                           exhaustive=not quick)
    ctx.coverage["exhaustive"] = False
    ctx.coverage["programs"] = len({m["expr"] for m in metas}) if metas else 0
    ctx.notes.append("implementation-level: %(pairs)d pairs, %(defined)d with ground truth a value and all sub-expressions "
                     "defined, %(agree_checked)d engine results compared with it, %(known)d inside known-finding classes, "
                     "%(outside)d outside-the-language evaluations" % chk.stats)
    if ctx.violations:
        return
    deep_paths_check(ctx)
    if ctx.violations:
        return
    layout_check(ctx, chk)
    if ctx.violations:
        return
    grouped_check(ctx, chk)
    if ctx.violations:
        return
    if not quick and len(cases) > 60000:
        keep = sorted(rnd.sample(range(len(cases)), 60000))
        cases = [cases[i] for i in keep]
        metas = [metas[i] for i in keep]
    codes, err = eval_codes(ctx, [r["coq"] for r in recs], cases)
    if err:
        ctx.violation("correspondence shards did not evaluate: " + err[:300], dict(kind="coq-eval", log=err), no_input=True)
        return
    names = ["interpreted", "py_eval", "compiled", "py_strict"]
    bad = [(i, c) for i, c in enumerate(codes) if c & 15]
    decl = [sum(1 for c in codes if c & (16 << k)) for k in range(4)]
    hyp = sum(1 for c in codes if c & 256)
    ctx.coverage["traces_validated_against_impl"] = len(codes) - len(bad)
    ctx.notes.append("model-level: %d pairs evaluated inside Coq by 4 models; model declined (Unmodelled) interpreted=%d py_eval=%d "
                     "compiled=%d py_strict=%d; %d pairs satisfy in_language && fresh_vars" % (len(codes), *decl, hyp))
    if len(codes) and decl[0] > 0.35 * len(codes):
        ctx.violation("the interpreter model declines %d of %d cases: the correspondence is too thin" % (decl[0], len(codes)),
                      dict(kind="correspondence", correspondence="coverage"), no_input=True)
        return
    if bad:
        i, c = bad[0]
        which = [names[k] for k in range(4) if c & (1 << k)]
        m = metas[i]
        ctx.violation("model/SelSem.v (%s) and what was observed disagree on %d of %d pairs, first: %s on %s: interpreted=%s python=%s "
                      "compiled=%s strict=%s; the property itself holds on that pair" % (
                          ", ".join(which), len(bad), len(codes), m["expr"], m["record"], m["interpreted"], m["python"],
                          m["compiled"], m["strict"]),
                      dict(kind="correspondence", correspondence="C07 models vs implementation/CPython", first=m, models=which,
                           failing=[metas[j]["expr"] for j, _ in bad[:20]]), no_input=True)


def replay(obj):
    kind = obj.get("kind")
    if kind in ("agreement", "outside"):
        text = obj["expr"]
        tree = ast.parse(text, mode="eval")
        which = obj["record"]["which"]
        if which.startswith("grouped:"):
            rc = 2
            for cur in grouped_records():
                if cur["which"] != which:
                    continue
                oi, oc, op, orf, os_ = run_pair(text, tree, cur, {})
                print("replay %s on %s: interpreted=%r compiled=%r python=%r" % (text, fmt_vals(cur), truth_of(oi), truth_of(oc), truth_of(op)))
                o = oi if obj.get("engine") == "interpreted" else oc
                rc = 1 if (op[0] == "val" and os_[0] == "val" and truth_of(o) != truth_of(op)) else 0
            return rc
        if which.startswith("layout:"):
            # the same sequence of layouts as in the check; every occurrence of the layout in question is judged
            from flow.record import RecordDescriptor
            name = which.split(":")[1]
            rc = 2
            for nm, fa, va, fb, vb in LAYOUT_PAIRS:
                if nm != name:
                    continue
                rc = 0
                for fields, vals in ((fa, va), (fb, vb), (fa, va)):
                    rec = RecordDescriptor(name, fields)(_generated=TS, **vals)
                    cur = dict(which="layout:%s:%s" % (name, ",".join("%s %s" % f for f in fields)), vals=vals, fields=fields, rec=rec, coq=None)
                    oi, oc, op, orf, os_ = run_pair(text, tree, cur, {})
                    print("replay %s on %s: interpreted=%r compiled=%r python=%r" % (text, fmt_vals(cur), truth_of(oi), truth_of(oc), truth_of(op)))
                    if cur["which"] == which and op[0] == "val" and os_[0] == "val":
                        o = oi if obj.get("engine") == "interpreted" else oc
                        if truth_of(o) != truth_of(op):
                            rc = 1
            return rc
        else:
            r = build_record(which, obj["record"]["vals"])
        outs = run_pair(text, tree, r, {})
        if outs is None:
            print("replay: the pair is outside what the harness runs (huge intermediate value)")
            return 2
        oi, oc, op, orf, os_ = outs
        print("replay %s on %s: interpreted=%r compiled=%r python=%r all_defined=%s" % (
            text, fmt_vals(r), truth_of(oi), truth_of(oc), truth_of(op), os_[0] == "val"))
        if kind == "outside":
            return 1 if oi[0] == "val" else 0
        if op[0] != "val" or os_[0] != "val":
            return 0
        o = oi if obj["engine"] == "interpreted" else oc
        return 0 if truth_of(o) == truth_of(op) else 1
    if kind in ("deep", "ipv4") and kind == "ipv4":
        import subprocess
        import tempfile
        import json as _json
        with tempfile.TemporaryDirectory(dir=str(core.WORK)) as td:
            sp = core.Path(td) / "c07_ipv4.py"
            sp.write_text(IPV4_SCRIPT)
            outp = subprocess.run([core.PY, "-W", "ignore", str(sp), obj["expr"]], env=core.env_for_repo(), cwd=td,
                                  capture_output=True, text=True).stdout
        line = [ln for ln in outp.splitlines() if ln.startswith("@@")]
        oc, oi, og = _json.loads(line[0][2:])
        print("replay %s on %s: compiled=%r interpreted=%r reference=%r" % (obj["expr"], IPV4_RECORD, oc, oi, og))
        o = oc if obj["engine"] == "compiled" else oi
        return 0 if (og[0] != "val" or o[:2] == og[:2]) else 1
    if kind == "deep":
        import subprocess
        import tempfile
        with tempfile.TemporaryDirectory(dir=str(core.WORK)) as td:
            sp = core.Path(td) / "c07_deep.py"
            sp.write_text(DEEP_SCRIPT)
            outp = subprocess.run([core.PY, "-W", "ignore", str(sp), obj["expr"]], env=core.env_for_repo(), cwd=td,
                                  capture_output=True, text=True).stdout
        import json as _json
        line = [ln for ln in outp.splitlines() if ln.startswith("@@")]
        oc, oi, og = _json.loads(line[0][2:])
        print("replay (fresh process) %s: compiled=%r interpreted=%r python=%r" % (obj["expr"], oc, oi, og))
        o = oc if obj["engine"] == "compiled" else oi
        return 0 if (og[0] != "val" or o[:2] == og[:2]) else 1
    print("replay of kind %s: re-run ./check C07" % kind)
    return 2
