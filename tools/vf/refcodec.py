"""Independent reference ENCODER of the published record-stream format (written from the format description,
not from packer.py): builds streams from observations (vf.recgen) with optional non-minimal msgpack encodings and the
compatibility variants the format allows (extra trailing reserved values, no version value, name-only identifiers).
Used by C02 to feed reference-encoded bytes to the implementation's reader and to the Coq model."""
from __future__ import annotations

import hashlib
import struct

EXT = 14
SUB_RECORD, SUB_DESC, SUB_DATETIME, SUB_VARINT, SUB_GROUPED = 1, 2, 0x10, 0x11, 0x12
MAGIC = b"RECORDSTREAM\n"


class Style:
    def __init__(self, rnd=None, wide=False):
        self.rnd = rnd
        self.wide = wide

    def widen(self):
        return self.wide and (self.rnd is None or self.rnd.random() < 0.5)


def e_nil():
    return b"\xc0"


def e_bool(b):
    return b"\xc3" if b else b"\xc2"


def e_int(z, st):
    if -(2**63) <= z < 2**64:
        if z >= 0:
            if z < 128 and not st.widen():
                return bytes([z])
            if z < 2**8 and not st.widen():
                return b"\xcc" + struct.pack(">B", z)
            if z < 2**16 and not st.widen():
                return b"\xcd" + struct.pack(">H", z)
            if z < 2**32 and not st.widen():
                return b"\xce" + struct.pack(">I", z)
            return b"\xcf" + struct.pack(">Q", z)
        if z >= -32 and not st.widen():
            return struct.pack(">b", z)
        if z >= -(2**7) and not st.widen():
            return b"\xd0" + struct.pack(">b", z)
        if z >= -(2**15) and not st.widen():
            return b"\xd1" + struct.pack(">h", z)
        if z >= -(2**31) and not st.widen():
            return b"\xd2" + struct.pack(">i", z)
        return b"\xd3" + struct.pack(">q", z)
    mag = abs(z)
    body = e_arr([e_int(SUB_VARINT, Style()), e_arr([e_bool(z < 0), e_bin(mag.to_bytes((mag.bit_length() + 7) // 8, "big"), st)], st)], Style())
    return e_ext(body)


def e_f64(bits):
    return b"\xcb" + struct.pack(">Q", bits)


def e_str(b, st):
    n = len(b)
    if n < 32 and not st.widen():
        return bytes([0xA0 + n]) + b
    if n < 2**8 and not st.widen():
        return b"\xd9" + struct.pack(">B", n) + b
    if n < 2**16 and not st.widen():
        return b"\xda" + struct.pack(">H", n) + b
    return b"\xdb" + struct.pack(">I", n) + b


def e_bin(b, st):
    n = len(b)
    if n < 2**8 and not st.widen():
        return b"\xc4" + struct.pack(">B", n) + b
    if n < 2**16 and not st.widen():
        return b"\xc5" + struct.pack(">H", n) + b
    return b"\xc6" + struct.pack(">I", n) + b


def e_arr(parts, st):
    n = len(parts)
    body = b"".join(parts)
    if n < 16 and not st.widen():
        return bytes([0x90 + n]) + body
    if n < 2**16 and not st.widen():
        return b"\xdc" + struct.pack(">H", n) + body
    return b"\xdd" + struct.pack(">I", n) + body


def e_map(pairs, st):
    n = len(pairs)
    body = b"".join(k + v for k, v in pairs)
    if n < 16 and not st.widen():
        return bytes([0x80 + n]) + body
    if n < 2**16 and not st.widen():
        return b"\xde" + struct.pack(">H", n) + body
    return b"\xdf" + struct.pack(">I", n) + body


def e_ext(payload: bytes):
    n = len(payload)
    fix = {1: b"\xd4", 2: b"\xd5", 4: b"\xd6", 8: b"\xd7", 16: b"\xd8"}
    if n in fix:
        return fix[n] + bytes([EXT]) + payload
    if n < 2**8:
        return b"\xc7" + struct.pack(">B", n) + bytes([EXT]) + payload
    if n < 2**16:
        return b"\xc8" + struct.pack(">H", n) + bytes([EXT]) + payload
    return b"\xc9" + struct.pack(">I", n) + bytes([EXT]) + payload


def e_envelope(sub, payload, st):
    return e_ext(e_arr([e_int(sub, Style()), payload], Style()))


def desc_hash(name, fields):
    data = name + "".join(n + t for t, n in fields)
    return int.from_bytes(hashlib.sha256(data.encode()).digest()[:4], "big")


def e_py(o, st):
    k = o[0]
    if k == "none":
        return e_nil()
    if k == "bool":
        return e_bool(o[1])
    if k == "int":
        return e_int(o[1], st)
    if k == "float":
        return e_f64(o[1])
    if k == "str":
        return e_str(o[1], st)
    if k == "bytes":
        return e_bin(o[1], st)
    if k in ("list", "tuple"):
        return e_arr([e_py(x, st) for x in o[1]], st)
    if k == "dict":
        return e_map([(e_py(a, st), e_py(b, st)) for a, b in o[1]], st)
    raise ValueError(k)


def e_val(o, st, opts):
    k = o[0]
    if k == "none":
        return e_nil()
    if k == "str":
        return e_str(o[1], st)
    if k == "int":
        return e_int(o[1], st)
    if k == "bool":
        return e_bool(o[1])
    if k == "float":
        return e_f64(o[1])
    if k == "bytes":
        return e_bin(o[1], st)
    if k == "dt":
        if o[4]:
            return e_envelope(SUB_DATETIME, e_arr([e_int(x, st) for x in o[1]], st), st)
        return e_envelope(SUB_DATETIME, e_arr([e_str(o[3], st)], st), st)
    if k == "path":
        return e_arr([e_str(o[1], st), e_int(o[2], st)], st)
    if k == "cmd":
        if o[2] is None:
            return e_arr([e_nil(), e_int(o[1], st)], st)
        return e_arr([e_arr([e_str(o[2][0], st), e_arr([e_str(a, st) for a in o[2][1]], st)], st), e_int(o[1], st)], st)
    if k == "digest":
        return e_arr([e_nil() if x is None else e_bin(x, st) for x in o[1:4]], st)
    if k == "ip":
        if o[1] == 6 and o[2] < 2**32:
            return e_bin(o[2].to_bytes(16, "big"), st)
        return e_int(o[2], st)
    if k == "list":
        return e_arr([e_val(x, st, opts) for x in o[1]], st)
    if k == "rec":
        return e_record(o, st, opts)
    if k == "py":
        return e_py(o[1], st)
    raise ValueError(k)


def e_ident(o, st, opts):
    if opts.get("name_only_ident"):
        return e_str(o[1].encode(), st)
    name = e_bin(o[1].encode(), st) if opts.get("bytes_names") else e_str(o[1].encode(), st)
    return e_arr([name, e_int(desc_hash(o[1], o[2]), st)], st)


def rec_values(o, st, opts):
    vals = [e_val(v, st, opts) for v in o[3]]
    extra = opts.get("extra_reserved", 0)
    if opts.get("no_version"):
        vals = vals[:-1]
    elif extra:
        vals = vals[:-1] + [e_str(b"future", st)] * extra + [vals[-1]]
    return vals


def e_record(o, st, opts):
    return e_envelope(SUB_RECORD, e_arr([e_ident(o, st, opts), e_arr(rec_values(o, st, opts), st)], st), st)


def e_descriptor(name, fields, st, opts):
    nm = e_bin(name.encode(), st) if opts.get("bytes_names") else e_str(name.encode(), st)
    fl = e_arr([e_arr([e_str(t.encode(), st), e_str(n.encode(), st)], st) for t, n in fields], st)
    return e_envelope(SUB_DESC, e_arr([nm, fl], st), st)


def e_item(o, st, opts):
    if o[0] == "group":
        members = [e_arr([e_ident(m, st, {}), e_arr([e_val(v, st, {}) for v in m[3]], st)], st) for m in o[2]]
        return e_envelope(SUB_GROUPED, e_arr([e_str(o[1].encode(), st), e_arr(members, st)], st), st)
    return e_record(o, st, opts)


def frame(body):
    return struct.pack(">I", len(body)) + body


def encode_stream(obs_items, rnd=None, wide=False, opts=None, repeat_header=False):
    """Reference stream: header frame, every descriptor (also nested ones) before its first use, records."""
    from vf import recgen
    opts = opts or {}
    st = Style(rnd, wide)
    out = [frame(e_bin(MAGIC, Style()))]
    seen = []
    for o in obs_items:
        for (name, fields, _h) in recgen.descs_of(o):
            if (name, fields) not in seen:
                seen.append((name, fields))
                out.append(frame(e_descriptor(name, list(fields), st, opts)))
        if repeat_header:
            out.append(frame(e_bin(MAGIC, Style())))
        out.append(frame(e_item(o, st, opts)))
    return b"".join(out)
