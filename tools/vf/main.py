from __future__ import annotations

import argparse
import importlib
import json
import os
import sys
import traceback

from vf import core


def descendants(pid):
    kids, out = {}, []
    for d in os.listdir("/proc"):
        if d.isdigit():
            try:
                stat = open("/proc/%s/stat" % d).read()
                kids.setdefault(int(stat.rsplit(")", 1)[1].split()[1]), []).append(int(d))
            except OSError:
                pass
    todo = [pid]
    while todo:
        for k in kids.get(todo.pop(), []):
            out.append(k)
            todo.append(k)
    return out


def watchdog(ctx, tier):
    """A change to the code can make an implementation call the check performs never return (a loop whose counter no longer
    advances ...).  The check then must not hang: after the limit it reports that the property is no longer shown to hold,
    names where the main thread is stuck, kills its child processes and exits 1."""
    import signal
    import threading
    limit = int(os.environ.get("VERIF_TIMEOUT") or (2400 if tier == "quick" else 10800))

    def fire():
        frames = sys._current_frames()
        main_id = threading.main_thread().ident
        stack = "".join(traceback.format_stack(frames[main_id])[-12:]) if main_id in frames else ""
        ctx.violation("the check did not finish within %d s: a call it makes into the implementation (or its own child process) does not "
                      "return - non-termination; the main thread is in: %s" % (limit, stack.strip().splitlines()[-2:] if stack else "?"),
                      dict(kind="timeout", limit_s=limit, correspondence="the check's own run (watchdog in tools/vf/main.py)", main_thread_stack=stack), no_input=True)
        try:
            ctx.finish()
        finally:
            for k in descendants(os.getpid()):
                try:
                    os.kill(k, signal.SIGKILL)
                except OSError:
                    pass
            sys.stdout.flush()
            os._exit(1)
    t = threading.Timer(limit, fire)
    t.daemon = True
    t.start()


def main(argv=None):
    ap = argparse.ArgumentParser()
    ap.add_argument("pid")
    ap.add_argument("--tier", default=os.environ.get("VERIF_TIER") or "quick", choices=["quick", "thorough"])
    ap.add_argument("--replay", default=None)
    args = ap.parse_args(argv)
    pid = args.pid.upper()
    seed = int(os.environ.get("VERIF_SEED") or 20260930)
    mod = importlib.import_module("vf.props.%s" % pid.lower())
    if args.replay:
        obj = json.load(open(args.replay))
        return mod.replay(obj)
    ctx = core.Ctx(pid, args.tier, seed)
    watchdog(ctx, args.tier)
    try:
        mod.run(ctx)
    except Exception as e:  # the harness itself broke: fail closed
        tb = traceback.format_exc()
        ctx.violation("check harness raised %s: %s" % (type(e).__name__, e),
                      dict(kind="harness-exception", traceback=tb), no_input=True)
    return ctx.finish()


if __name__ == "__main__":
    sys.exit(main())
