from __future__ import annotations

import argparse
import importlib
import json
import os
import sys
import traceback

from vf import core


def main(argv=None):
    ap = argparse.ArgumentParser()
    ap.add_argument("pid")
    ap.add_argument("--tier", default=os.environ.get("VERIF_TIER") or "quick", choices=["quick", "thorough"])
    ap.add_argument("--replay", default=None)
    args = ap.parse_args(argv)
    pid = args.pid.upper()
    seed = int(os.environ.get("VERIF_SEED") or 20260930)
    mod = importlib.import_module("vf.props.%s" % pid.lower())
    if args.replay:
        obj = json.load(open(args.replay))
        return mod.replay(obj)
    ctx = core.Ctx(pid, args.tier, seed)
    try:
        mod.run(ctx)
    except Exception as e:  # the harness itself broke: fail closed
        tb = traceback.format_exc()
        ctx.violation("check harness raised %s: %s" % (type(e).__name__, e),
                      dict(kind="harness-exception", traceback=tb), no_input=True)
    return ctx.finish()


if __name__ == "__main__":
    sys.exit(main())
