"""Fresh-process smoke scenario for the stream cluster (C01/C02): imports NOTHING of flow.record but what a user script
would (`from flow.record import ...`), builds one record of every serialisable whitelisted field type (scalar and list),
writes it through the low-level stream writer and the path-based writer (every compression) and prints a canonical
description of what is read back.  The check runs this file in a child interpreter (so no module the harness imports can
mask an import-order dependence) and compares the output with the same function run in-process.

Usage: python smoke_stream.py <workdir>     (PYTHONPATH must point at the checkout)
"""
import io
import json
import os
import sys


def scenario(workdir):
    import datetime as pydt

    from flow.record import GroupedRecord, RecordDescriptor, RecordReader, RecordWriter
    from flow.record.stream import RecordStreamReader, RecordStreamWriter

    utc = pydt.timezone.utc
    values = {
        "string": "h\u00e9llo", "wstring": "w", "bytes": b"\x00\xff", "varint": 2 ** 70, "uint16": 65535, "uint32": 2 ** 32 - 1,
        "float": 1.5, "boolean": True, "datetime": pydt.datetime(2020, 2, 29, 12, 0, 1, 5, tzinfo=utc), "filesize": 1024,
        "unix_file_mode": 0o644, "digest": ("d41d8cd98f00b204e9800998ecf8427e", None, None), "uri": "http://a/b?c",
        "path": "/tmp/x", "posix_path": "/tmp/y", "windows_path": "c:\\x\\y", "command": "ls -l", "posix_command": "cat /x",
        "windows_command": "cmd.exe /c dir", "net.ipaddress": "::1", "net.ipnetwork": "10.0.0.0/8", "net.ipinterface": "10.0.0.1/8",
        "net.IPAddress": "1.2.3.4", "net.IPNetwork": "192.168.0.0/16", "net.ipv4.Address": "1.2.3.4", "net.ipv4.Subnet": "1.0.0.0/8",
        "net.tcp.Port": 80, "net.udp.Port": 53, "stringlist": ["a", "b"], "dictlist": [{"a": 1}], "dynamic": "dyn",
    }
    from flow.record.packer import RecordPacker
    from flow.record.whitelist import WHITELIST
    fields = []
    kw = {}
    unserialisable = {}
    for i, t in enumerate(sorted(WHITELIST)):
        if t in ("record", "record[]") or t not in values:
            continue
        try:
            RecordPacker().pack(RecordDescriptor("smoke/probe", [(t, "v")])(v=values[t]))
        except Exception as e:  # noqa  (deprecated types without _pack: the same in every process)
            unserialisable[t] = type(e).__name__
            continue
        fields.append((t, "f%d" % i))
        kw["f%d" % i] = values[t]
        if t not in ("stringlist", "dictlist", "dynamic", "digest"):
            fields.append((t + "[]", "l%d" % i))
            kw["l%d" % i] = [values[t]]
    inner = RecordDescriptor("smoke/inner", [("string", "s"), ("datetime", "ts")])
    fields += [("record", "sub"), ("record[]", "subs")]
    t0 = pydt.datetime(2021, 1, 1, tzinfo=utc)
    kw["sub"] = inner(s="in", ts=t0, _generated=t0)
    kw["subs"] = [inner(s="in2", ts=None, _generated=t0)]
    desc = RecordDescriptor("smoke/all", fields)
    rec = desc(_generated=t0, _source="src", **kw)
    kwd = RecordDescriptor("smoke/kw", [("varint", "from"), ("string", "class"), ("boolean", "b")])
    items = [rec, kwd(**{"from": 0, "class": "", "b": False, "_generated": t0}),
             GroupedRecord("smoke/grp", [inner(s="g", ts=t0, _generated=t0), kwd(**{"from": 7, "class": "c", "b": True, "_generated": t0})])]

    # values that carry nothing but their flavour / their unset parts
    from flow.record.fieldtypes import command as _command
    part = RecordDescriptor("smoke/partial", [("command", "wc"), ("command", "pc"), ("command[]", "cl"), ("digest", "d1"), ("digest", "d2")])
    items.append(part(wc=_command.from_windows(None), pc=_command.from_posix(None), cl=[_command.from_windows(None), "ls"],
                      d1=(None, None, "e3b0c442" * 8), d2=(None, "da39a3ee5e6b4b0d3255bfef95601890afd80709", None), _generated=t0))

    def describe(x):
        if isinstance(x, GroupedRecord):
            return ["group", x.name, [describe(m) for m in x.records]]
        return ["rec", x._desc.name, [list(ft) for ft in x._desc.get_field_tuples()], repr(x._pack())]

    out = {"declared_types": [t for t, _ in fields], "unserialisable": unserialisable}
    buf = io.BytesIO()
    w = RecordStreamWriter(buf)
    for it in items:
        w.write(it)
    w.flush()
    data = buf.getvalue()
    out["stream_hex_sha"] = __import__("hashlib").sha256(data).hexdigest()
    out["stream_readback"] = [describe(x) for x in RecordStreamReader(io.BytesIO(data))]
    for ext in (".records", ".records.gz", ".records.bz2", ".records.lz4", ".records.zst", ".json", ".jsonl"):
        p = os.path.join(workdir, "smoke" + ext)
        try:
            with RecordWriter(p) as pw:
                for it in items[:2]:
                    pw.write(it)
            with RecordReader(p) as rd:
                out["path" + ext] = [describe(x) for x in rd]
        except Exception as e:  # noqa
            out["path" + ext] = "%s: %s" % (type(e).__name__, e)
        finally:
            if os.path.exists(p):
                os.unlink(p)
    out["written"] = [describe(x) for x in items]
    return out


if __name__ == "__main__":
    print(json.dumps(scenario(sys.argv[1]), sort_keys=True))
