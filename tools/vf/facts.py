"""Translator (fact extractor): re-reads /repo's working tree on every run and regenerates
/verif/coq/gen/*.v.  Fail closed: anything it cannot express makes it exit non-zero with the reason.

It reads constants and tables from the imported modules (so a harmless re-spelling of a constant
does not matter) and uses `ast`/`inspect` where the *shape* of code is the fact (method bodies that
return constants, guard lambdas, class-level vs instance-level state).
"""
from __future__ import annotations

import ast
import inspect
import os
import sys
import textwrap
from pathlib import Path

sys.path.insert(0, os.environ.get("VERIF_REPO") or "/repo")
sys.path.insert(0, "/verif/tools")
os.environ.pop("FLOW_RECORD_IGNORE", None)

from vf.coqlit import cbool, clist, cN, copt, cpair, cstr, cZ, chex  # noqa: E402

from vf.factlib import GEN, HEADER, Unsupported, write_if_changed  # noqa: E402


# ------------------------------------------------------------------------------------------
# selector facts

def _const_return(fn):
    """If fn's body is (docstring?) `return <bool constant>` return that bool, else raise."""
    src = textwrap.dedent(inspect.getsource(fn))
    node = ast.parse(src).body[0]
    if not isinstance(node, ast.FunctionDef):
        raise Unsupported("not a def: %r" % fn)
    body = list(node.body)
    if body and isinstance(body[0], ast.Expr) and isinstance(body[0].value, ast.Constant) and isinstance(body[0].value.value, str):
        body = body[1:]
    if len(body) == 1 and isinstance(body[0], ast.Return) and body[0].value is not None:
        expr = body[0].value
        # a closed constant expression (no names, calls, attributes): fold it
        if not any(isinstance(n, (ast.Name, ast.Call, ast.Attribute, ast.Subscript, ast.Lambda, ast.Await, ast.Yield,
                                  ast.NamedExpr, ast.ListComp, ast.GeneratorExp, ast.JoinedStr)) for n in ast.walk(expr)):
            val = eval(compile(ast.Expression(expr), "<fact>", "eval"), {"__builtins__": {}}, {})
            if isinstance(val, bool):
                return val
    raise Unsupported("method %s is not `return <bool>` (line %d of %s)" % (
        fn.__qualname__, fn.__code__.co_firstlineno, fn.__code__.co_filename))


def sentinel_table(sel):
    cls = type(sel.NONE_OBJECT)
    out = {}
    for name in ("__eq__", "__ne__", "__lt__", "__le__", "__gt__", "__ge__", "__contains__"):
        fn = None
        for k in cls.__mro__:
            if k is object:
                break
            if name in k.__dict__:
                fn = k.__dict__[name]
                break
        out[name] = None if fn is None else _const_return(fn)
    return out


def _is_sentinel_test(node, argnames, sentinel_cls_names):
    """isinstance(<arg>, NoneObject)  |  <arg> is NONE_OBJECT  -> arg name"""
    if isinstance(node, ast.Call) and isinstance(node.func, ast.Name) and node.func.id == "isinstance" \
            and len(node.args) == 2 and isinstance(node.args[0], ast.Name) and node.args[0].id in argnames \
            and isinstance(node.args[1], ast.Name) and node.args[1].id in sentinel_cls_names:
        return node.args[0].id
    if isinstance(node, ast.Compare) and len(node.ops) == 1 and isinstance(node.ops[0], ast.Is) \
            and isinstance(node.left, ast.Name) and node.left.id in argnames \
            and isinstance(node.comparators[0], ast.Name) and node.comparators[0].id == "NONE_OBJECT":
        return node.left.id
    return None


def _is_contains_call(node, left, right):
    return (isinstance(node, ast.Call) and isinstance(node.func, ast.Attribute) and node.func.attr == "contains"
            and isinstance(node.func.value, ast.Name) and node.func.value.id == "operator"
            and len(node.args) == 2 and all(isinstance(a, ast.Name) for a in node.args)
            and node.args[0].id == right and node.args[1].id == left)


def comparator_facts(sel):
    """AST_COMPARATORS: for the six rich operators the operator.* function used; for In / NotIn the
    guard lambda's shape."""
    import operator as _op
    tree = ast.parse(Path(sel.__file__).read_text())
    table_node = None
    for node in tree.body:
        if isinstance(node, ast.Assign) and any(isinstance(t, ast.Name) and t.id == "AST_COMPARATORS" for t in node.targets):
            table_node = node.value
    if not isinstance(table_node, ast.Dict):
        raise Unsupported("AST_COMPARATORS is not a dict display")
    sentinel_names = {type(sel.NONE_OBJECT).__name__}
    plain = {}
    guards = {}
    for k, v in zip(table_node.keys, table_node.values):
        if not (isinstance(k, ast.Attribute) and isinstance(k.value, ast.Name) and k.value.id == "ast"):
            raise Unsupported("AST_COMPARATORS key at line %d" % k.lineno)
        kind = k.attr
        if isinstance(v, ast.Attribute) and isinstance(v.value, ast.Name) and v.value.id == "operator":
            plain[kind] = v.attr
            continue
        if kind in ("In", "NotIn") and isinstance(v, ast.Lambda):
            args = [a.arg for a in v.args.args]
            if len(args) != 2:
                raise Unsupported("comparator lambda arity line %d" % v.lineno)
            left, right = args
            body = v.body
            g_left = g_right = False
            g_value = False
            core = body
            if isinstance(body, ast.IfExp):
                tests = body.test.values if isinstance(body.test, ast.BoolOp) and isinstance(body.test.op, ast.Or) else [body.test]
                for t in tests:
                    a = _is_sentinel_test(t, args, sentinel_names)
                    if a is None:
                        raise Unsupported("unrecognised guard test in %s lambda line %d" % (kind, v.lineno))
                    if a == left:
                        g_left = True
                    else:
                        g_right = True
                if not (isinstance(body.body, ast.Constant) and isinstance(body.body.value, bool)):
                    raise Unsupported("guard value of %s lambda is not a bool constant line %d" % (kind, v.lineno))
                g_value = body.body.value
                core = body.orelse
            # the unguarded core must be contains(right,left) (In) or its negation (NotIn)
            if kind == "In":
                okcore = _is_contains_call(core, left, right)
            else:
                okcore = (
                    (isinstance(core, ast.Compare) and len(core.ops) == 1 and isinstance(core.ops[0], ast.Is)
                     and _is_contains_call(core.left, left, right)
                     and isinstance(core.comparators[0], ast.Constant) and core.comparators[0].value is False)
                    or (isinstance(core, ast.UnaryOp) and isinstance(core.op, ast.Not) and _is_contains_call(core.operand, left, right))
                )
            if not okcore:
                raise Unsupported("unrecognised core of %s lambda line %d" % (kind, v.lineno))
            guards[kind] = (g_left, g_right, g_value)
            continue
        raise Unsupported("AST_COMPARATORS[%s] has an unsupported value at line %d" % (kind, v.lineno))
    # cross-check with the live table
    import ast as _ast
    for kind, opname in plain.items():
        if sel.AST_COMPARATORS[getattr(_ast, kind)] is not getattr(_op, opname):
            raise Unsupported("AST_COMPARATORS[%s] live value differs from source" % kind)
    for kind in ("In", "NotIn"):
        if kind not in guards:
            if kind in plain:   # plain operator.contains etc: no guard
                guards[kind] = (False, False, False)
                if kind == "NotIn" or plain[kind] != "contains":
                    raise Unsupported("AST_COMPARATORS[%s] is operator.%s" % (kind, plain[kind]))
            else:
                raise Unsupported("AST_COMPARATORS lacks %s" % kind)
    return plain, guards


class _Box:
    """container probe: records what it is asked"""
    def __init__(self, ans):
        self.ans, self.asked = ans, []

    def __contains__(self, x):
        self.asked.append(x)
        return self.ans


def sentinel_table_observed(sel):
    """The same table as sentinel_table, OBSERVED: each rich-comparison / membership method of the sentinel's class is
    called with operands of every kind; it must answer one and the same bool for all of them."""
    S = sel.NONE_OBJECT
    cls = type(S)
    probes = [0, 1, -1, "", "a", b"b", None, True, 1.5, [], [1], (), {"k": 1}, S, object(), _Box(True)]
    out = {}
    for name in ("__eq__", "__ne__", "__lt__", "__le__", "__gt__", "__ge__", "__contains__"):
        if not any(name in k.__dict__ for k in cls.__mro__ if k is not object):
            out[name] = None
            continue
        answers = set()
        for p in probes:
            try:
                answers.add(getattr(cls, name)(S, p))
            except Exception as e:  # noqa
                answers.add("raises %s" % type(e).__name__)
        if len(answers) != 1 or not isinstance(next(iter(answers)), bool):
            raise Unsupported("%s.%s does not answer one constant bool for every operand: %r" % (cls.__name__, name, sorted(map(str, answers))))
        out[name] = answers.pop()
    return out


def comparator_facts_observed(sel):
    """plain operator table by identity of the live functions; In / NotIn guards observed on probe containers."""
    import ast as _ast
    import operator as _op
    plain, guards = {}, {}
    S = sel.NONE_OBJECT
    for node_cls, fn in sel.AST_COMPARATORS.items():
        kind = node_cls.__name__
        names = [n for n in ("eq", "ne", "lt", "le", "gt", "ge", "contains", "is_", "is_not") if getattr(_op, n) is fn]
        if names:
            plain[kind] = names[0]
            continue
        if kind not in ("In", "NotIn"):
            raise Unsupported("AST_COMPARATORS[%s] is not an operator.* function" % kind)
        neg = kind == "NotIn"
        for ans in (True, False):
            box = _Box(ans)
            if fn(7, box) is not (ans != neg) or box.asked != [7]:
                raise Unsupported("AST_COMPARATORS[%s](x, container) is not %scontainer.__contains__(x)" % (kind, "not " if neg else ""))
        # missing operand on the left
        seen = set()
        g_left = True
        for ans in (True, False):
            box = _Box(ans)
            v = fn(S, box)
            if box.asked:
                g_left = False
                if v is not (ans != neg):
                    raise Unsupported("AST_COMPARATORS[%s](<missing>, container): unrecognised behaviour" % kind)
            else:
                seen.add(v)
        if g_left and (len(seen) != 1 or not isinstance(next(iter(seen)), bool)):
            raise Unsupported("AST_COMPARATORS[%s](<missing>, container) is not one constant bool" % kind)
        # missing operand on the right: guarded (constant) or consulting the sentinel's own __contains__
        v = fn(7, S)
        unguarded = (S.__contains__(7) != neg)
        if g_left:
            g_value = seen.pop()
            if v is g_value:
                g_right = True          # (when both readings give the same bool the guarded one is chosen: same outcomes)
            elif v is unguarded:
                g_right = False
            else:
                raise Unsupported("AST_COMPARATORS[%s](x, <missing>): unrecognised behaviour" % kind)
        else:
            if v is not unguarded and not isinstance(v, bool):
                raise Unsupported("AST_COMPARATORS[%s](x, <missing>): unrecognised behaviour" % kind)
            g_right, g_value = (v is not unguarded), (v if v is not unguarded else False)
        guards[kind] = (g_left, g_right, g_value)
    for kind in ("In", "NotIn"):
        if kind not in guards:
            if plain.get(kind) == "contains" and kind == "In":
                guards[kind] = (False, False, False)
            else:
                raise Unsupported("AST_COMPARATORS[%s] missing or a bare operator" % kind)
    for k in ("In", "NotIn"):
        plain.pop(k, None)
    return plain, guards


def gen_selector():
    import flow.record.selector as sel
    # OBSERVED facts are the truth; the shape recognisers cross-check them where they recognise the source
    tbl = sentinel_table_observed(sel)
    plain, guards = comparator_facts_observed(sel)
    try:
        if sentinel_table(sel) != tbl:
            raise Unsupported("sentinel methods: recognised constants %r contradict the observed ones %r" % (sentinel_table(sel), tbl))
    except Unsupported as e:
        if "contradict" in str(e):
            raise
    try:
        plain_s, guards_s = comparator_facts(sel)
        if (plain_s, guards_s) != (plain, guards):
            raise Unsupported("AST_COMPARATORS: recognised shape %r contradicts the observed behaviour %r" % ((plain_s, guards_s), (plain, guards)))
    except Unsupported as e:
        if "contradicts" in str(e):
            raise
    f = lambda name: copt(tbl[name], cbool)  # noqa: E731
    out = HEADER
    out += "From Coq Require Import List Bool String.\nImport ListNotations.\nFrom FR Require Import Cmp.\nOpen Scope string_scope.\n\n"
    out += "(* class %s: rich-comparison / membership methods it defines, with the constant each returns *)\n" % type(sel.NONE_OBJECT).__name__
    out += "Definition none_object : sentinel :=\n  {| s_eq := %s; s_ne := %s; s_lt := %s; s_le := %s; s_gt := %s; s_ge := %s; s_contains := %s |}.\n\n" % (
        f("__eq__"), f("__ne__"), f("__lt__"), f("__le__"), f("__gt__"), f("__ge__"), f("__contains__"))
    for kind, nm in (("In", "guard_in"), ("NotIn", "guard_notin")):
        gl, gr, gv = guards[kind]
        out += "Definition %s : in_guard := {| g_left := %s; g_right := %s; g_value := %s |}.\n" % (nm, cbool(gl), cbool(gr), cbool(gv))
    out += "\n(* AST_COMPARATORS entries that are plain operator.* functions: node kind -> operator name *)\n"
    out += "Definition comparator_table : list (string * string) :=\n  %s.\n\n" % clist(
        [cpair(cstr(k), cstr(v)) for k, v in sorted(plain.items())])
    out += "Definition function_whitelist : list string := %s.\n" % clist([cstr(fn.__name__) for fn in sel.FUNCTION_WHITELIST])
    # the TypeMatcherInstance dunder names (which rich comparisons it defines)
    tmi = sel.TypeMatcherInstance
    defined = [n for n in ("__eq__", "__ne__", "__lt__", "__le__", "__gt__", "__ge__", "__contains__") if n in tmi.__dict__]
    out += "Definition typematcher_defines : list string := %s.\n" % clist([cstr(n) for n in defined])
    write_if_changed(GEN / "Gen_selector.v", out)


GENERATORS = [gen_selector]


def _discover():
    """Per-property generator modules: tools/vf/factgen/*.py, each exporting GENERATORS (functions
    named gen_<something>) written with the helpers of this module."""
    import importlib
    d = Path(__file__).parent / "factgen"
    for p in sorted(d.glob("*.py")):
        if p.name.startswith("_"):
            continue
        try:
            m = importlib.import_module("vf.factgen." + p.stem)
            GENERATORS.extend(m.GENERATORS)
        except Exception as e:  # fail closed for whoever needs it
            def bad(e=e, name=p.stem):
                raise Unsupported("factgen module %s cannot be imported: %r" % (name, e))
            bad.__name__ = "gen_" + p.stem
            GENERATORS.append(bad)


def main():
    _discover()
    wanted = set(sys.argv[1:])
    errors = []
    for g in GENERATORS:
        try:
            g()
        except Unsupported as e:
            msg = "%s: unsupported construct: %s" % (g.__name__, e)
            if not wanted or g.__name__ in wanted:
                errors.append(msg)
            else:
                print("translator (not needed here): " + msg)
        except Exception as e:  # fail closed
            msg = "%s: %s: %s" % (g.__name__, type(e).__name__, e)
            if not wanted or g.__name__ in wanted:
                errors.append(msg)
            else:
                print("translator (not needed here): " + msg)
    if errors:
        print("\n".join("TRANSLATOR-ERROR " + e for e in errors))
        return 1
    return 0


if __name__ == "__main__":
    sys.exit(main())
