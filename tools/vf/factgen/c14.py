"""C14 facts: the code shapes of flow/record/jsonpacker.py, flow/record/adapter/jsonfile.py and
fieldtypes.fieldtype_for_value that the JSON round-trip proofs hinge on  ->  coq/gen/Gen_json.v.

`ast` where the SHAPE is the fact (order of pack_obj's isinstance chain and what each branch returns, the
marker keys and their guard, the boolean cast rule, which declared types the reader base64-decodes, the
guards of register / pack_obj, the reader's fallback); live classes (import) to resolve every class
expression and to compute the instance-of table, the type-name -> kind table, RESERVED_FIELDS and
RECORD_VERSION.  Fail closed on anything not recognised."""
from __future__ import annotations

import ast
import inspect
import textwrap

from vf.coqlit import cbool
from vf.factlib import GEN, HEADER, Unsupported, write_if_changed


def T(s: str) -> str:
    if not all(32 <= ord(c) < 127 and c != '"' for c in s):
        raise Unsupported("text %r is not printable ASCII" % s)
    return '(T "%s")' % s


def clist(items) -> str:
    items = list(items)
    return "[" + "; ".join(items) + "]" if items else "[]"


def _fn_ast(fn):
    src = textwrap.dedent(inspect.getsource(fn))
    node = ast.parse(src).body[0]
    if not isinstance(node, ast.FunctionDef):
        raise Unsupported("not a def: %r" % fn)
    return node


def _body(node):
    """statements without docstring / logging calls"""
    out = []
    for st in node.body:
        if isinstance(st, ast.Expr) and isinstance(st.value, ast.Constant) and isinstance(st.value.value, str):
            continue
        if isinstance(st, ast.Expr) and isinstance(st.value, ast.Call) and isinstance(st.value.func, ast.Attribute) \
                and isinstance(st.value.func.value, ast.Name) and st.value.func.value.id == "log":
            continue
        out.append(st)
    return out


def _src(n):
    return ast.unparse(n)


def _dump(n):
    return ast.dump(n).replace("ctx=Store()", "ctx=Load()").replace("ctx=Del()", "ctx=Load()")


def _is(n, text):
    """structural equality with the parse of `text` (expression contexts ignored)"""
    return _dump(n) == _dump(ast.parse(text, mode="eval").body)


def _const_str(n):
    return isinstance(n, ast.Constant) and isinstance(n.value, str)


def _class_name(cls) -> str:
    if not isinstance(cls, type):
        raise Unsupported("isinstance argument %r is not a class" % (cls,))
    mod = cls.__module__
    return cls.__qualname__ if mod == "builtins" else mod + "." + cls.__qualname__


def _resolve_classes(expr, namespace, where):
    """the classes of an isinstance second argument (a class expression or a tuple of them), live"""
    for n in ast.walk(expr):
        if not isinstance(n, (ast.Name, ast.Attribute, ast.Tuple, ast.Load)):
            raise Unsupported("%s: class expression %s" % (where, _src(expr)))
    try:
        val = eval(compile(ast.Expression(expr), "<fact>", "eval"), dict(namespace))
    except Exception as e:  # noqa
        raise Unsupported("%s: cannot resolve %s: %r" % (where, _src(expr), e))
    vals = list(val) if isinstance(val, tuple) else [val]
    return [_class_name(v) for v in vals], vals


def _isinstance_test(test, var, where):
    if not (isinstance(test, ast.Call) and isinstance(test.func, ast.Name) and test.func.id == "isinstance"
            and len(test.args) == 2 and not test.keywords and isinstance(test.args[0], ast.Name) and test.args[0].id == var):
        raise Unsupported("%s: test is not isinstance(%s, ...): %s" % (where, var, _src(test)))
    return test.args[1]


def _branch_action(body, where):
    """what a pack_obj branch returns"""
    # `serial = <expr>; return serial`  ==  `return <expr>`
    if len(body) == 2 and isinstance(body[0], ast.Assign) and len(body[0].targets) == 1 and isinstance(body[0].targets[0], ast.Name) \
            and isinstance(body[1], ast.Return) and isinstance(body[1].value, ast.Name) and body[1].value.id == body[0].targets[0].id:
        expr = body[0].value
    elif len(body) == 1 and isinstance(body[0], ast.Return) and body[0].value is not None:
        expr = body[0].value
    else:
        raise Unsupported("%s: branch body is not `return <expr>`" % where)
    if _is(expr, "obj.isoformat()"):
        return "AIsoformat"
    if _is(expr, "str(obj)"):
        return "AStr"
    if _is(expr, "base64.b64encode(obj).decode()") or _is(expr, "base64.b64encode(obj).decode('ascii')") \
            or _is(expr, "base64.b64encode(obj).decode('utf-8')"):
        return "ABase64"
    if isinstance(expr, ast.Dict) and all(_const_str(k) for k in expr.keys):
        keys = [k.value for k in expr.keys]
        if keys == ["md5", "sha1", "sha256"] and all(_is(v, "obj." + k) for k, v in zip(keys, expr.values)):
            return "ADigestDict"
        if keys == ["executable", "args"] and all(_is(v, "obj." + k) for k, v in zip(keys, expr.values)):
            return "ACommandDict"
    raise Unsupported("%s: branch returns %s (no model for it)" % (where, _src(expr)))


def _guard_compares(test, what, where, negated):
    """`self.descriptors.get(<ident>) != <desc>` (compares the descriptor)  |  `<ident> not in self.descriptors`"""
    id_, d = what
    if negated:
        if _is(test, "self.descriptors.get(%s) != %s" % (id_, d)) or _is(test, "not self.descriptors.get(%s) == %s" % (id_, d)):
            return True
        if _is(test, "%s not in self.descriptors" % id_):
            return False
    else:
        if _is(test, "self.descriptors.get(%s) == %s" % (id_, d)):
            return True
        if _is(test, "%s in self.descriptors" % id_):
            return False
    raise Unsupported("%s: guard %s" % (where, _src(test)))


def packer_facts():
    import flow.record.jsonpacker as jp
    from flow.record import fieldtypes
    P = jp.JsonRecordPacker
    ns = vars(jp)
    f = {}

    # ---------------- pack_obj
    fn = _fn_ast(P.pack_obj)
    if [a.arg for a in fn.args.args] != ["self", "obj"]:
        raise Unsupported("pack_obj signature")
    body = _body(fn)
    if len(body) < 3 or not isinstance(body[-1], ast.Raise):
        raise Unsupported("pack_obj does not end in a raise")
    chain = body[:-1]
    for st in chain:
        if not (isinstance(st, ast.If) and not st.orelse):
            raise Unsupported("pack_obj: statement at line %d is not a plain `if isinstance(...)`" % st.lineno)
    # branch 0: Record
    names, vals = _resolve_classes(_isinstance_test(chain[0].test, "obj", "pack_obj[0]"), ns, "pack_obj[0]")
    from flow.record.base import Record, RecordDescriptor
    if vals != [Record]:
        raise Unsupported("pack_obj: first branch is not isinstance(obj, Record)")
    rb = _body(chain[0])
    if len(rb) < 3:
        raise Unsupported("pack_obj: record branch too short")
    # guard + register
    g = rb[0]
    if not (isinstance(g, ast.If) and not g.orelse and len(g.body) == 1 and isinstance(g.body[0], ast.Expr)
            and (_is(g.body[0].value, "self.register(obj._desc, True)") or _is(g.body[0].value, "self.register(obj._desc, notify=True)"))):
        raise Unsupported("pack_obj: record branch does not start with the registration guard")
    f["pack_guard"] = _guard_compares(g.test, ("obj._desc.identifier", "obj._desc"), "pack_obj", negated=True)
    if not (isinstance(rb[1], ast.Assign) and _is(rb[1].value, "obj._asdict()") and isinstance(rb[1].targets[0], ast.Name)):
        raise Unsupported("pack_obj: record branch does not build the dict with obj._asdict()")
    sv = rb[1].targets[0].id
    if not (isinstance(rb[-1], ast.Return) and isinstance(rb[-1].value, ast.Name) and rb[-1].value.id == sv):
        raise Unsupported("pack_obj: record branch does not return the dict")

    def marker_assigns(stmts):
        out = []
        for st in stmts:
            if not (isinstance(st, ast.Assign) and len(st.targets) == 1 and isinstance(st.targets[0], ast.Subscript)
                    and isinstance(st.targets[0].value, ast.Name) and st.targets[0].value.id == sv
                    and _const_str(st.targets[0].slice)):
                raise Unsupported("pack_obj: unexpected statement among the markers: %s" % _src(st))
            out.append((st.targets[0].slice.value, st.value))
        return out

    markers = None
    f["bool_cast"] = []
    f["markers_guarded"] = True
    pending_unguarded = []
    for st in rb[2:-1]:
        if isinstance(st, ast.If) and _is(st.test, "self.pack_descriptors") and not st.orelse:
            if markers is not None:
                raise Unsupported("pack_obj: two marker blocks")
            markers = marker_assigns(st.body)
        elif isinstance(st, ast.Assign) and isinstance(st.targets[0], ast.Subscript):
            pending_unguarded.append(st)
        elif isinstance(st, ast.For):
            # for field_type, field_name in obj._desc.get_field_tuples():
            #     if field_type == "<T>" and isinstance(serial[field_name], int): serial[field_name] = bool(serial[field_name])
            if not (_is(st.iter, "obj._desc.get_field_tuples()") and isinstance(st.target, ast.Tuple) and len(st.target.elts) == 2
                    and all(isinstance(e, ast.Name) for e in st.target.elts) and not st.orelse):
                raise Unsupported("pack_obj: loop at line %d" % st.lineno)
            tvar, nvar = (e.id for e in st.target.elts)
            for inner in _body(st):
                ok = False
                if isinstance(inner, ast.If) and not inner.orelse and isinstance(inner.test, ast.BoolOp) and isinstance(inner.test.op, ast.And) \
                        and len(inner.test.values) == 2 and len(inner.body) == 1:
                    c, i = inner.test.values
                    if isinstance(c, ast.Compare) and len(c.ops) == 1 and isinstance(c.ops[0], ast.Eq) and isinstance(c.left, ast.Name) \
                            and c.left.id == tvar and _const_str(c.comparators[0]) \
                            and _is(i, "isinstance(%s[%s], int)" % (sv, nvar)) \
                            and isinstance(inner.body[0], ast.Assign) and _is(inner.body[0].targets[0], "%s[%s]" % (sv, nvar)) \
                            and _is(inner.body[0].value, "bool(%s[%s])" % (sv, nvar)):
                        f["bool_cast"].append(c.comparators[0].value)
                        ok = True
                if not ok:
                    raise Unsupported("pack_obj: statement in the field loop is not the boolean cast: %s" % _src(inner))
        else:
            raise Unsupported("pack_obj: unexpected statement in the record branch: %s" % _src(st))
    if pending_unguarded:
        if markers is not None:
            raise Unsupported("pack_obj: markers both guarded and unguarded")
        markers = marker_assigns(pending_unguarded)
        f["markers_guarded"] = False
    if markers is None or len(markers) != 2:
        raise Unsupported("pack_obj: expected exactly two marker assignments")
    (k1, v1), (k2, v2) = markers
    if not (_const_str(v1) and _is(v2, "obj._desc.identifier")):
        raise Unsupported("pack_obj: markers are not <key> = '<const>' followed by <key> = obj._desc.identifier")
    f["type_key"], f["record_marker"], f["desc_key"] = k1, v1.value, k2

    # branch 1: RecordDescriptor
    names, vals = _resolve_classes(_isinstance_test(chain[1].test, "obj", "pack_obj[1]"), ns, "pack_obj[1]")
    if vals != [RecordDescriptor]:
        raise Unsupported("pack_obj: second branch is not isinstance(obj, RecordDescriptor)")
    db = _body(chain[1])
    if len(db) == 2 and isinstance(db[0], ast.Assign) and isinstance(db[1], ast.Return) and isinstance(db[1].value, ast.Name):
        dexpr = db[0].value
    elif len(db) == 1 and isinstance(db[0], ast.Return):
        dexpr = db[0].value
    else:
        raise Unsupported("pack_obj: descriptor branch")
    if not (isinstance(dexpr, ast.Dict) and len(dexpr.keys) == 2 and all(_const_str(k) for k in dexpr.keys)
            and dexpr.keys[0].value == f["type_key"] and _const_str(dexpr.values[0]) and _is(dexpr.values[1], "obj._pack()")):
        raise Unsupported("pack_obj: descriptor branch does not return {type key: <const>, <key>: obj._pack()}")
    f["descriptor_marker"] = dexpr.values[0].value
    f["data_key"] = dexpr.keys[1].value

    # the remaining branches, in order
    branches = []
    branch_classes = []
    for i, st in enumerate(chain[2:], 2):
        where = "pack_obj[%d]" % i
        names, vals = _resolve_classes(_isinstance_test(st.test, "obj", where), ns, where)
        branches.append((names, _branch_action(_body(st), where)))
        branch_classes += list(zip(names, vals))
    f["branches"] = branches

    # instance-of table of the field value classes (what json.dumps hands to default=)
    from flow.record.fieldtypes.net import ipaddress, ipnetwork
    live = [("CDatetime", fieldtypes.datetime), ("CDigest", fieldtypes.digest), ("CIpAddress", ipaddress),
            ("CIpNetwork", ipnetwork), ("CBytes", fieldtypes.bytes), ("CPath", fieldtypes.posix_path)]
    import json as _json
    for cname, cls in live:
        # json.dumps serialises str / int / float / list / tuple / dict / bool / None itself: these classes must not be any of them
        if issubclass(cls, (str, int, float, list, tuple, dict)):
            raise Unsupported("%s is natively serialisable by json.dumps; the model sends it to pack_obj" % cls)
    f["instances"] = []
    for cname, cls in live:
        seen = []
        for n, c in branch_classes:
            if issubclass(cls, c) and n not in seen:
                seen.append(n)
        f["instances"].append((cname, seen))

    # ---------------- pack: json.dumps(obj, default=self.pack_obj, indent=self.indent)
    pk = _body(_fn_ast(P.pack))
    if not (len(pk) == 1 and isinstance(pk[0], ast.Return) and _is(pk[0].value, "json.dumps(obj, default=self.pack_obj, indent=self.indent)")):
        raise Unsupported("pack is not json.dumps(obj, default=self.pack_obj, indent=self.indent)")

    # ---------------- register
    rg = _body(_fn_ast(P.register))
    guard = None
    assigns = []
    notify = False
    for st in rg:
        if isinstance(st, ast.If) and len(st.body) == 1 and isinstance(st.body[0], ast.Raise):
            continue      # type check
        if isinstance(st, ast.If) and len(st.body) == 1 and isinstance(st.body[0], ast.Return) and st.body[0].value is None and not st.orelse:
            if guard is not None or assigns:
                raise Unsupported("register: guard position")
            guard = _guard_compares(st.test, ("desc.identifier", "desc"), "register", negated=False)
        elif isinstance(st, ast.Assign):
            assigns.append(_src(st))
        elif isinstance(st, ast.If) and _is(st.test, "notify and self.on_descriptor") and len(_body(st)) == 1 \
                and _is(_body(st)[0].value, "self.on_descriptor(desc)") and not st.orelse:
            notify = True
        else:
            raise Unsupported("register: unexpected statement %s" % _src(st))
    if guard is None or not notify:
        raise Unsupported("register: no early-return guard / no notification")
    if "self.descriptors[desc.identifier] = desc" not in assigns:
        raise Unsupported("register does not store the descriptor under its identifier")
    for a in assigns:
        if a not in ("self.descriptors[desc.identifier] = desc", "self.descriptors[desc.name] = desc"):
            raise Unsupported("register: assignment %s" % a)
    f["register_guard"] = guard

    # ---------------- unpack_obj
    un = _body(_fn_ast(P.unpack_obj))
    if not (len(un) == 2 and isinstance(un[0], ast.If) and _is(un[0].test, "isinstance(obj, dict)") and not un[0].orelse
            and isinstance(un[1], ast.Return) and _is(un[1].value, "obj")):
        raise Unsupported("unpack_obj: outer shape")
    ub = _body(un[0])
    if not (len(ub) == 3 and isinstance(ub[0], ast.Assign)
            and (_is(ub[0].value, "obj.get(%r, None)" % f["type_key"]) or _is(ub[0].value, "obj.get(%r)" % f["type_key"]))):
        raise Unsupported("unpack_obj: does not read the type marker with obj.get(%r)" % f["type_key"])
    tv = ub[0].targets[0].id
    rbr, dbr = ub[1], ub[2]
    if not (isinstance(rbr, ast.If) and _is(rbr.test, "%s == %r" % (tv, f["record_marker"])) and not rbr.orelse):
        raise Unsupported("unpack_obj: record branch test")
    if not (isinstance(dbr, ast.If) and _is(dbr.test, "%s == %r" % (tv, f["descriptor_marker"])) and not dbr.orelse):
        raise Unsupported("unpack_obj: descriptor branch test")
    dbb = _body(dbr)
    if not (len(dbb) == 2 and _is(dbb[0].value, "obj[%r]" % f["data_key"]) and isinstance(dbb[1], ast.Return)
            and _is(dbb[1].value, "RecordDescriptor._unpack(*%s)" % dbb[0].targets[0].id)):
        raise Unsupported("unpack_obj: descriptor branch body")
    rbb = _body(rbr)
    src = [_src(s) for s in rbb]
    idv = None
    removed = set()
    loop = None
    built = False
    lookup_ok = False
    for st in rbb:
        s = _src(st)
        if isinstance(st, ast.Assign) and _is(st.value, "obj[%r]" % f["desc_key"]):
            idv = st.targets[0].id
        elif idv and s == "%s = tuple(%s)" % (idv, idv):
            pass
        elif idv and isinstance(st, ast.Assign) and _is(st.value, "self.descriptors.get(%s)" % idv):
            dv = st.targets[0].id
            lookup_ok = True
        elif lookup_ok and isinstance(st, ast.If) and _is(st.test, "not %s" % dv) and len(st.body) == 1 and isinstance(st.body[0], ast.Raise):
            pass
        elif isinstance(st, ast.Delete) and len(st.targets) == 1 and isinstance(st.targets[0], ast.Subscript) \
                and _is(st.targets[0].value, "obj") and _const_str(st.targets[0].slice):
            removed.add(st.targets[0].slice.value)
        elif isinstance(st, ast.For):
            loop = st
        elif lookup_ok and isinstance(st, ast.Assign) and _is(st.value, "%s.recordType(**obj)" % dv):
            built = st.targets[0].id
        elif built and isinstance(st, ast.Return) and _is(st.value, built):
            pass
        else:
            raise Unsupported("unpack_obj: unexpected statement in the record branch: %s" % s)
    if not (idv and lookup_ok and built):
        raise Unsupported("unpack_obj: record branch lacks identifier lookup / construction")
    f["removes_markers"] = removed == {f["type_key"], f["desc_key"]}
    if removed and not f["removes_markers"] and not removed < {f["type_key"], f["desc_key"]}:
        raise Unsupported("unpack_obj deletes other keys: %r" % removed)
    f["skip_none"] = False
    f["b64_scalar"], f["b64_list"] = [], []
    if loop is not None:
        if not (_is(loop.iter, "%s.get_field_tuples()" % dv) and isinstance(loop.target, ast.Tuple) and len(loop.target.elts) == 2):
            raise Unsupported("unpack_obj: field loop header")
        tvar, nvar = (e.id for e in loop.target.elts)
        lb = _body(loop)
        chain_if = None
        for st in lb:
            if isinstance(st, ast.If) and _is(st.test, "obj.get(%s) is None" % nvar) and len(st.body) == 1 \
                    and isinstance(st.body[0], ast.Continue) and not st.orelse and chain_if is None:
                f["skip_none"] = True
            elif isinstance(st, ast.If) and chain_if is None:
                chain_if = st
            else:
                raise Unsupported("unpack_obj: field loop statement %s" % _src(st))
        node = chain_if
        while node is not None:
            t = node.test
            if not (isinstance(t, ast.Compare) and len(t.ops) == 1 and isinstance(t.ops[0], ast.Eq) and isinstance(t.left, ast.Name)
                    and t.left.id == tvar and _const_str(t.comparators[0]) and len(node.body) == 1 and isinstance(node.body[0], ast.Assign)
                    and _is(node.body[0].targets[0], "obj[%s]" % nvar)):
                raise Unsupported("unpack_obj: field loop branch %s" % _src(t))
            val = node.body[0].value
            if _is(val, "base64.b64decode(obj[%s])" % nvar):
                f["b64_scalar"].append(t.comparators[0].value)
            elif isinstance(val, ast.ListComp) and len(val.generators) == 1 and not val.generators[0].ifs \
                    and isinstance(val.generators[0].target, ast.Name) and _is(val.generators[0].iter, "obj[%s]" % nvar) \
                    and _is(val.elt, "base64.b64decode(%s)" % val.generators[0].target.id):
                f["b64_list"].append(t.comparators[0].value)
            else:
                raise Unsupported("unpack_obj: field loop assigns %s" % _src(val))
            if len(node.orelse) == 1 and isinstance(node.orelse[0], ast.If):
                node = node.orelse[0]
            elif not node.orelse:
                node = None
            else:
                raise Unsupported("unpack_obj: else branch in the field loop")

    # ---------------- unpack
    up = _body(_fn_ast(P.unpack))
    ok = (len(up) in (3, 4) and isinstance(up[0], ast.Assign) and _is(up[0].value, "json.loads(d, object_hook=self.unpack_obj)")
          and isinstance(up[1], ast.Assign) and _is(up[1].value, "self.unpack_obj(%s)" % up[0].targets[0].id)
          and isinstance(up[-1], ast.Return) and _is(up[-1].value, up[1].targets[0].id))
    if not ok:
        raise Unsupported("unpack: shape")
    res = up[1].targets[0].id
    f["reader_registers"] = False
    if len(up) == 4:
        st = up[2]
        if isinstance(st, ast.If) and _is(st.test, "isinstance(%s, RecordDescriptor)" % res) and not st.orelse and len(st.body) == 1 \
                and _is(st.body[0].value, "self.register(%s)" % res):
            f["reader_registers"] = True
        else:
            raise Unsupported("unpack: statement %s" % _src(st))
    return f


class _Rename(ast.NodeTransformer):
    def __init__(self, mapping):
        self.mapping = mapping

    def visit_Name(self, node):
        if node.id in self.mapping:
            return ast.copy_location(ast.Name(id=self.mapping[node.id], ctx=node.ctx), node)
        return node


def _splice_helpers(stmts, cls):
    """`X = self._h(a, ..)` / `X = Cls._h(a, ..)` where _h is a function of the same class whose body is straight-line
    code ending in `return <expr>`: replaced by the body (parameters renamed to the argument names) and `X = <expr>`.
    One level only."""
    import copy
    out = []
    for st in stmts:
        call = st.value if isinstance(st, ast.Assign) and len(st.targets) == 1 and isinstance(st.targets[0], ast.Name) else None
        helper = None
        if isinstance(call, ast.Call) and isinstance(call.func, ast.Attribute) and isinstance(call.func.value, ast.Name) \
                and call.func.value.id in ("self", "cls", cls.__name__) and not call.keywords \
                and all(isinstance(a, ast.Name) for a in call.args):
            raw = cls.__dict__.get(call.func.attr)
            fn = getattr(raw, "__func__", raw)
            if callable(fn) and hasattr(fn, "__code__"):
                try:
                    helper = _fn_ast(fn)
                except Exception:  # noqa
                    helper = None
        if helper is None:
            out.append(st)
            continue
        params = [a.arg for a in helper.args.args]
        if not isinstance(raw, staticmethod):
            params = params[1:]
        body = _body(helper)
        if len(params) != len(call.args) or not body or not isinstance(body[-1], ast.Return) or body[-1].value is None \
                or any(isinstance(n, (ast.Return, ast.Yield, ast.YieldFrom)) for b in body[:-1] for n in ast.walk(b)):
            out.append(st)
            continue
        ren = _Rename({p: a.id for p, a in zip(params, call.args)})
        for b in body[:-1]:
            out.append(ast.fix_missing_locations(ren.visit(copy.deepcopy(b))))
        out.append(ast.fix_missing_locations(ast.Assign(targets=[copy.deepcopy(st.targets[0])], value=ren.visit(copy.deepcopy(body[-1].value)),
                                                        lineno=st.lineno)))
    return out


def adapter_facts(f):
    from flow.record.adapter import jsonfile
    W, R = jsonfile.JsonfileWriter, jsonfile.JsonfileReader
    # writer: the descriptor handler writes the descriptor at once, through the same _write
    h = _body(_fn_ast(W.packer_on_new_descriptor))
    if not (len(h) == 1 and isinstance(h[0], ast.Expr) and _is(h[0].value, "self._write(descriptor)")):
        raise Unsupported("JsonfileWriter.packer_on_new_descriptor is not `self._write(descriptor)`")
    w = _body(_fn_ast(W._write))
    if not (len(w) == 2 and isinstance(w[0], ast.Assign) and _is(w[0].value, "self.packer.pack(obj)")
            and _is(w[1].value, "self.fp.write(%s + '\\n')" % w[0].targets[0].id)):
        raise Unsupported("JsonfileWriter._write is not pack + fp.write(text + newline)")
    wr = _body(_fn_ast(W.write))
    if not (len(wr) == 1 and isinstance(wr[0], ast.Expr) and _is(wr[0].value, "self._write(r)")):
        raise Unsupported("JsonfileWriter.write is not `self._write(r)`")
    init = _body(_fn_ast(W.__init__))
    srcs = [_src(s) for s in init]
    need = ["self.descriptors = str(descriptors).lower() in ('true', '1')",
            "self.packer = JsonRecordPacker(indent=indent, pack_descriptors=self.descriptors)"]
    for n in need:
        if n not in srcs:
            raise Unsupported("JsonfileWriter.__init__ lacks `%s`" % n)
    hook = [s for s in init if isinstance(s, ast.If) and _is(s.test, "self.descriptors")]
    if not (len(hook) == 1 and len(hook[0].body) == 1 and not hook[0].orelse
            and _is(hook[0].body[0].value, "self.packer.on_descriptor.add_handler(self.packer_on_new_descriptor)")):
        raise Unsupported("JsonfileWriter.__init__: descriptor handler registration")
    # reader
    it = _fn_ast(R.__iter__)
    loops = [s for s in _body(it) if isinstance(s, ast.For)]
    if not (len(loops) == 1 and _is(loops[0].iter, "self.fp") and len(_body(it)) == 1):
        raise Unsupported("JsonfileReader.__iter__: not a single loop over self.fp")
    lb = _body(loops[0])
    if not (len(lb) == 2 and isinstance(lb[0], ast.Assign) and _is(lb[0].value, "self.packer.unpack(line)") and isinstance(lb[1], ast.If)):
        raise Unsupported("JsonfileReader.__iter__: loop body")
    ov = lb[0].targets[0].id
    n1 = lb[1]
    if not (_is(n1.test, "isinstance(%s, record.Record)" % ov) and len(n1.orelse) == 1 and isinstance(n1.orelse[0], ast.If)):
        raise Unsupported("JsonfileReader.__iter__: record test")
    n2 = n1.orelse[0]
    if not (_is(n2.test, "isinstance(%s, record.RecordDescriptor)" % ov) and len(n2.body) == 1 and isinstance(n2.body[0], ast.Pass)):
        raise Unsupported("JsonfileReader.__iter__: descriptor test")
    fb = _splice_helpers(_body(ast.Module(body=n2.orelse, type_ignores=[])), R)
    srcs = [_src(s) for s in fb]
    if not (len(fb) == 5 and srcs[0] == "jd = json.loads(line)" and srcs[3] == "%s = desc(**jd)" % ov):
        raise Unsupported("JsonfileReader.__iter__: fallback shape: %r" % srcs[:4])
    comp = fb[1].value
    if not (isinstance(comp, ast.ListComp) and len(comp.generators) == 1 and _is(comp.generators[0].iter, "jd.items()")
            and len(comp.generators[0].ifs) == 1 and _is(comp.generators[0].ifs[0], "not key.startswith('_')")
            and isinstance(comp.elt, ast.Tuple) and len(comp.elt.elts) == 2 and _is(comp.elt.elts[1], "key")
            and isinstance(comp.elt.elts[0], ast.Call) and _is(comp.elt.elts[0].func, "fieldtype_for_value")
            and len(comp.elt.elts[0].args) == 2 and _is(comp.elt.elts[0].args[0], "val") and _const_str(comp.elt.elts[0].args[1])):
        raise Unsupported("JsonfileReader.__iter__: fallback field list")
    f["ftv_default"] = comp.elt.elts[0].args[1].value
    d = fb[2].value
    if not (isinstance(d, ast.Call) and _is(d.func, "record.RecordDescriptor") and len(d.args) == 2 and _const_str(d.args[0])
            and _is(d.args[1], fb[1].targets[0].id)):
        raise Unsupported("JsonfileReader.__iter__: fallback descriptor")
    f["fallback_name"] = d.args[0].value
    return f


def ftv_facts(f):
    from flow.record import fieldtypes
    fn = _fn_ast(fieldtypes.fieldtype_for_value)
    params = [a.arg for a in fn.args.args]
    if params[:1] != ["value"] or len(params) != 2:
        raise Unsupported("fieldtype_for_value signature")
    body = _body(fn)
    if not (len(body) == 2 and isinstance(body[0], ast.If) and isinstance(body[1], ast.Return) and _is(body[1].value, params[1])):
        raise Unsupported("fieldtype_for_value: not an if-chain followed by `return default`")
    out = []
    node = body[0]
    while node is not None:
        names, vals = _resolve_classes(_isinstance_test(node.test, "value", "fieldtype_for_value"), vars(fieldtypes), "fieldtype_for_value")
        if not (len(node.body) == 1 and isinstance(node.body[0], ast.Return) and _const_str(node.body[0].value)):
            raise Unsupported("fieldtype_for_value: branch does not return a constant")
        for n in names:
            out.append((n, node.body[0].value.value))
        if len(node.orelse) == 1 and isinstance(node.orelse[0], ast.If):
            node = node.orelse[0]
        elif not node.orelse:
            node = None
        else:
            raise Unsupported("fieldtype_for_value: else branch")
    f["ftv"] = out
    return f


KIND_BY_CLASS = [
    ("string", "KStr"), ("uri", "KStr"), ("varint", "KInt"), ("filesize", "KInt"), ("unix_file_mode", "KInt"),
    ("uint16", "KU16"), ("uint32", "KU32"), ("float", "KFloat"), ("boolean", "KBool"), ("datetime", "KDt"),
    ("bytes", "KBytes"), ("digest", "KDigest"), ("path", "KPath"),
]


def type_facts(f):
    """type name -> kind for the JSON-supported scalar types, by the live class each whitelisted name resolves to"""
    from flow.record import fieldtypes
    from flow.record.base import RECORD_VERSION, RESERVED_FIELDS, fieldtype
    from flow.record.fieldtypes.net import ipaddress, ipnetwork
    from flow.record.whitelist import WHITELIST
    by_cls = {getattr(fieldtypes, n): k for n, k in KIND_BY_CLASS}
    by_cls[ipaddress] = "KIp"
    by_cls[ipnetwork] = "KNet"
    kinds = []
    for name in WHITELIST:
        try:
            cls = fieldtype(name)
        except Exception:  # noqa
            continue
        if cls in by_cls:
            kinds.append((name, by_cls[cls]))
    have = {k for _, k in kinds}
    want = {k for _, k in KIND_BY_CLASS} | {"KIp", "KNet"}
    if have != want:
        raise Unsupported("field types of kinds %s are no longer whitelisted" % sorted(want - have))
    # the integer bounds the model hard-wires for KU16 / KU32 / KBool
    for cls, lo, hi in ((fieldtypes.uint16, 0, 0xFFFF), (fieldtypes.uint32, 0, 0xFFFFFFFF), (fieldtypes.boolean, 0, 1)):
        for v, ok in ((lo, True), (hi, True), (lo - 1, False), (hi + 1, False)):
            try:
                cls(v)
                got = True
            except ValueError:
                got = False
            if got != ok:
                raise Unsupported("%s(%d) %s" % (cls.__name__, v, "accepted" if got else "rejected"))
    f["kinds"] = kinds
    f["reserved"] = [(t, n) for n, t in RESERVED_FIELDS.items()]
    f["version"] = RECORD_VERSION
    # the record constructor sets _version itself, keeps a given _generated, and replaces None by the type's default
    # ([] for typed lists, digest() for digests) -- except in the class generated for a descriptor with a
    # keyword-named field, whose constructor leaves None (probed live)
    import datetime as _pydt
    import keyword

    from flow.record import RecordDescriptor
    names = [n for _, n in f["reserved"]]
    if "_generated" not in names or "_version" not in names:
        raise Unsupported("RESERVED_FIELDS lacks _generated / _version")
    ts = _pydt.datetime(2001, 2, 3, 4, 5, 6, 7, tzinfo=_pydt.timezone.utc)
    D = RecordDescriptor("verif/probe", [("string[]", "l"), ("digest", "d"), ("string", "s")])
    r = D(_generated=ts, _version=RECORD_VERSION + 41)
    if r._version != RECORD_VERSION or r._generated != ts:
        raise Unsupported("the record constructor no longer forces _version / keeps _generated")
    if not (isinstance(r.l, list) and r.l == [] and isinstance(r.d, fieldtypes.digest) and r.d._pack() == (None, None, None) and r.s is None):
        raise Unsupported("unset list / digest / string slots are no longer [] / digest() / None")
    K = RecordDescriptor("verif/probekw", [("string[]", "if"), ("digest", "d"), ("string", "s")])
    k = K(_generated=ts)
    if getattr(k, "if") is None and k.d is None:
        f["kw_skip_defaults"] = True
    elif getattr(k, "if") == [] and isinstance(k.d, fieldtypes.digest):
        f["kw_skip_defaults"] = False
    else:
        raise Unsupported("constructor of a descriptor with a keyword-named field: unset slots are %r / %r" % (getattr(k, "if"), k.d))
    f["keywords"] = list(keyword.kwlist)
    return f


# ------------------------------------------------------------------------------------------
# OBSERVED facts: the real functions run on purpose-built probes.  These are what the generated file is printed
# from; the source recognisers above are a cross-check (recognised and contradicting -> fail closed; not recognised
# -> a note in the generated file).

def _probe_dir():
    import tempfile
    base = GEN.parent.parent / ".work" if (GEN.parent.parent / ".work").is_dir() else None
    return tempfile.mkdtemp(prefix="c14facts.", dir=str(base) if base else None)


def observe(kinds):
    import base64
    import datetime as pydt
    import json
    import os
    import shutil

    import flow.record.jsonpacker as jp
    from flow.record import RecordDescriptor, fieldtypes
    from flow.record.adapter import jsonfile
    from flow.record.exceptions import RecordDescriptorNotFound
    from flow.record.fieldtypes.net import ipaddress, ipnetwork
    P = jp.JsonRecordPacker
    ts = pydt.datetime(2001, 2, 3, 4, 5, 6, 7, tzinfo=pydt.timezone(pydt.timedelta(hours=1, minutes=30)))
    f = {}

    # ---- per-class encoding: pack_obj on values of every class json.dumps hands to default=
    md5, sha1 = "d41d8cd98f00b204e9800998ecf8427e", "da39a3ee5e6b4b0d3255bfef95601890afd80709"
    probes = [
        ("CDatetime", fieldtypes.datetime, [fieldtypes.datetime(ts), fieldtypes.datetime(2020, 1, 2, tzinfo=pydt.timezone.utc)]),
        ("CDigest", fieldtypes.digest, [fieldtypes.digest((md5, sha1, None)), fieldtypes.digest()]),
        ("CIpAddress", ipaddress, [ipaddress("::1"), ipaddress("1.2.3.4")]),
        ("CIpNetwork", ipnetwork, [ipnetwork("10.0.0.0/8"), ipnetwork("2001:db8::/32")]),
        ("CBytes", fieldtypes.bytes, [fieldtypes.bytes(b""), fieldtypes.bytes(b"a"), fieldtypes.bytes(b"\x00\xff"), fieldtypes.bytes(b"abc")]),
        ("CPath", fieldtypes.posix_path, [fieldtypes.path("/tmp/x y"), fieldtypes.path("")]),
    ]
    actions = [
        ("AIsoformat", lambda v: pydt.datetime.isoformat(v)),
        ("ADigestDict", lambda v: {"md5": v.md5, "sha1": v.sha1, "sha256": v.sha256}),
        ("ABase64", lambda v: base64.b64encode(bytes(v)).decode("ascii")),
        ("AStr", lambda v: str(v)),
        ("ACommandDict", lambda v: {"executable": v.executable, "args": v.args}),
    ]
    f["dispatch"] = {}
    for cname, cls, values in probes:
        if issubclass(cls, (str, int, float, list, tuple, dict)):
            raise Unsupported("%s is natively serialisable by json.dumps; the model sends it to pack_obj" % cls)
        matching = None
        for v in values:
            try:
                got = P().pack_obj(v)
            except Exception as e:  # noqa
                got = ("raises", type(e).__name__)
            here = set()
            for aname, fn in actions:
                try:
                    want = fn(v)
                except Exception:  # noqa
                    continue
                if type(want) is type(got) and want == got and (not isinstance(want, dict) or list(want) == list(got)):
                    here.add(aname)
            matching = here if matching is None else matching & here
        if len(matching) != 1:
            raise Unsupported("pack_obj on %s values returns something the model has no single action for (candidates %s), e.g. %r -> %r" % (
                cls.__name__, sorted(matching), values[0], got))
        f["dispatch"][cname] = matching.pop()

    # ---- markers
    D = RecordDescriptor("verif/obs", [("string", "s"), ("varint", "n")])
    r = D(s="x", n=1, _generated=ts)
    plain_keys = list(r._asdict())
    on = P(pack_descriptors=True).pack_obj(r)
    off = P(pack_descriptors=False).pack_obj(r)
    extra_on = [k for k in on if k not in plain_keys]
    extra_off = [k for k in off if k not in plain_keys]
    if list(on)[:len(plain_keys)] != plain_keys or list(off)[:len(plain_keys)] != plain_keys or len(extra_on) != 2:
        raise Unsupported("pack_obj(record) is not the slots in slot order followed by two markers: %r" % list(on))
    k1, k2 = extra_on
    if not (isinstance(on[k1], str) and tuple(on[k2]) == tuple(D.identifier)):
        raise Unsupported("pack_obj(record): markers are not <key>: <text>, <key>: identifier")
    f["type_key"], f["record_marker"], f["desc_key"] = k1, on[k1], k2
    if extra_off == []:
        f["markers_guarded"] = True
    elif extra_off == extra_on:
        f["markers_guarded"] = False
    else:
        raise Unsupported("pack_obj(record) with pack_descriptors=False adds %r" % extra_off)
    dd = P().pack_obj(D)
    if not (isinstance(dd, dict) and len(dd) == 2 and list(dd)[0] == k1 and isinstance(dd[k1], str)):
        raise Unsupported("pack_obj(descriptor) is not {type key: <text>, <key>: ...}")
    dk = list(dd)[1]
    if not (dd[dk][0] == D.name and [tuple(x) for x in dd[dk][1]] == [tuple(x) for x in D.get_field_tuples()]):
        raise Unsupported("pack_obj(descriptor): second member is not (name, fields)")
    f["descriptor_marker"], f["data_key"] = dd[k1], dk

    # ---- boolean cast: which declared types turn an int value into a JSON boolean
    f["bool_cast"] = []
    for name, kind in kinds:
        if kind not in ("KBool", "KInt", "KU16", "KU32"):
            continue
        B = RecordDescriptor("verif/obsb", [(name, "v")])
        res = [type(P().pack_obj(B(v=x, _generated=ts))["v"]) is bool for x in (0, 1)]
        if res[0] != res[1]:
            raise Unsupported("boolean cast of %s depends on the value" % name)
        if res[0]:
            f["bool_cast"].append(name)

    # ---- reader: what unpack does with a descriptor line and a record line
    def lines_for(desc, **members):
        w = P()
        dline = w.pack(desc)
        doc = json.loads(w.pack(desc(_generated=ts)))
        doc.update(members)
        return dline, json.dumps(doc)

    dline, rline = lines_for(D, s="x")
    rd = P()
    got = rd.unpack(dline)
    if not isinstance(got, RecordDescriptor) or got != D:
        raise Unsupported("unpack(descriptor line) does not give the descriptor")
    try:
        rec = rd.unpack(rline)
        f["reader_registers"], f["removes_markers"] = True, True
        if not (rec._desc == D and rec.s == "x" and rec.n is None):
            raise Unsupported("unpack(record line) gives %r" % (rec,))
    except RecordDescriptorNotFound:
        f["reader_registers"], f["removes_markers"] = False, True
    except TypeError:
        f["reader_registers"], f["removes_markers"] = True, False
    f["b64_scalar"], f["b64_list"] = [], []
    f["skip_none"] = True
    if f["reader_registers"] and f["removes_markers"]:
        for name, kind in kinds:
            for tname, member, want, acc in ((name, "YWI=", b"ab", f["b64_scalar"]), (name + "[]", ["YWI=", ""], [b"ab", b""], f["b64_list"])):
                Bd = RecordDescriptor("verif/obs64", [(tname, "v")])
                dl, rl = lines_for(Bd, v=member)
                rd = P()
                try:
                    rd.unpack(dl)
                    val = rd.unpack(rl).v
                except Exception:  # noqa
                    continue
                raw = bytes(val) if isinstance(val, bytes) else [bytes(x) for x in val] if isinstance(val, list) and all(isinstance(x, bytes) for x in val) else None
                if raw == want:
                    acc.append(tname)
            if kind == "KBytes":
                for tname in (name, name + "[]"):
                    Bd = RecordDescriptor("verif/obs64", [(tname, "v"), ("string", "s")])
                    dl, rl = lines_for(Bd, v=None, s="t")
                    rd = P()
                    rd.unpack(dl)
                    try:
                        rec = rd.unpack(rl)
                        if not (rec.s == "t" and (rec.v is None or rec.v == [])):
                            raise Unsupported("a null %s member reads as %r" % (tname, rec.v))
                    except TypeError:
                        f["skip_none"] = False

    # ---- registration guards: two descriptors sharing the whole identifier
    A = RecordDescriptor("verif/coll", [("string", "x"), ("varint", "stringy")])
    Bc = RecordDescriptor("verif/coll", [("string", "xstring"), ("varint", "y")])
    if A.identifier != Bc.identifier:
        raise Unsupported("the probe descriptors no longer share an identifier (descriptor hash input changed)")
    events = []
    pk = P()
    pk.on_descriptor.add_handler(events.append)
    pk.register(A, True)
    pk.register(Bc, True)
    pk.register(Bc, True)
    pk.register(A, True)
    if events == [A, Bc, A]:
        f["register_guard"] = True
    elif events == [A]:
        f["register_guard"] = False
    else:
        raise Unsupported("register: notifications %r" % events)
    events = []
    pk = P()
    pk.on_descriptor.add_handler(events.append)
    for d in (A, A, Bc, Bc, A):
        pk.pack_obj(d(_generated=ts))
    if events == [A, Bc, A]:
        f["pack_guard"] = True
    elif events == [A]:
        f["pack_guard"] = False
    else:
        raise Unsupported("pack_obj: descriptor notifications %r" % events)

    # ---- writer and reader of the adapter, on files
    tmp = _probe_dir()
    try:
        recs = [A(x="a", stringy=1, _generated=ts), Bc(xstring="b", y=2, _generated=ts), A(x="c", stringy=3, _generated=ts), A(x="d", _generated=ts)]
        for on_arg, is_on in ((True, True), ("true", True), ("1", True), (False, False), ("false", False), ("0", False)):
            path = os.path.join(tmp, "w.json")
            w = jsonfile.JsonfileWriter(path, descriptors=on_arg)
            for x in recs:
                w.write(x)
            w.flush()
            w.close()
            with open(path) as fh:
                docs = [json.loads(ln) for ln in fh.read().split("\n")[:-1]]
            kinds_seen = [d.get(f["type_key"]) for d in docs]
            rm, dm = f["record_marker"], f["descriptor_marker"]
            if f["pack_guard"] and f["register_guard"] and f["markers_guarded"]:
                want = [dm, rm, dm, rm, dm, rm, rm] if is_on else [None] * 4
                if kinds_seen != want:
                    raise Unsupported("JsonfileWriter(descriptors=%r) writes the document kinds %r, expected %r (descriptor document "
                                      "before the first record that needs it)" % (on_arg, kinds_seen, want))
        # plain documents: the fallback
        path = os.path.join(tmp, "plain.json")
        with open(path, "w") as fh:
            fh.write(json.dumps({"a": 1, "b": None, "c": [1], "d": {"k": 1}, "e": "t", "_source": "src", "_generated": ts.isoformat()}) + "\n")
            fh.write(json.dumps({"a": "now text"}) + "\n")
        rd = jsonfile.JsonfileReader(path)
        got = list(rd)
        rd.close()
        if len(got) != 2:
            raise Unsupported("JsonfileReader yields %d records for two plain documents" % len(got))
        g = got[0]
        names = [n for _, n in g._desc.get_field_tuples()]
        if names != ["a", "b", "c", "d", "e"] or g._source != "src" or g._generated != ts:
            raise Unsupported("plain-document fallback: fields %r, _source %r" % (names, g._source))
        types = dict((n, t) for t, n in g._desc.get_field_tuples())
        if not (types["b"] == types["c"] == types["d"]):
            raise Unsupported("plain-document fallback: null / list / dict members get different types")
        f["fallback_name"] = g._desc.name
        f["ftv_default"] = types["b"]
        if got[1]._desc.name != g._desc.name or got[1]._desc.get_field_tuples() != (("string", "a"),) and got[1].a != "now text":
            raise Unsupported("plain-document fallback: second document")
    finally:
        shutil.rmtree(tmp, ignore_errors=True)

    # ---- fieldtype_for_value on the classes json.loads produces (asked in several orders: it must be a function)
    ftv = fieldtypes.fieldtype_for_value
    sentinel = "verif-default"
    probes2 = [("str", "x"), ("str", ""), ("float", 1.0), ("float", 0.0), ("bool", True), ("bool", False), ("int", 1), ("int", 0),
               ("int", 2 ** 70), ("float", float("nan"))]
    seen = {}
    for order in (probes2, list(reversed(probes2)), probes2[4:] + probes2[:4]):
        for cname, v in order:
            t = ftv(v, sentinel)
            key = (cname, repr(v))
            if seen.setdefault(key, t) != t:
                raise Unsupported("fieldtype_for_value(%r) answers %r and %r depending on earlier calls" % (v, seen[key], t))
    per = {}
    for (cname, _), t in seen.items():
        if per.setdefault(cname, t) != t:
            raise Unsupported("fieldtype_for_value is not uniform on %s values" % cname)
        if t == sentinel:
            raise Unsupported("fieldtype_for_value has no answer for %s values" % cname)
    for v in (None, [1], {"k": 1}):
        if ftv(v, sentinel) != sentinel:
            raise Unsupported("fieldtype_for_value(%r) is not the default" % (v,))
    # bool first: a parsed true/false is an instance of bool AND int, and gets the type observed for bool
    f["ftv"] = [("str", per["str"]), ("float", per["float"]), ("bool", per["bool"]), ("int", per["int"])]
    return f


INDENT_SPELLINGS = ["2", "0", "02", "007", "10", " 2", "2 ", "  4  ", "\t2\n", "+2", "-1", "+0", "1_0", "1_0_0", "", " ", "abc", "2.0", "1e1",
                    "0x2", "+", "-", "- 1", "_1", "1_", "1__0", "2 2", "two", "\t", "None"]
DESCRIPTOR_SPELLINGS = ["true", "True", "TRUE", "1", "false", "False", "FALSE", "0", "", "yes", "no", "on", "off", " true", "2"]


def ctext_any(t: str) -> str:
    if all(32 <= ord(c) < 127 and c != '"' for c in t):
        return T(t)
    return "[" + "; ".join("%d%%N" % ord(c) for c in t) + "]"


def observe_options():
    """behavioural table of the writer options that arrive as text (constructor argument or URL query)"""
    import json
    import os
    import shutil

    from flow.record import RecordDescriptor
    from flow.record.adapter import jsonfile
    import datetime as pydt
    ts = pydt.datetime(2001, 2, 3, 4, 5, 6, 7, tzinfo=pydt.timezone.utc)
    D = RecordDescriptor("verif/opt", [("string", "s"), ("varint[]", "l")])
    r = D(s="x", l=[1, 2], _generated=ts)
    tmp = _probe_dir()
    path = os.path.join(tmp, "o.json")

    def text_for(**kw):
        w = jsonfile.JsonfileWriter(path, **kw)
        try:
            w.write(r)
            w.flush()
        finally:
            w.close()
        with open(path, newline="") as fh:
            return fh.read()
    try:
        plain = text_for()
        table = []
        for sp in INDENT_SPELLINGS:
            try:
                w = jsonfile.JsonfileWriter(path, indent=sp)
            except (ValueError, TypeError):
                table.append((sp, "IndRejected"))
                continue
            w.close()
            try:
                got = text_for(indent=sp)
            except Exception as e:  # noqa
                raise Unsupported("JsonfileWriter(indent=%r) is constructed but writing raises %s" % (sp, type(e).__name__))
            entry = None
            if got == plain:
                entry = "IndNone"
            else:
                try:
                    k = int(sp)
                except ValueError:
                    k = None
                if k is not None and got == text_for(indent=k):
                    entry = "(IndLevel (%d)%%Z)" % k
                else:
                    for k in range(0, 130):
                        if got == text_for(indent=k):
                            entry = "(IndLevel (%d)%%Z)" % k
                            break
            if entry is None:
                # the text inserted before the first member of the first document
                lines = got.split("\n")
                second = lines[1] if len(lines) > 1 else ""
                cut = second.find('"')
                entry = "(IndText %s)" % ctext_any(second[:cut] if cut >= 0 else second)
            table.append((sp, entry))
        dtable = []
        on_text = text_for(descriptors=True)
        off_text = text_for(descriptors=False)
        if on_text == off_text:
            raise Unsupported("descriptors=True and descriptors=False give the same output")
        for sp in DESCRIPTOR_SPELLINGS:
            got = text_for(descriptors=sp)
            if got == on_text:
                dtable.append((sp, True))
            elif got == off_text:
                dtable.append((sp, False))
            else:
                raise Unsupported("descriptors=%r gives neither the descriptors=True nor the descriptors=False output" % sp)
        for canon, want in (("true", True), ("false", False)):
            if dict(dtable)[canon] != want:
                raise Unsupported("descriptors=%r no longer means %r" % (canon, want))
        return table, dtable
    finally:
        shutil.rmtree(tmp, ignore_errors=True)


def _recognised():
    """the source recognisers, each on its own: (facts, notes)"""
    rec, notes = {}, []
    for fn in (packer_facts, adapter_facts, ftv_facts):
        try:
            part = {}
            res = fn() if fn is packer_facts else fn(part)
            rec.update(res)
        except Unsupported as e:
            notes.append("%s: %s" % (fn.__name__, " ".join(str(e).split())))
    return rec, notes


def _first_branch(branches, names):
    for cls, act in branches:
        if any(c in names for c in cls):
            return act
    return None


def _cross_check(obs, rec, supported_names):
    """a recognised source that contradicts the observed behaviour: fail closed"""
    bad = []
    for k in ("type_key", "desc_key", "data_key", "record_marker", "descriptor_marker", "markers_guarded", "skip_none",
              "pack_guard", "register_guard", "reader_registers", "removes_markers", "fallback_name", "ftv_default"):
        if k in rec and rec[k] != obs[k]:
            bad.append("%s: source %r, observed %r" % (k, rec[k], obs[k]))
    for k in ("bool_cast", "b64_scalar", "b64_list"):
        if k in rec and set(x for x in rec[k] if x in supported_names) != set(obs[k]):
            bad.append("%s: source %r, observed %r" % (k, rec[k], obs[k]))
    if "branches" in rec and "instances" in rec:
        inst = dict(rec["instances"])
        for cname, act in obs["dispatch"].items():
            src = _first_branch(rec["branches"], inst.get(cname, []))
            if src != act:
                bad.append("pack_obj %s: source %r, observed %r" % (cname, src, act))
    if "ftv" in rec:
        def src_ftv(classes):
            for c, t in rec["ftv"]:
                if c in classes:
                    return t
            return None
        for cname, classes in (("str", ["str"]), ("float", ["float"]), ("bool", ["bool", "int"]), ("int", ["int"])):
            if src_ftv(classes) != dict(obs["ftv"])[cname]:
                bad.append("fieldtype_for_value %s: source %r, observed %r" % (cname, src_ftv(classes), dict(obs["ftv"])[cname]))
    if bad:
        raise Unsupported("the source as recognised contradicts the observed behaviour: " + "; ".join(bad))


def gen_json():
    f = {}
    type_facts(f)
    supported = {n for n, _ in f["kinds"]} | {n + "[]" for n, _ in f["kinds"]}
    obs = observe(f["kinds"])
    rec, notes = _recognised()
    _cross_check(obs, rec, supported)
    f.update(obs)
    class_names = {"CDatetime": "flow.record.fieldtypes.datetime", "CDigest": "flow.record.fieldtypes.digest",
                   "CIpAddress": "flow.record.fieldtypes.net.ip.ipaddress", "CIpNetwork": "flow.record.fieldtypes.net.ip.ipnetwork",
                   "CBytes": "flow.record.fieldtypes.bytes", "CPath": "flow.record.fieldtypes.posix_path"}
    pair = lambda a, b: "(%s, %s)" % (a, b)  # noqa: E731
    out = HEADER
    out += "From Coq Require Import List Bool NArith ZArith String.\nImport ListNotations.\nFrom FR Require Import Json.\n"
    out += "Open Scope string_scope.\n\n"
    out += "(* JsonRecordPacker / JsonfileWriter / JsonfileReader / fieldtype_for_value as they BEHAVE now: every entry is\n"
    out += "   observed by running the real functions on probes (tools/vf/factgen/c14.py: observe); the source recognisers\n"
    out += "   are a cross-check that fails closed on contradiction *)\n"
    for n in notes:
        out += "(* note: shape not recognised, observed behaviour used -- %s *)\n" % n.replace("(*", "( *").replace("*)", "* )").replace('"', "'")
    out += "Definition json_cfg : jcfg := {|\n"
    out += "  (* pack_obj, per class of value handed to json.dumps(default=): one entry per class with the action observed *)\n"
    out += "  pack_branches := %s;\n" % clist(pair(clist([T(class_names[c])]), a) for c, a in f["dispatch"].items())
    out += "  instance_table := %s;\n" % clist(pair(c, clist([T(class_names[c])])) for c in f["dispatch"])
    out += "  type_key := %s; desc_key := %s; data_key := %s;\n" % (T(f["type_key"]), T(f["desc_key"]), T(f["data_key"]))
    out += "  record_marker := %s; descriptor_marker := %s;\n" % (T(f["record_marker"]), T(f["descriptor_marker"]))
    out += "  markers_guarded := %s;\n" % cbool(f["markers_guarded"])
    out += "  bool_cast_types := %s;\n" % clist(T(t) for t in f["bool_cast"])
    out += "  b64_scalar_types := %s;\n  b64_list_types := %s;\n" % (clist(T(t) for t in f["b64_scalar"]), clist(T(t) for t in f["b64_list"]))
    out += "  skip_none := %s;\n" % cbool(f["skip_none"])
    out += "  pack_guard_compares_desc := %s;\n  register_guard_compares_desc := %s;\n" % (cbool(f["pack_guard"]), cbool(f["register_guard"]))
    out += "  reader_registers := %s;\n  reader_removes_markers := %s;\n" % (cbool(f["reader_registers"]), cbool(f["removes_markers"]))
    out += "  fallback_name := %s;\n" % T(f["fallback_name"])
    out += "  ftv_branches := %s;\n  ftv_default := %s;\n" % (clist(pair(T(c), T(t)) for c, t in f["ftv"]), T(f["ftv_default"]))
    out += "  type_kinds := %s;\n" % clist(pair(T(n), k) for n, k in f["kinds"])
    out += "  reserved := %s;\n" % clist(pair(T(t), T(n)) for t, n in f["reserved"])
    out += "  version := %d%%Z;\n  version_key := %s; generated_key := %s;\n" % (f["version"], T("_version"), T("_generated"))
    out += "  py_keywords := %s;\n  kw_skip_defaults := %s |}.\n" % (clist(T(k) for k in f["keywords"]), cbool(f["kw_skip_defaults"]))
    itable, dtable = observe_options()
    out += "\n(* JsonfileWriter's text options as they BEHAVE now (observed): what an `indent` text becomes, which spellings of\n"
    out += "   `descriptors` switch the descriptor documents on *)\n"
    out += "Definition json_options : jopts := {|\n"
    out += "  indent_table := %s;\n" % clist(pair(ctext_any(sp), e) for sp, e in itable)
    out += "  descriptors_table := %s |}.\n" % clist(pair(ctext_any(sp), cbool(b)) for sp, b in dtable)
    write_if_changed(GEN / "Gen_json.v", out)


GENERATORS = [gen_json]
