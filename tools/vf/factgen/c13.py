"""C13 facts -> coq/gen/Gen_time.v   (timestamps: how each storage path writes / reads a datetime, who reads the
display-timezone setting).

Facts are OBSERVED: the real functions are run on a probe battery (pack_obj/unpack_obj on every tzinfo kind, the JSON
packer, db_insert_record + PRAGMA table_info + the reader's derived field type for a created and for an added column,
AvroReader on a plain-long file, datetime.__new__ on every input form under TZ=Asia/Kolkata), and the flow.record
functions that run per operation / per entry route are recorded with a profiler hook.  The `ast` recognisers are
cross-checks: recognised-and-contradicting -> Unsupported (fail closed); not recognised -> a note in Gen_time.v.
Only the display-setting mention set is static (ast over all of flow/record, with module-level names that carry the
setting followed to a fixpoint).
"""
from __future__ import annotations

import ast
import datetime as _pydt
import inspect
import json
import os
import shutil
import sys
import tempfile
import textwrap
from pathlib import Path

from vf.coqlit import cbool, clist, cstr, cZ
from vf.factlib import GEN, HEADER, Unsupported, write_if_changed

DISPLAY_NAMES = ("DISPLAY_TZINFO", "flow_record_tz")
DISPLAY_ENV = "FLOW_RECORD_TZ"
DT_FIELDS = ["year", "month", "day", "hour", "minute", "second", "microsecond"]


def _fn_ast(fn):
    node = ast.parse(textwrap.dedent(inspect.getsource(fn))).body[0]
    if not isinstance(node, (ast.FunctionDef,)):
        raise Unsupported("not a def: %r" % fn)
    return node


def _where(fn, node):
    return "%s line %d" % (fn.__qualname__, fn.__code__.co_firstlineno + getattr(node, "lineno", 1) - 1)


def _eval_in(module, node):
    """Value of a Name / dotted attribute expression in the module's globals (None when it cannot be resolved)."""
    try:
        return eval(compile(ast.Expression(node), "<fact>", "eval"), dict(vars(module)), {})
    except Exception:
        return None


def _is_isinstance(test, cls_ok, module):
    """isinstance(<name>, <expr>) where <expr> evaluates to something accepted by cls_ok -> the variable name."""
    if (isinstance(test, ast.Call) and isinstance(test.func, ast.Name) and test.func.id == "isinstance"
            and len(test.args) == 2 and not test.keywords and isinstance(test.args[0], ast.Name)):
        v = _eval_in(module, test.args[1])
        if v is not None and cls_ok(v):
            return test.args[0].id
    return None


def _attr_of(node, var, attr):
    return (isinstance(node, ast.Attribute) and node.attr == attr and isinstance(node.value, ast.Name)
            and node.value.id == var)


def _is_isoformat_call(node, var):
    """<var>.isoformat()  (default separator and timespec)"""
    if not (isinstance(node, ast.Call) and _attr_of(node.func, var, "isoformat")):
        return False
    if node.keywords:
        return False
    if len(node.args) == 0:
        return True
    return len(node.args) == 1 and isinstance(node.args[0], ast.Constant) and node.args[0].value == "T"


# ------------------------------------------------------------------------------------------ binary packer

def _payload_form(node, var, fn):
    if not isinstance(node, ast.Tuple):
        raise Unsupported("datetime payload is not a tuple display (%s)" % _where(fn, node))
    elts = node.elts
    if len(elts) == 1 and _is_isoformat_call(elts[0], var):
        return "FormIsoText"
    if len(elts) == 7 and all(_attr_of(e, var, f) for e, f in zip(elts, DT_FIELDS)):
        return "FormTuple7"
    if len(elts) == 2 and isinstance(elts[0], ast.Starred) and _attr_of(elts[1], var, "microsecond"):
        sub = elts[0].value
        if (isinstance(sub, ast.Subscript) and isinstance(sub.value, ast.Call) and not sub.value.args
                and not sub.value.keywords and _attr_of(sub.value.func, var, "timetuple")
                and isinstance(sub.slice, ast.Slice) and sub.slice.lower is None and sub.slice.step is None
                and isinstance(sub.slice.upper, ast.Constant) and sub.slice.upper.value == 6):
            return "FormTuple7"
    raise Unsupported("unrecognised datetime payload %s (%s)" % (ast.unparse(node), _where(fn, node)))


def _tz_test(node, var, module, fn):
    if isinstance(node, ast.Compare) and len(node.ops) == 1:
        l, r = node.left, node.comparators[0]
        if isinstance(node.ops[0], ast.Is) and _attr_of(l, var, "tzinfo") and isinstance(r, ast.Constant) and r.value is None:
            return "TzinfoIsNone"
        if isinstance(node.ops[0], ast.Eq):
            for a, b in ((l, r), (r, l)):
                if _attr_of(a, var, "tzinfo") and _eval_in(module, b) is _pydt.timezone.utc:
                    return "TzinfoEqUTC"
    raise Unsupported("unrecognised tzinfo test %s (%s)" % (ast.unparse(node), _where(fn, node)))


def packer_facts():
    import flow.record.packer as packer
    import flow.record.fieldtypes as ft
    fn = packer.RecordPacker.pack_obj
    node = _fn_ast(fn)
    branch = None
    for st in ast.walk(node):
        if isinstance(st, ast.If):
            var = _is_isinstance(st.test, lambda v: v is _pydt.datetime, packer)
            if var:
                branch = (st, var)
                break
    if branch is None:
        raise Unsupported("RecordPacker.pack_obj has no `isinstance(obj, datetime)` branch")
    st, var = branch
    if len(st.body) != 1 or not isinstance(st.body[0], ast.If) or len(st.body[0].orelse) != 1:
        raise Unsupported("datetime branch of pack_obj is not a single if/else (%s)" % _where(fn, st))
    inner = st.body[0]
    tests = inner.test.values if isinstance(inner.test, ast.BoolOp) and isinstance(inner.test.op, ast.Or) else [inner.test]
    tests = [_tz_test(t, var, packer, fn) for t in tests]

    def assigned_payload(stmts):
        if len(stmts) != 1 or not isinstance(stmts[0], ast.Assign) or len(stmts[0].targets) != 1:
            raise Unsupported("datetime branch arm is not a single assignment (%s)" % _where(fn, stmts[0]))
        val = stmts[0].value
        if not (isinstance(val, ast.Tuple) and len(val.elts) == 2 and isinstance(val.elts[0], ast.Name)
                and val.elts[0].id == "RECORD_PACK_TYPE_DATETIME"):
            raise Unsupported("datetime branch arm does not build (RECORD_PACK_TYPE_DATETIME, payload) (%s)" % _where(fn, val))
        return _payload_form(val.elts[1], var, fn)

    then_form = assigned_payload(inner.body)
    else_form = assigned_payload(inner.orelse)

    # unpack side: `if subtype == RECORD_PACK_TYPE_DATETIME: return fieldtypes.datetime(*value)`
    ufn = packer.RecordPacker.unpack_obj
    unode = _fn_ast(ufn)
    found = None
    for stu in unode.body:
        if (isinstance(stu, ast.If) and isinstance(stu.test, ast.Compare) and len(stu.test.ops) == 1
                and isinstance(stu.test.ops[0], ast.Eq)
                and any(isinstance(x, ast.Name) and x.id == "RECORD_PACK_TYPE_DATETIME"
                        for x in (stu.test.left, stu.test.comparators[0]))):
            found = stu
    if found is None:
        raise Unsupported("RecordPacker.unpack_obj has no RECORD_PACK_TYPE_DATETIME branch")
    ok = False
    if len(found.body) == 1 and isinstance(found.body[0], ast.Return) and isinstance(found.body[0].value, ast.Call):
        c = found.body[0].value
        if (_eval_in(packer, c.func) is ft.datetime and len(c.args) == 1 and isinstance(c.args[0], ast.Starred)
                and isinstance(c.args[0].value, ast.Name) and not c.keywords):
            ok = True
    if not ok:
        raise Unsupported("datetime branch of unpack_obj is not `return fieldtypes.datetime(*value)` (%s)" % _where(ufn, found))
    if not isinstance(packer.RECORD_PACK_TYPE_DATETIME, int):
        raise Unsupported("RECORD_PACK_TYPE_DATETIME is not an int")
    return tests, then_form, else_form, packer.RECORD_PACK_TYPE_DATETIME


# ------------------------------------------------------------------------------------------ JSON / SQLite

def json_form():
    import flow.record.jsonpacker as jp
    fn = jp.JsonRecordPacker.pack_obj
    node = _fn_ast(fn)
    for st in node.body:
        if isinstance(st, ast.If):
            var = _is_isinstance(st.test, lambda v: v is _pydt.datetime, jp)
            if not var:
                continue
            body = st.body
            if len(body) == 1 and isinstance(body[0], ast.Return) and _is_isoformat_call(body[0].value, var):
                return "FormIsoText"
            if (len(body) == 2 and isinstance(body[0], ast.Assign) and len(body[0].targets) == 1
                    and isinstance(body[0].targets[0], ast.Name) and _is_isoformat_call(body[0].value, var)
                    and isinstance(body[1], ast.Return) and isinstance(body[1].value, ast.Name)
                    and body[1].value.id == body[0].targets[0].id):
                return "FormIsoText"
            raise Unsupported("JsonRecordPacker.pack_obj datetime branch is not `return obj.isoformat()` (%s)" % _where(fn, st))
    raise Unsupported("JsonRecordPacker.pack_obj has no `isinstance(obj, datetime)` branch")


def sqlite_facts():
    import flow.record.adapter.sqlite as sq
    fn = sq.db_insert_record
    node = _fn_ast(fn)
    form = None
    for st in ast.walk(node):
        if isinstance(st, ast.If):
            var = _is_isinstance(st.test, lambda v: v is _pydt.datetime, sq)
            if not var:
                continue
            b = st.body
            if (len(b) == 1 and isinstance(b[0], ast.Assign) and len(b[0].targets) == 1
                    and isinstance(b[0].targets[0], ast.Name) and b[0].targets[0].id == var
                    and _is_isoformat_call(b[0].value, var)):
                form = "FormIsoText"
                break
            raise Unsupported("db_insert_record datetime branch is not `value = value.isoformat()` (%s)" % _where(fn, st))
    if form is None:
        raise Unsupported("db_insert_record has no `isinstance(value, datetime)` branch")
    col = sq.FIELD_MAP.get("datetime")
    if not isinstance(col, str):
        raise Unsupported("sqlite FIELD_MAP has no datetime entry")
    back = sq.SQLITE_FIELD_MAP.get(col)
    if not isinstance(back, str):
        raise Unsupported("SQLITE_FIELD_MAP has no entry for column type %r" % col)
    return form, col, back


def sqlite_column_facts():
    """What the writer DECLARES for a datetime field in create_descriptor_table and in update_descriptor_columns
    (`column_type = <map>.get(fieldset.typename, <default>)`), and what the reader makes of that declaration."""
    import flow.record.adapter.sqlite as sq
    out = {}
    for key, fn in (("create", sq.create_descriptor_table), ("alter", sq.update_descriptor_columns)):
        node = _fn_ast(fn)
        hits = []
        for st in ast.walk(node):
            if not (isinstance(st, ast.Assign) and isinstance(st.value, ast.Call)):
                continue
            c = st.value
            if (isinstance(c.func, ast.Attribute) and c.func.attr == "get" and len(c.args) == 2 and not c.keywords
                    and isinstance(c.args[0], ast.Attribute) and c.args[0].attr == "typename"
                    and isinstance(c.args[1], ast.Constant) and isinstance(c.args[1].value, str)):
                m = _eval_in(sq, c.func.value)
                if not isinstance(m, dict):
                    raise Unsupported("%s: column type is looked up in %s, not a dict" % (fn.__name__, ast.unparse(c.func.value)))
                hits.append((m, c.args[1].value))
        if len(hits) != 1:
            raise Unsupported("%s: expected exactly one `<map>.get(fieldset.typename, <default>)`, found %d" % (fn.__name__, len(hits)))
        m, default = hits[0]
        col = m.get("datetime", default)
        if not isinstance(col, str):
            raise Unsupported("%s: column type of a datetime field is %r" % (fn.__name__, col))
        # reader: ftype = SQLITE_FIELD_MAP.get(ftype, "string")
        rfn = sq.SqliteReader.read_table
        rnode = _fn_ast(rfn)
        rdefault = None
        for st in ast.walk(rnode):
            if (isinstance(st, ast.Assign) and isinstance(st.value, ast.Call) and isinstance(st.value.func, ast.Attribute)
                    and st.value.func.attr == "get" and _eval_in(sq, st.value.func.value) is sq.SQLITE_FIELD_MAP
                    and len(st.value.args) == 2 and isinstance(st.value.args[1], ast.Constant)):
                rdefault = st.value.args[1].value
        if not isinstance(rdefault, str):
            raise Unsupported("SqliteReader.read_table: no `SQLITE_FIELD_MAP.get(ftype, <default>)`")
        out[key] = (col, sq.SQLITE_FIELD_MAP.get(col, rdefault))
    return out


# ------------------------------------------------------------------------------------------ entry routes
# (shared with the check tools/vf/props/c13.py)

ROUTES = [("RCtorKw", "ctor_kw"), ("RCtorPos", "ctor_pos"), ("RSetattr", "setattr"), ("RReplace", "replace"),
          ("RGroupSetattr", "group_setattr"), ("RNestedGroupSetattr", "nested_group_setattr"), ("RGroupReplace", "group_replace"),
          ("RInitFromDict", "init_from_dict"), ("RInitFromRecord", "init_from_record"), ("RExtendRecord", "extend_record"),
          ("RListElem", "list_elem"), ("RListSetattr", "list_setattr")]
_G = _pydt.datetime(2020, 1, 1, tzinfo=_pydt.timezone.utc)


def route_descriptors():
    from flow.record import RecordDescriptor, fieldtypes
    global _G
    if not isinstance(_G, fieldtypes.datetime):
        # already of the field type: passing it as _generated runs no conversion, so the only conversion observed
        # on a route is the one of the timestamp that enters by that route
        _G = fieldtypes.datetime(_G)
    return dict(
        D=RecordDescriptor("verif/c13", [("varint", "i"), ("datetime", "ts")]),
        O=RecordDescriptor("verif/c13other", [("string", "note")]),
        O2=RecordDescriptor("verif/c13other2", [("string", "remark")]),
        L=RecordDescriptor("verif/c13list", [("varint", "i"), ("datetime[]", "tss")]),
        T=RecordDescriptor("verif/c13target", [("datetime", "ts"), ("varint", "i")]),
    )


def enter_route(route, inp, i, ds=None):
    """Put `inp` into a timestamp field by the given route.
    -> dict(value=<what the field holds>, record=<plain verif/c13 record or None>, grouped=<GroupedRecord or None>,
            listrec=<verif/c13list record or None>)"""
    from flow.record import GroupedRecord
    from flow.record.base import extend_record
    ds = ds or route_descriptors()
    D, O, O2, L, T = ds["D"], ds["O"], ds["O2"], ds["L"], ds["T"]
    res = dict(record=None, grouped=None, listrec=None)
    if route == "ctor_kw":
        r = D(i=i, ts=inp, _generated=_G)
    elif route == "ctor_pos":
        r = D(i, inp, None, None, _G)
    elif route == "setattr":
        r = D(i=i, _generated=_G)
        r.ts = inp
    elif route == "replace":
        r = D(i=i, _generated=_G)._replace(ts=inp)
    elif route in ("group_setattr", "nested_group_setattr", "group_replace"):
        r = D(i=i, _generated=_G)
        g = GroupedRecord("verif/c13group", [O(note="n", _generated=_G), r])
        top = g
        if route == "nested_group_setattr":
            top = GroupedRecord("verif/c13nest", [O2(remark="m", _generated=_G), g])
        if route == "group_replace":
            top = g._replace(ts=inp)
            r = top.records[1]
        else:
            top.ts = inp
        res["grouped"] = top
        res["value"] = top.ts
        res["member_value"] = r.ts
    elif route == "init_from_dict":
        r = D.init_from_dict({"i": i, "ts": inp, "_generated": _G, "unknown_key": 1})
    elif route == "init_from_record":
        src = T(ts=inp, i=i, _generated=_G)          # goes through the constructor once ...
        r = D.init_from_record(src)                   # ... and its field value through it again
    elif route == "extend_record":
        src = T(ts=inp, i=i, _generated=_G)
        x = extend_record(O(note="n", _generated=_G), [src])
        res["value"] = x.ts
        r = D.init_from_record(x)
        res["record"] = r
        return res
    elif route == "list_elem":
        lr = L(i=i, tss=[inp], _generated=_G)
        res["listrec"] = lr
        res["value"] = lr.tss[0]
        return res
    elif route == "list_setattr":
        lr = L(i=i, _generated=_G)
        lr.tss = [inp]
        res["listrec"] = lr
        res["value"] = lr.tss[0]
        return res
    else:
        raise ValueError(route)
    res["record"] = r
    res.setdefault("value", r.ts)
    return res


def route_functions():
    """For each entry route: the flow.record functions that run (profiler hook, warm run), for a naive object,
    an ISO text and an epoch number."""
    import flow.record as fr
    root = str(Path(fr.__file__).parent)
    ds = route_descriptors()
    inputs = [_pydt.datetime(2021, 10, 31, 2, 30), "2021-10-31T02:30:00+01:00", 1.5]
    res = {}
    for _, route in ROUTES:
        for x in inputs:
            enter_route(route, x, 1, ds)            # warm
        seen = set()

        def prof(frame, event, arg, seen=seen):
            if event == "call":
                co = frame.f_code
                if co.co_filename.startswith(root):
                    seen.add("%s:%s" % (co.co_filename[len(root) + 1:-3], co.co_qualname))
        common = None
        for x in inputs:
            seen.clear()
            sys.setprofile(prof)
            try:
                enter_route(route, x, 1, ds)
            finally:
                sys.setprofile(None)
            common = set(seen) if common is None else (common & seen)     # functions that run for EVERY input form
        res[route] = sorted(common)
    return res


# ------------------------------------------------------------------------------------------ Avro

def avro_facts():
    import flow.record.adapter.avro as av
    from flow.record import RecordDescriptor
    schema = av.descriptor_to_schema(RecordDescriptor("verif/c13", [("datetime", "ts")]))
    fld = [f for f in schema["fields"] if f["name"] == "ts"]
    if len(fld) != 1:
        raise Unsupported("avro schema has no field for the datetime column")
    t = fld[0]["type"]
    ts = [x for x in (t if isinstance(t, list) else [t]) if isinstance(x, dict) and x.get("type") != "null"]
    if len(ts) != 1 or not isinstance(ts[0].get("type"), str):
        raise Unsupported("avro datetime field type is %r" % (t,))
    base, logical = ts[0]["type"], ts[0].get("logicalType") or ""
    ep = av.EPOCH
    if ep.utcoffset() is None:
        raise Unsupported("avro EPOCH is naive")
    epoch_micros = (ep - _pydt.datetime(1970, 1, 1, tzinfo=_pydt.timezone.utc)) // _pydt.timedelta(microseconds=1)
    epoch_off = ep.utcoffset() // _pydt.timedelta(microseconds=1)
    # reader guard
    fn = av.AvroReader.__iter__
    node = _fn_ast(fn)
    hit = None
    for st in ast.walk(node):
        if isinstance(st, ast.If) and isinstance(st.test, ast.BoolOp) and isinstance(st.test.op, ast.And) and len(st.test.values) == 2:
            var = _is_isinstance(st.test.values[0], lambda v: v == (int, float) or v == (float, int), av)
            cmpn = st.test.values[1]
            if (var and isinstance(cmpn, ast.Compare) and len(cmpn.ops) == 1 and isinstance(cmpn.ops[0], ast.Gt)
                    and isinstance(cmpn.left, ast.Name) and cmpn.left.id == var
                    and isinstance(cmpn.comparators[0], ast.Constant) and type(cmpn.comparators[0].value) is int):
                hit = (st, var, cmpn.comparators[0].value)
    if hit is None:
        raise Unsupported("AvroReader.__iter__: no `isinstance(value, (int, float)) and value > <const>` guard")
    st, var, guard = hit
    unit = None
    if len(st.body) == 1 and isinstance(st.body[0], ast.Assign) and isinstance(st.body[0].value, ast.BinOp) \
            and isinstance(st.body[0].value.op, ast.Add):
        bo = st.body[0].value
        for a, b in ((bo.left, bo.right), (bo.right, bo.left)):
            if (_eval_in(av, a) is av.EPOCH and isinstance(b, ast.Call) and _eval_in(av, b.func) is _pydt.timedelta
                    and not b.args and len(b.keywords) == 1 and isinstance(b.keywords[0].value, ast.Name)
                    and b.keywords[0].value.id == var):
                unit = b.keywords[0].arg
    if unit is None:
        raise Unsupported("AvroReader.__iter__: guarded conversion is not `EPOCH + timedelta(<unit>=value)` (%s)" % _where(fn, st))
    return base, logical, epoch_micros, epoch_off, guard, unit


# ------------------------------------------------------------------------------------------ datetime.__new__

def new_facts():
    import flow.record.fieldtypes as ft
    fn = ft.datetime.__new__
    node = _fn_ast(fn)
    body = [s for s in node.body if not (isinstance(s, ast.Expr) and isinstance(s.value, ast.Constant))]
    # tail: `if obj.tzinfo is None: obj = obj.replace(tzinfo=UTC)` ; `return obj`
    if len(body) != 3 or not isinstance(body[0], ast.If) or not isinstance(body[1], ast.If) or not isinstance(body[2], ast.Return):
        raise Unsupported("datetime.__new__ is not `if one-argument: ... else: ...; if naive: ...; return obj`")
    ret = body[2].value
    if not isinstance(ret, ast.Name):
        raise Unsupported("datetime.__new__ does not return a plain name")
    res = ret.id
    nv = body[1]
    ok = (isinstance(nv.test, ast.Compare) and len(nv.test.ops) == 1 and isinstance(nv.test.ops[0], ast.Is)
          and _attr_of(nv.test.left, res, "tzinfo") and isinstance(nv.test.comparators[0], ast.Constant)
          and nv.test.comparators[0].value is None and not nv.orelse and len(nv.body) == 1
          and isinstance(nv.body[0], ast.Assign) and len(nv.body[0].targets) == 1
          and isinstance(nv.body[0].targets[0], ast.Name) and nv.body[0].targets[0].id == res)
    naive_rule = None
    if ok:
        c = nv.body[0].value
        if (isinstance(c, ast.Call) and _attr_of(c.func, res, "replace") and not c.args and len(c.keywords) == 1
                and c.keywords[0].arg == "tzinfo" and _eval_in(ft, c.keywords[0].value) is _pydt.timezone.utc):
            naive_rule = "replace(tzinfo=UTC)"
    if naive_rule is None:
        raise Unsupported("datetime.__new__: naive results are not handled by `obj = obj.replace(tzinfo=UTC)` (%s)" % _where(fn, nv))

    top = body[0]
    # else arm: obj = _dt.__new__(cls, *args, **kwargs)
    if not (len(top.orelse) == 1 and ast.unparse(top.orelse[0]) == "%s = _dt.__new__(cls, *args, **kwargs)" % res
            and ft._dt is _pydt.datetime):
        raise Unsupported("datetime.__new__: field-wise construction is not `_dt.__new__(cls, *args, **kwargs)`")
    # one-argument arm: arg = args[0]; bytes->str; if str ... elif number ... elif datetime ...
    chain = [s for s in top.body if isinstance(s, ast.If)]
    arms = {}
    argname = None
    for s in top.body:
        if isinstance(s, ast.Assign) and ast.unparse(s.value) == "args[0]" and isinstance(s.targets[0], ast.Name):
            argname = s.targets[0].id
    if argname is None:
        raise Unsupported("datetime.__new__: `arg = args[0]` not found")
    cur = chain[-1] if chain else None
    while cur is not None:
        v = _eval_in(ft, cur.test.args[1]) if (isinstance(cur.test, ast.Call) and len(cur.test.args) == 2) else None
        if _is_isinstance(cur.test, lambda x: True, ft) != argname:
            raise Unsupported("datetime.__new__: unrecognised dispatch test %s" % ast.unparse(cur.test))
        if v is str:
            arms["text"] = cur.body
        elif v == (int, float):
            arms["epoch"] = cur.body
        elif v == (_pydt.datetime,) or v is _pydt.datetime:
            arms["object"] = cur.body
        else:
            raise Unsupported("datetime.__new__: unrecognised dispatch class %s" % ast.unparse(cur.test))
        if len(cur.orelse) == 1 and isinstance(cur.orelse[0], ast.If):
            cur = cur.orelse[0]
        elif not cur.orelse:
            cur = None
        else:
            raise Unsupported("datetime.__new__: dispatch chain has a trailing else")
    for k in ("text", "epoch", "object"):
        if k not in arms:
            raise Unsupported("datetime.__new__: no %s branch" % k)
    # text: [if not PY_311_OR_HIGHER: <legacy>]; obj = cls.fromisoformat(arg)
    tb = arms["text"]
    if not (ast.unparse(tb[-1]) == "%s = cls.fromisoformat(%s)" % (res, argname)):
        raise Unsupported("datetime.__new__: text branch does not end in `obj = cls.fromisoformat(arg)`")
    for s in tb[:-1]:
        if isinstance(s, ast.If) and ast.unparse(s.test) == "not PY_311_OR_HIGHER" and ft.PY_311_OR_HIGHER is True and not s.orelse:
            continue   # legacy normalisation, dead on this interpreter
        raise Unsupported("datetime.__new__: text branch rewrites the text before fromisoformat (%s)" % _where(fn, s))
    # epoch: obj = cls.fromtimestamp(arg, UTC)
    eb = arms["epoch"]
    okep = False
    if len(eb) == 1 and isinstance(eb[0], ast.Assign) and isinstance(eb[0].value, ast.Call):
        c = eb[0].value
        if ast.unparse(c.func) == "cls.fromtimestamp" and len(c.args) >= 1 and ast.unparse(c.args[0]) == argname:
            tz = c.args[1] if len(c.args) == 2 else (c.keywords[0].value if len(c.keywords) == 1 and c.keywords[0].arg == "tz" else None)
            if tz is not None and _eval_in(ft, tz) is _pydt.timezone.utc and len(c.args) + len(c.keywords) == 2:
                okep = True
    if not okep:
        raise Unsupported("datetime.__new__: epoch branch is not `obj = cls.fromtimestamp(arg, UTC)`")
    # object: tzinfo = arg.tzinfo or UTC ; obj = _dt.__new__(cls, arg.year, ..., arg.microsecond, tzinfo[, fold=arg.fold])
    ob = arms["object"]
    if len(ob) != 2 or not all(isinstance(s, ast.Assign) for s in ob):
        raise Unsupported("datetime.__new__: object branch is not two assignments")
    tzs, mk = ob
    tzname = tzs.targets[0].id if isinstance(tzs.targets[0], ast.Name) else None
    tzv = tzs.value
    if not (tzname and isinstance(tzv, ast.BoolOp) and isinstance(tzv.op, ast.Or) and len(tzv.values) == 2
            and _attr_of(tzv.values[0], argname, "tzinfo") and _eval_in(ft, tzv.values[1]) is _pydt.timezone.utc):
        raise Unsupported("datetime.__new__: object branch does not take `arg.tzinfo or UTC`")
    c = mk.value
    if not (isinstance(c, ast.Call) and ast.unparse(c.func) == "_dt.__new__" and len(c.args) == 9
            and ast.unparse(c.args[0]) == "cls" and all(_attr_of(a, argname, f) for a, f in zip(c.args[1:8], DT_FIELDS))
            and isinstance(c.args[8], ast.Name) and c.args[8].id == tzname):
        raise Unsupported("datetime.__new__: object branch does not rebuild from the seven fields and tzinfo")
    passes = list(DT_FIELDS) + ["tzinfo"]
    for kw in c.keywords:
        if kw.arg == "fold" and _attr_of(kw.value, argname, "fold"):
            passes.append("fold")
        else:
            raise Unsupported("datetime.__new__: object branch passes an unrecognised keyword %s" % ast.unparse(kw))
    cls = ft.datetime
    defines = sorted(n for n, v in vars(cls).items() if callable(v) or isinstance(v, (staticmethod, classmethod)))
    # _pack returns the value itself; __hash__ defers to the stdlib
    if ast.unparse(_fn_ast(cls._pack).body[-1]) != "return self":
        raise Unsupported("datetime._pack is not `return self`")
    return passes, naive_rule, defines


def fromiso_probe():
    """Does the text reader the field type uses (cls.fromisoformat) keep a UTC offset of less than one second?
    CPython's C implementation answers UTC for any offset whose whole seconds are zero."""
    import flow.record.fieldtypes as ft
    us = _pydt.timedelta(microseconds=1)

    def off(text):
        return ft.datetime.fromisoformat(text).utcoffset() // us
    exact = [("2000-01-01T00:00:00+00:00:01.000001", 1000001), ("2000-01-01T00:00:00-00:00:01", -1000000),
             ("2000-01-01T00:00:00-23:59:59.999999", -86399999999), ("2000-01-01T00:00:00+00:00", 0)]
    for t, want in exact:
        if off(t) != want:
            raise Unsupported("fromisoformat(%r) has offset %r microseconds" % (t, off(t)))
    sub = [("2000-01-01T00:00:00+00:00:00.000001", 1), ("2000-01-01T00:00:00-00:00:00.000001", -1),
           ("2000-01-01T00:00:00+00:00:00.999999", 999999), ("2000-01-01T00:00:00-00:00:00.500000", -500000)]
    got = [off(t) for t, _ in sub]
    if got == [w for _, w in sub]:
        return False
    if got == [0, 0, 0, 0]:
        return True
    raise Unsupported("fromisoformat reads sub-second offsets as %r" % (got,))


# ------------------------------------------------------------------------------------------ construction forms
# (shared with the check)  Every way to BUILD a timestamp with a datetime class C other than C(<one argument>):
# run once with the field type and once with the standard class; the field type's value must be the standard value
# with "naive means UTC" applied.

def construction_forms(C, wall, tz, fold, base):
    """-> [(name, thunk)].  `base` is the value (wall, tz, fold) as an instance of C (for the instance methods)."""
    td = _pydt.timedelta
    y, m, d, h, mi, sc, us = wall
    date, naive_time = _pydt.date(y, m, d), _pydt.time(h, mi, sc, us, fold=fold)
    forms = []
    if tz is None:
        forms.append(("pos7", lambda: C(*wall)))
        forms.append(("pos3_kw_rest", lambda: C(y, m, d, hour=h, minute=mi, second=sc, microsecond=us)))
    forms += [
        ("pos8", lambda: C(*wall, tz)),
        ("kw_tzinfo", lambda: C(*wall, tzinfo=tz, fold=fold)),
        ("all_kw", lambda: C(year=y, month=m, day=d, hour=h, minute=mi, second=sc, microsecond=us, tzinfo=tz, fold=fold)),
        ("combine", lambda: C.combine(date, _pydt.time(h, mi, sc, us, tzinfo=tz, fold=fold))),
        ("combine_tzarg", lambda: C.combine(date, naive_time, tz)),
        ("fromisoformat", lambda: C.fromisoformat(_pydt.datetime(*wall, tzinfo=tz, fold=fold).isoformat())),
        ("replace_tzinfo_none", lambda: base.replace(tzinfo=None)),
        ("replace_tzinfo_utc", lambda: base.replace(tzinfo=_pydt.timezone.utc)),
        ("replace_tzinfo_offset", lambda: base.replace(tzinfo=_pydt.timezone(td(hours=-7)))),
        ("replace_field", lambda: base.replace(microsecond=(us + 1) % 1000000)),
        ("add_zero", lambda: base + td(0)),
        ("sub_microsecond", lambda: base - td(microseconds=1)),
    ]
    if tz is None or isinstance(tz, _pydt.timezone):
        text = _pydt.datetime(*wall, tzinfo=tz).isoformat(timespec="microseconds")
        fmt = "%Y-%m-%dT%H:%M:%S.%f" + ("%z" if tz is not None else "")
        forms.append(("strptime", lambda: C.strptime(text, fmt)))
    if tz is not None:
        forms.append(("astimezone", lambda: base.astimezone(_pydt.timezone(td(hours=5, minutes=30)))))
    if (h, mi, sc, us) == (0, 0, 0, 0) and tz is None:
        forms.append(("fromordinal", lambda: C.fromordinal(date.toordinal())))
    return forms


def epoch_forms(C, x):
    import warnings
    td = _pydt.timedelta

    def quiet(f):
        def g():
            with warnings.catch_warnings():
                warnings.simplefilter("ignore")
                return f()
        return g
    return [("fromtimestamp_local", lambda: C.fromtimestamp(x)),
            ("fromtimestamp_utc", lambda: C.fromtimestamp(x, _pydt.timezone.utc)),
            ("fromtimestamp_offset", lambda: C.fromtimestamp(x, _pydt.timezone(td(hours=-3, minutes=-30)))),
            ("fromtimestamp_tzkw", lambda: C.fromtimestamp(x, tz=_pydt.timezone(td(seconds=1)))),
            ("utcfromtimestamp", quiet(lambda: C.utcfromtimestamp(x)))]


def now_forms(C):
    import warnings

    def quiet(f):
        def g():
            with warnings.catch_warnings():
                warnings.simplefilter("ignore")
                return f()
        return g
    return [("now", C.now), ("today", C.today), ("utcnow", quiet(C.utcnow)), ("now_utc", lambda: C.now(_pydt.timezone.utc)),
            ("now_offset", lambda: C.now(_pydt.timezone(_pydt.timedelta(hours=9))))]


class _PlainSub(_pydt.datetime):
    """A datetime subclass that adds nothing: the reference for what the interpreter's constructors, classmethods and
    instance methods give for a SUBCLASS (e.g. CPython 3.12's combine() does not pass fold on to a subclass) - the
    field type must give that value with `naive means UTC` applied, nothing else."""


def run_forms(wall, tz, fold):
    """-> [(name, field-type value or ('EXC', text), expected observation)]; forms the reference class refuses are skipped"""
    import flow.record.fieldtypes as ft
    std_base = _PlainSub(*wall, tzinfo=tz, fold=fold)
    ft_base = ft.datetime(_pydt.datetime(*wall, tzinfo=tz, fold=fold))
    out = []
    std = dict(construction_forms(_PlainSub, wall, tz, fold, std_base))
    for name, thunk in construction_forms(ft.datetime, wall, tz, fold, ft_base):
        try:
            r0 = std[name]()
            o0 = _obs(r0)
        except Exception:  # noqa
            continue
        want = o0[:7] + (0 if o0[7] is None else o0[7],)
        try:
            got = thunk()
        except Exception as e:  # noqa
            got = ("EXC", "%s: %s" % (type(e).__name__, e))
        out.append((name, got, want))
    return out


def run_epoch_forms(x):
    import flow.record.fieldtypes as ft
    out = []
    std = dict(epoch_forms(_PlainSub, x))
    for name, thunk in epoch_forms(ft.datetime, x):
        try:
            o0 = _obs(std[name]())
        except Exception:  # noqa
            continue
        want = o0[:7] + (0 if o0[7] is None else o0[7],)
        try:
            got = thunk()
        except Exception as e:  # noqa
            got = ("EXC", "%s: %s" % (type(e).__name__, e))
        out.append((name, got, want))
    return out


REPLACE_NONE_FORM = "replace_tzinfo_none"

# ------------------------------------------------------------------------------------------ ISO text battery
# (shared with the check)  Every spelling datetime.fromisoformat accepts, and digit-only texts that it refuses.
# Reference for a text = the standard datetime.fromisoformat on the same text, naive => UTC; a text the reference
# refuses must be refused by the field type too (never read as something else, e.g. an epoch number).

def iso_reference(text):
    """-> observation (wall, offset with naive => 0) or None when the standard reader refuses the text"""
    try:
        r = _pydt.datetime.fromisoformat(text)
    except (ValueError, TypeError):
        return None
    o = _obs(r)
    return o[:7] + (0 if o[7] is None else o[7],)


def iso_spellings(wall, off, rnd=None, limit=None):
    """spellings of (wall clock, offset in microseconds or None) in the formats fromisoformat knows.  Some spellings
    drop information (a shorter fraction, HH:MM only): the reference decides what each text means."""
    y, m, d, h, mi, sc, us = wall
    dates = ["%04d-%02d-%02d" % (y, m, d), "%04d%02d%02d" % (y, m, d)]
    try:
        iy, iw, idow = _pydt.date(y, m, d).isocalendar()
        if 1 <= iy <= 9999:
            dates += ["%04d-W%02d-%d" % (iy, iw, idow), "%04dW%02d%d" % (iy, iw, idow)]
    except ValueError:
        pass
    fr = "%06d" % us
    fracs = [""] if us == 0 else []
    fracs += ["." + fr, "," + fr] + ["." + fr[:k] for k in (1, 2, 3, 4, 5)] + ["." + fr + "789"]
    times = []
    for f in fracs:
        times += ["%02d:%02d:%02d%s" % (h, mi, sc, f), "%02d%02d%02d%s" % (h, mi, sc, f)]
    times += ["%02d:%02d" % (h, mi), "%02d%02d" % (h, mi), "%02d" % h]
    offs = [""]
    if off is not None:
        a = abs(off)
        sg = "-" if off < 0 else "+"
        hh, mm, ss, uu = a // 3600000000, a // 60000000 % 60, a // 1000000 % 60, a % 1000000
        offs = ["%s%02d:%02d" % (sg, hh, mm), "%s%02d%02d" % (sg, hh, mm), "%s%02d" % (sg, hh)]
        if ss or uu:
            offs += ["%s%02d:%02d:%02d" % (sg, hh, mm, ss), "%s%02d%02d%02d" % (sg, hh, mm, ss)]
        if uu:
            offs += ["%s%02d:%02d:%02d.%06d" % (sg, hh, mm, ss, uu), "%s%02d%02d%02d.%06d" % (sg, hh, mm, ss, uu)]
        if off == 0:
            offs += ["Z", "z"]
    seps = ["T", " ", "t", "_"]
    out = list(dates)                       # date only
    combos = [(dt, sp, tm, of) for dt in dates for sp in seps for tm in times for of in offs]
    if rnd is not None and limit is not None and len(combos) > limit:
        combos = rnd.sample(combos, limit)
    out += [dt + sp + tm + of for dt, sp, tm, of in combos]
    return out


DIGIT_TEXTS = ["1", "12", "123", "1234", "12345", "123456", "1234567", "12345678", "123456789", "1234567890", "12345678901",
               "123456789012", "1234567890123", "12345678901234", "0", "00000000", "20240229", "19691231", "00010101", "99991231",
               "19700101", "20230229", "20241301", "1700000000", "17000000001", "4294967296", "20240229101112", "2024022910",
               "000101", "202402", "0001", "9999"]


def iso_probe_texts():
    """the fixed battery used for the observed fact about the text branch of datetime.__new__"""
    import random
    rnd = random.Random(13)
    texts = list(DIGIT_TEXTS)
    for wall, off in (((2024, 2, 29, 10, 11, 12, 123456), None), ((2024, 2, 29, 0, 0, 0, 0), 0), ((1969, 12, 31, 23, 59, 59, 999999), -1000000),
                      ((1, 1, 1, 0, 0, 0, 0), 19800000000), ((9999, 12, 31, 23, 59, 59, 0), -(4 * 3600 + 56 * 60 + 2) * 1000000),
                      ((2021, 1, 3, 5, 0, 0, 500000), 3600000000 + 1500000), ((2020, 12, 31, 12, 30, 0, 0), None)):
        texts += iso_spellings(wall, off, rnd, 40)
    seen = set()
    return [t for t in texts if not (t in seen or seen.add(t))]


def iso_text_agrees(ft_datetime, text, as_bytes):
    """None when the field type reads `text` as the reference does (same value, or both refuse), else a description"""
    want = iso_reference(text)
    try:
        got = _obs(ft_datetime(text.encode() if as_bytes else text))
    except Exception as e:  # noqa
        got = None
        err = "%s: %s" % (type(e).__name__, e)
    if want is None and got is None:
        return None
    if want is None:
        return "%r is not ISO text (the standard reader refuses it) but is read as %r" % (text, got)
    if got is None:
        return "%r means %r but is refused (%s)" % (text, want, err)
    if got != want:
        return "%r means %r but is read as %r" % (text, want, got)
    return None

# ------------------------------------------------------------------------------------------ OBSERVED facts
# Each fact below is derived from what the real functions DO on purpose-built probes.  The ast recognisers above are
# kept as cross-checks only: recognised-and-contradicting -> Unsupported; not recognised -> a note in the generated file.

def _probe_tzinfos():
    from zoneinfo import ZoneInfo
    td = _pydt.timedelta
    return dict(
        KEqUTC=[_pydt.timezone.utc, _pydt.timezone(td(0), "GMT")],
        KOther=[ZoneInfo("UTC"), _pydt.timezone(td(hours=1)), _pydt.timezone(td(seconds=-1)), _pydt.timezone(td(microseconds=1)),
                _pydt.timezone(td(hours=5, minutes=45)), _pydt.timezone(td(hours=23, minutes=59, seconds=59, microseconds=999999)),
                _pydt.timezone(-td(hours=23, minutes=59, seconds=59, microseconds=999999)), ZoneInfo("Europe/Amsterdam"),
                ZoneInfo("America/New_York")],
    )


_PROBE_WALLS = [(2021, 10, 31, 2, 30, 0, 0), (1969, 12, 31, 23, 59, 59, 999999), (1, 1, 2, 0, 0, 0, 1), (9999, 12, 30, 23, 59, 59, 0)]


def _probe_values():
    """[(tz_kind, stdlib datetime)]"""
    tzs = _probe_tzinfos()
    out = []
    for w in _PROBE_WALLS:
        out.append(("KNaive", _pydt.datetime(*w)))
        for k in ("KEqUTC", "KOther"):
            for tz in tzs[k]:
                for fold in (0, 1):
                    out.append((k, _pydt.datetime(*w, tzinfo=tz, fold=fold)))
    return out


def _obs(d):
    off = d.utcoffset()
    return (d.year, d.month, d.day, d.hour, d.minute, d.second, d.microsecond,
            None if off is None else off // _pydt.timedelta(microseconds=1))


def observe_packer():
    """Run RecordPacker.pack_obj on the probe battery: which tzinfo kinds are packed as the 7 fields, which as
    isoformat text; unpack gives the field type's value of the payload."""
    import flow.record.fieldtypes as ft
    import flow.record.packer as packer
    pk = packer.RecordPacker()
    forms = {}
    for kind, v in _probe_values():
        for val in ([v] if kind == "KNaive" else [v, ft.datetime(v)]):
            ext = pk.pack_obj(val)
            sub, payload = pk.unpack(ext.data)
            if sub != packer.RECORD_PACK_TYPE_DATETIME:
                raise Unsupported("pack_obj(%r) has subtype %r" % (val, sub))
            payload = tuple(payload)
            if payload == (val.year, val.month, val.day, val.hour, val.minute, val.second, val.microsecond):
                form = "FormTuple7"
            elif len(payload) == 1 and payload[0] == val.isoformat():
                form = "FormIsoText"
            else:
                raise Unsupported("pack_obj(%r) carries %r: neither the seven fields nor isoformat()" % (val, payload))
            forms.setdefault(kind, set()).add(form)
            back = pk.unpack_obj(ext.code, ext.data)
            want = ft.datetime(*payload)
            if type(back) is not ft.datetime or _obs(back) != _obs(want):
                raise Unsupported("unpack_obj of %r gives %r, fieldtypes.datetime(*payload) gives %r" % (payload, back, want))
    for k, fs in forms.items():
        if len(fs) != 1:
            raise Unsupported("pack_obj stores timestamps of tzinfo kind %s in different forms (%s)" % (k, sorted(fs)))
    f = {k: next(iter(v)) for k, v in forms.items()}
    else_form = f["KOther"]
    then_form = "FormTuple7" if else_form == "FormIsoText" else "FormIsoText"
    tests = [t for t, k in (("TzinfoIsNone", "KNaive"), ("TzinfoEqUTC", "KEqUTC")) if f[k] == then_form]
    return tests, then_form, else_form, packer.RECORD_PACK_TYPE_DATETIME


def observe_json_form():
    import flow.record.fieldtypes as ft
    from flow.record.jsonpacker import JsonRecordPacker
    jp = JsonRecordPacker()
    for kind, v in _probe_values():
        val = ft.datetime(v)
        got = jp.pack_obj(val)
        if got != val.isoformat():
            raise Unsupported("JsonRecordPacker.pack_obj(%r) is %r, isoformat() is %r" % (val, got, val.isoformat()))
    return "FormIsoText"


def observe_sqlite(tmp):
    """What db_insert_record stores for a timestamp (raw cell), what column type a datetime field gets when the
    table is created with it and when the column is added later, and what field type the reader derives."""
    import sqlite3

    import flow.record.adapter.sqlite as sq
    from flow.record import RecordDescriptor, RecordReader
    import flow.record.fieldtypes as ft
    Small = RecordDescriptor("verif/c13probe", [("varint", "i")])
    Large = RecordDescriptor("verif/c13probe", [("varint", "i"), ("datetime", "ts")])
    res = {}
    for key in ("create", "alter"):
        path = str(tmp / ("probe_%s.sqlite" % key))
        con = sqlite3.connect(path, isolation_level=None)
        if key == "create":
            sq.create_descriptor_table(con, Large)
            sq.update_descriptor_columns(con, Large)
        else:
            sq.create_descriptor_table(con, Small)
            sq.update_descriptor_columns(con, Small)
            sq.db_insert_record(con, Small(i=-1, _generated=_G))
            sq.create_descriptor_table(con, Large)
            sq.update_descriptor_columns(con, Large)
        vals = [ft.datetime(v) for _, v in _probe_values()]
        con.execute("BEGIN")
        for n, v in enumerate(vals):
            sq.db_insert_record(con, Large(i=n, ts=v, _generated=_G))
        con.execute("COMMIT")
        cols = {row[1]: row[2] for row in con.execute('PRAGMA table_info("verif/c13probe")')}
        raw = dict(con.execute('SELECT i, ts FROM "verif/c13probe" WHERE i >= 0'))
        con.close()
        for n, v in enumerate(vals):
            if raw.get(n) != v.isoformat():
                raise Unsupported("db_insert_record stores %r for %r, isoformat() is %r" % (raw.get(n), v, v.isoformat()))
        rd = RecordReader("sqlite://" + path)
        kinds = {x._desc.fields["ts"].typename for x in rd}
        rd.close()
        if len(kinds) != 1 or not isinstance(cols.get("ts"), str):
            raise Unsupported("sqlite probe (%s): column %r, field types %r" % (key, cols.get("ts"), kinds))
        res[key] = (cols["ts"], next(iter(kinds)))
    return "FormIsoText", res


def observe_avro(tmp):
    """schema of a datetime field (live), EPOCH, and the reader's treatment of a plain long (no logical type)"""
    import fastavro

    import flow.record.adapter.avro as av
    from flow.record import RecordDescriptor, RecordReader
    D = RecordDescriptor("verif/c13", [("varint", "i"), ("datetime", "ts")])
    schema = av.descriptor_to_schema(D)
    fld = [f for f in schema["fields"] if f["name"] == "ts"]
    t = fld[0]["type"] if len(fld) == 1 else None
    ts = [x for x in (t if isinstance(t, list) else [t]) if isinstance(x, dict) and x.get("type") != "null"]
    if len(ts) != 1 or not isinstance(ts[0].get("type"), str):
        raise Unsupported("avro datetime field type is %r" % (t,))
    base, logical = ts[0]["type"], ts[0].get("logicalType") or ""
    ep = av.EPOCH
    if ep.utcoffset() is None:
        raise Unsupported("avro EPOCH is naive")
    us = _pydt.timedelta(microseconds=1)
    e0 = _pydt.datetime(1970, 1, 1, tzinfo=_pydt.timezone.utc)
    epoch_micros, epoch_off = (ep - e0) // us, ep.utcoffset() // us
    # legacy file: plain long
    guard = 0xFFFFFFFF
    vals = [guard, guard + 1, 10 ** 12, 1609459200123456, 86400 * 10 ** 6 * 365]
    raw = {"type": "record", "namespace": "verif", "name": "c13", "doc": json.dumps(D._pack()),
           "fields": [{"name": "i", "type": ["long", "null"]}, {"name": "ts", "type": ["long", "null"]}]}
    path = str(tmp / "legacy.avro")
    with open(path, "wb") as fp:
        fastavro.writer(fp, fastavro.parse_schema(raw), [{"i": k, "ts": v} for k, v in enumerate(vals)])
    got = {}
    try:
        rd = RecordReader(path)
        for x in rd:
            got[int(x.i)] = x.ts
        rd.close()
    except Exception as e:  # noqa
        got["error"] = e
    unit = None
    for name, mult in (("microseconds", 1), ("milliseconds", 1000), ("seconds", 10 ** 6)):
        try:
            if all(k in got and (got[k] - e0) // us == vals[k] * mult + epoch_micros for k in range(1, len(vals))):
                unit = name
        except Exception:  # noqa
            pass
    if unit is None:
        return base, logical, epoch_micros, epoch_off, None, None
    # at the guard itself the number is taken as epoch seconds
    if 0 in got and (got[0] - e0) // us == guard * 10 ** 6:
        return base, logical, epoch_micros, epoch_off, guard, unit
    return base, logical, epoch_micros, epoch_off, None, unit


def observe_new():
    """What datetime.__new__ does with each input form; naive objects / epoch numbers probed under a non-UTC local
    time zone (TZ=Asia/Kolkata via time.tzset) so that a local-time conversion would show."""
    import time

    import flow.record.fieldtypes as ft
    from zoneinfo import ZoneInfo
    us = _pydt.timedelta(microseconds=1)
    old = os.environ.get("TZ")
    os.environ["TZ"] = "Asia/Kolkata"
    time.tzset()
    try:
        # object input
        keeps = {"wall": True, "tzinfo": True, "fold": True, "naive_utc": True}
        for kind, v in _probe_values():
            r = ft.datetime(v)
            if type(r) is not ft.datetime:
                raise Unsupported("fieldtypes.datetime(%r) is a %s" % (v, type(r).__name__))
            if _obs(r)[:7] != _obs(v)[:7]:
                keeps["wall"] = False
            if kind == "KNaive":
                if r.utcoffset() != _pydt.timedelta(0) or _obs(r)[:7] != _obs(v)[:7]:
                    keeps["naive_utc"] = False
            else:
                if r.tzinfo is not v.tzinfo and r.tzinfo != v.tzinfo:
                    keeps["tzinfo"] = False
                if r.utcoffset() != v.utcoffset():
                    keeps["fold"] = False
        # fold must really have been exercised: a wall time that occurs twice
        amb = _pydt.datetime(2021, 10, 31, 2, 30, tzinfo=ZoneInfo("Europe/Amsterdam"), fold=1)
        if amb.utcoffset() == amb.replace(fold=0).utcoffset():
            raise Unsupported("zoneinfo gives one offset for both folds of 2021-10-31 02:30 Europe/Amsterdam")
        if ft.datetime(amb).utcoffset() != amb.utcoffset():
            keeps["fold"] = False
        # field-wise construction (what unpacking a 7-tuple uses) and every other way to build a value of the field
        # type: positional with 7 / 8 arguments, tzinfo keyword (None, UTC, offsets), combine, strptime, fromisoformat,
        # replace, arithmetic, fromtimestamp with and without tz, utcfromtimestamp, now
        fw = ft.datetime(2021, 10, 31, 2, 30, 0, 5)
        if _obs(fw) != (2021, 10, 31, 2, 30, 0, 5, 0):
            keeps["naive_utc"] = False
        bypass = None
        tzs = _probe_tzinfos()
        for w in _PROBE_WALLS + [(2021, 7, 29, 0, 0, 0, 0)]:
            for tz in [None] + tzs["KEqUTC"][:1] + tzs["KOther"]:
                for fold in (0, 1):
                    for name, got, want in run_forms(w, tz, fold):
                        naive = isinstance(got, _pydt.datetime) and got.tzinfo is None
                        if name == REPLACE_NONE_FORM:
                            # recorded separately as well (pre-fix witness: CPython <= 3.12 builds the result in C)
                            b = type(got) is ft.datetime and naive
                            if bypass is None:
                                bypass = b
                            elif bypass != b:
                                raise Unsupported("replace(tzinfo=None) sometimes yields a naive value and sometimes not")
                        if not isinstance(got, _pydt.datetime) or (type(got) is ft.datetime and _obs(got) != want) or \
                                (naive and type(got) is ft.datetime):
                            keeps["naive_utc"] = False
                            keeps.setdefault("first_bad", "%s%r tz=%r -> %r" % (name, w, tz, got))
        for x in (0, 1.5, -1, 1700000000):
            for name, got, want in run_epoch_forms(x):
                if not isinstance(got, _pydt.datetime) or (type(got) is ft.datetime and _obs(got) != want):
                    keeps["naive_utc"] = False
                    keeps.setdefault("first_bad", "%s(%r) -> %r" % (name, x, got))
        for name, thunk in now_forms(ft.datetime):
            got = thunk()
            if type(got) is not ft.datetime or got.tzinfo is None:
                keeps["naive_utc"] = False
                keeps.setdefault("first_bad", "%s() -> %r" % (name, got))
        if bypass is None:
            raise Unsupported("replace(tzinfo=None) could not be probed")
        # epoch numbers
        epoch_ok = True
        for n, want in ((0, (1970, 1, 1, 0, 0, 0, 0, 0)), (1.5, (1970, 1, 1, 0, 0, 1, 500000, 0)), (-1, (1969, 12, 31, 23, 59, 59, 0, 0)),
                        (1700000000, (2023, 11, 14, 22, 13, 20, 0, 0))):
            try:
                if _obs(ft.datetime(n)) != want:
                    epoch_ok = False
            except Exception:  # noqa
                epoch_ok = False
        # ISO text
        text_ok = True
        for t in ("2021-10-31T02:30:00", "2021-10-31T02:30:00.000001+01:00", "0001-01-02 03:04:05-04:56:02", "2021-10-31T02:30:00Z",
                  "1969-12-31T23:59:59.999999-00:00:01"):
            std = _pydt.datetime.fromisoformat(t)
            want = _obs(std)[:7] + ((std.utcoffset() or _pydt.timedelta(0)) // us,)
            for arg in (t, t.encode()):
                try:
                    if _obs(ft.datetime(arg)) != want:
                        text_ok = False
                except Exception:  # noqa
                    text_ok = False
        # every spelling fromisoformat knows (basic and week dates, basic times, comma, short fractions, Z / +HHMM / +HH,
        # any separator) and digit-only texts: same value as the standard reader, or refused like it - as str and bytes
        for t in iso_probe_texts():
            for as_bytes in (False, True):
                if iso_text_agrees(ft.datetime, t, as_bytes) is not None:
                    text_ok = False
    finally:
        if old is None:
            os.environ.pop("TZ", None)
        else:
            os.environ["TZ"] = old
        time.tzset()
    if not (keeps["wall"] and keeps["tzinfo"]):
        raise Unsupported("fieldtypes.datetime(<datetime object>) does not keep the wall clock fields / tzinfo: %r" % keeps)
    passes = list(DT_FIELDS) + ["tzinfo"] + (["fold"] if keeps["fold"] else [])
    naive_rule = "replace(tzinfo=UTC)" if keeps["naive_utc"] else "naive values are not given UTC with the same wall clock"
    epoch_rule = "cls.fromtimestamp(arg, UTC)" if epoch_ok else "epoch numbers are not converted as UTC instants"
    text_rule = "cls.fromisoformat(arg)" if text_ok else "text is not read as fromisoformat reads it"
    cls = ft.datetime
    defines = sorted(n for n, v in vars(cls).items() if callable(v) or isinstance(v, (staticmethod, classmethod)))
    v = ft.datetime(2020, 1, 1)
    if v._pack() is not v:
        raise Unsupported("datetime._pack() does not return the value itself")
    return passes, naive_rule, epoch_rule, text_rule, defines, bypass


def _cross(notes, what, ast_fn, same):
    """ast recogniser as a cross-check of an observed fact"""
    try:
        got = ast_fn()
    except Unsupported as e:
        notes.append("%s: source shape not recognised (%s); observed behaviour used" % (what, str(e)[:160]))
        return
    except Exception as e:  # noqa
        notes.append("%s: recogniser failed (%s: %s); observed behaviour used" % (what, type(e).__name__, str(e)[:120]))
        return
    if not same(got):
        raise Unsupported("%s: the source as recognised (%r) contradicts the observed behaviour" % (what, got))


# ------------------------------------------------------------------------------------------ display setting

_TAINTED = set(DISPLAY_NAMES)      # names that carry the display setting (grown by display_readers)


def _mentions_here(n):
    """does this single AST node (not its children) name the display setting?"""
    if isinstance(n, ast.Name) and n.id in _TAINTED:
        return True
    if isinstance(n, ast.Attribute) and n.attr in _TAINTED:
        return True
    if isinstance(n, ast.alias) and (n.name in _TAINTED or (n.asname or "") in _TAINTED):
        return True
    if isinstance(n, ast.Constant) and isinstance(n.value, str) and (DISPLAY_ENV in n.value or n.value in _TAINTED):
        return True
    return False


def _grow_tainted(trees):
    """module-level names assigned from something that names the setting (a constant holding the variable's name, the
    zone object computed from it, ...) carry the setting too: to a fixpoint"""
    changed = True
    while changed:
        changed = False
        for tree in trees:
            for st in tree.body:
                targets = []
                if isinstance(st, ast.Assign):
                    targets, val = st.targets, st.value
                elif isinstance(st, ast.AnnAssign) and st.value is not None:
                    targets, val = [st.target], st.value
                else:
                    continue
                if any(_mentions_here(n) for n in ast.walk(val)):
                    for t in targets:
                        if isinstance(t, ast.Name) and t.id not in _TAINTED:
                            _TAINTED.add(t.id)
                            changed = True


def _scan_scope(stmts, qual, prefix, mod, out):
    """One code object (module or function `qual`): does ITS code mention the setting?  Nested defs are scanned as
    their own code objects (named like co_qualname); class bodies and lambdas count for the enclosing scope."""
    mention = False
    stack = [(s, prefix) for s in stmts]
    while stack:
        n, pref = stack.pop()
        if isinstance(n, (ast.FunctionDef, ast.AsyncFunctionDef)):
            q = pref + n.name
            outer = list(n.decorator_list) + list(n.args.defaults) + [x for x in n.args.kw_defaults if x is not None]
            stack.extend((x, pref) for x in outer)
            _scan_scope(n.body, q, q + ".<locals>.", mod, out)
        elif isinstance(n, ast.ClassDef):
            stack.extend((x, pref) for x in list(n.decorator_list) + list(n.bases) + [k.value for k in n.keywords])
            stack.extend((x, pref + n.name + ".") for x in n.body)
        else:
            if _mentions_here(n):
                mention = True
            stack.extend((c, pref) for c in ast.iter_child_nodes(n))
    if mention:
        out.append("%s:%s" % (mod, qual))


def display_readers():
    """module:qualname of every function under flow/record whose own code mentions the display setting;
    `<module>` stands for module-level statements."""
    import flow.record as fr
    root = Path(fr.__file__).parent
    out = []
    trees = []
    for p in sorted(root.rglob("*.py")):
        mod = str(p.relative_to(root))[:-3]
        try:
            trees.append((mod, ast.parse(p.read_text())))
        except SyntaxError as e:
            raise Unsupported("cannot parse %s: %s" % (p, e))
    _TAINTED.clear()
    _TAINTED.update(DISPLAY_NAMES)
    _grow_tainted([t for _, t in trees])
    for mod, tree in trees:
        _scan_scope(tree.body, "<module>", "", mod, out)
    return sorted(set(out))


def op_functions():
    """For each operation on a timestamp: the flow.record functions that run (profiler hook, warm run)."""
    import flow.record as fr
    from flow.record import RecordDescriptor, RecordReader, RecordWriter
    from flow.record import fieldtypes as ft
    from zoneinfo import ZoneInfo
    root = str(Path(fr.__file__).parent)
    work = Path(os.environ.get("VERIF_FACT_TMP") or "/verif/.work")
    work.mkdir(parents=True, exist_ok=True)
    tmp = Path(tempfile.mkdtemp(prefix="factgen_c13.", dir=str(work)))
    try:
        D = RecordDescriptor("verif/c13", [("datetime", "a"), ("datetime", "b"), ("datetime", "c")])
        G = _pydt.datetime(2020, 1, 1, tzinfo=_pydt.timezone.utc)
        mk = lambda: D(a=_pydt.datetime(2021, 10, 31, 2, 30, tzinfo=ZoneInfo("Europe/Amsterdam"), fold=1),  # noqa: E731
                       b=_pydt.datetime(1969, 12, 31, 23, 59, 59, 999999, tzinfo=_pydt.timezone.utc),
                       c=_pydt.datetime(2000, 2, 29, 12, 0), _generated=G)
        r, r2 = mk(), mk()
        paths = {"Stream": str(tmp / "x.records"), "Json": str(tmp / "x.jsonl"), "Sqlite": "sqlite://" + str(tmp / "x.sqlite"),
                 "Avro": str(tmp / "x.avro")}

        def write(k):
            def f():
                p = paths[k].replace("sqlite://", "")
                if os.path.exists(p):
                    os.unlink(p)
                w = RecordWriter(paths[k])
                w.write(r)
                w.flush()
                w.close()
            return f

        def read(k):
            def f():
                rd = RecordReader(paths[k])
                got = list(rd)
                rd.close()
                assert len(got) == 1
            return f

        ops = [
            ("OpNew", lambda: (ft.datetime(r.a), ft.datetime("2021-10-31T02:30:00+01:00"), ft.datetime(0), ft.datetime(1.5),
                               ft.datetime(2020, 1, 1), ft.datetime(_pydt.datetime(2020, 1, 1)))),
            ("OpPack", lambda: (r._pack(), r.a._pack())),
            ("OpEq", lambda: (r == r2, r != r2, r.a == r2.a, r.a < r2.b, r.b <= r2.c)),
            ("OpHash", lambda: (hash(r), hash(r.a))),
            ("OpStr", lambda: (str(r.a), "{}".format(r.b))),
            ("OpRepr", lambda: (repr(r.a), repr(r))),
        ]
        for k in ("Stream", "Json", "Sqlite", "Avro"):
            ops.append(("OpWrite" + k, write(k)))
            ops.append(("OpRead" + k, read(k)))
        for _, f in ops:      # warm run: imports, caches
            f()
        res = {}
        for name, f in ops:
            seen = set()

            def prof(frame, event, arg, seen=seen):
                if event == "call":
                    co = frame.f_code
                    fnm = co.co_filename
                    if fnm.startswith(root):
                        seen.add("%s:%s" % (fnm[len(root) + 1:-3], co.co_qualname))
            sys.setprofile(prof)
            try:
                f()
            finally:
                sys.setprofile(None)
            res[name] = sorted(seen)
        return res
    finally:
        shutil.rmtree(tmp, ignore_errors=True)


OPS_ORDER = ["OpStr", "OpRepr", "OpPack", "OpEq", "OpHash", "OpNew", "OpWriteStream", "OpWriteJson", "OpWriteSqlite",
             "OpWriteAvro", "OpReadStream", "OpReadJson", "OpReadSqlite", "OpReadAvro"]


def gen_time():
    if not hasattr(gen_time.__code__, "co_qualname"):
        raise Unsupported("interpreter lacks co_qualname")
    notes = []
    work = Path(os.environ.get("VERIF_FACT_TMP") or "/verif/.work")
    work.mkdir(parents=True, exist_ok=True)
    tmp = Path(tempfile.mkdtemp(prefix="factgen_c13obs.", dir=str(work)))
    try:
        route_descriptors()
        tests, then_form, else_form, pack_type = observe_packer()
        _cross(notes, "RecordPacker.pack_obj/unpack_obj", packer_facts,
               lambda g: (set(g[0]), g[1], g[2], g[3]) == (set(tests), then_form, else_form, pack_type)
               or (then_form == g[2] and else_form == g[1]))
        jform = observe_json_form()
        _cross(notes, "JsonRecordPacker.pack_obj", json_form, lambda g: g == jform)
        sform, scols = observe_sqlite(tmp)
        scol, sback = scols["create"]
        _cross(notes, "db_insert_record", sqlite_facts, lambda g: g == (sform, scol, sback))
        _cross(notes, "create_descriptor_table/update_descriptor_columns", sqlite_column_facts, lambda g: g == scols)
        abase, alogical, aepoch, aepoch_off, aguard, aunit = observe_avro(tmp)
        if aguard is None or aunit is None:
            # behaviour at the expected boundary is not conclusive: the source has to say it
            g = avro_facts()
            if aunit is not None and g[5] != aunit:
                raise Unsupported("AvroReader: observed unit %r, source says %r" % (aunit, g[5]))
            aguard, aunit = g[4], g[5]
            notes.append("AvroReader guard: taken from the source (observation at 0xFFFFFFFF not conclusive)")
        else:
            _cross(notes, "AvroReader.__iter__", avro_facts, lambda g: g == (abase, alogical, aepoch, aepoch_off, aguard, aunit))
        passes, naive_rule, epoch_rule, text_rule, defines, bypass = observe_new()
        # (the observed naive rule covers every construction form, the recogniser only the tail of __new__: not compared)
        _cross(notes, "datetime.__new__", new_facts, lambda g: ("fold" in g[0]) == ("fold" in passes))
    finally:
        shutil.rmtree(tmp, ignore_errors=True)
    routes = route_functions()
    quirk = fromiso_probe()
    readers = display_readers()
    opf = op_functions()
    out = HEADER
    for n_ in notes:
        out += "(* note: %s *)\n" % n_.replace("(*", "( *").replace("*)", "* )")
    out += "From Coq Require Import List ZArith String.\nImport ListNotations.\nFrom FR Require Import IsoTime.\nOpen Scope string_scope.\n\n"
    out += "(* packer.py: RecordPacker.pack_obj, datetime branch: `if <tests joined by or>: <then> else: <else>` *)\n"
    out += "Definition gen_pack_rule : pack_rule :=\n  {| pr_tests := %s; pr_then := %s; pr_else := %s |}.\n" % (clist(tests), then_form, else_form)
    out += "Definition gen_record_pack_type_datetime : Z := %s.\n" % cZ(pack_type)
    out += "(* RecordPacker.unpack_obj: the datetime branch returns fieldtypes.datetime applied to the unpacked tuple *)\n"
    out += "Definition gen_unpack_datetime : string := \"fieldtypes.datetime applied to the unpacked tuple\".\n\n"
    out += "(* jsonpacker.py / adapter/sqlite.py: how a datetime is written *)\n"
    out += "Definition gen_json_datetime_form : pk_form := %s.\n" % jform
    out += "Definition gen_sqlite_datetime_form : pk_form := %s.\n" % sform
    out += "Definition gen_sqlite_column_type : string := %s.\n" % cstr(scol)
    out += "Definition gen_sqlite_column_reads_as : string := %s.\n\n" % cstr(sback)
    out += "(* create_descriptor_table / update_descriptor_columns: declared column type of a datetime field, and the field type\n"
    out += "   SqliteReader.read_table derives from that declaration *)\n"
    out += "Definition gen_sqlite_create_column_type : string := %s.\n" % cstr(scols["create"][0])
    out += "Definition gen_sqlite_create_reads_as : string := %s.\n" % cstr(scols["create"][1])
    out += "Definition gen_sqlite_alter_column_type : string := %s.\n" % cstr(scols["alter"][0])
    out += "Definition gen_sqlite_alter_reads_as : string := %s.\n\n" % cstr(scols["alter"][1])
    out += "(* adapter/avro.py: schema of a datetime field, EPOCH, the reader's guard *)\n"
    out += "Definition gen_avro_base_type : string := %s.\n" % cstr(abase)
    out += "Definition gen_avro_logical_type : string := %s.\n" % cstr(alogical)
    out += "Definition gen_avro_epoch_micros : Z := %s.\n" % cZ(aepoch)
    out += "Definition gen_avro_epoch_offset : Z := %s.\n" % cZ(aepoch_off)
    out += "Definition gen_avro_guard : Z := %s.\n" % cZ(aguard)
    out += "Definition gen_avro_guard_unit : string := %s.\n\n" % cstr(aunit)
    out += "(* fieldtypes/__init__.py: datetime.__new__ *)\n"
    out += "Definition gen_new_obj_passes : list string := %s.\n" % clist([cstr(x) for x in passes])
    out += "Definition gen_new_keeps_fold : bool := %s.\n" % cbool("fold" in passes)
    out += "Definition gen_new_naive_rule : string := %s.\n" % cstr(naive_rule)
    out += "Definition gen_new_text_rule : string := %s.\n" % cstr(text_rule)
    out += "Definition gen_new_epoch_rule : string := %s.\n" % cstr(epoch_rule)
    out += "(* probe: does replace(tzinfo=None) on a value of the field type yield a NAIVE value of the field type?  (it did before\n"
    out += "   the field type overrode replace(): CPython <= 3.12 builds the result in C without calling datetime.__new__) *)\n"
    out += "Definition gen_replace_none_bypasses_constructor : bool := %s.\n" % cbool(bypass)
    out += "(* probe of cls.fromisoformat on this interpreter: an offset of less than one second is read as UTC *)\n"
    out += "Definition gen_fromiso_drops_subsecond_offset : bool := %s.\n" % cbool(quirk)
    out += "Definition gen_datetime_class_defines : list string := %s.\n\n" % clist([cstr(x) for x in defines])
    out += "(* every function under flow/record whose code mentions DISPLAY_TZINFO / flow_record_tz / FLOW_RECORD_TZ *)\n"
    out += "Definition gen_display_readers : list string :=\n  %s.\n\n" % clist([cstr(x) for x in readers])
    out += "(* flow.record functions that run for each operation on a record with timestamp fields (profiler hook) *)\n"
    out += "Definition gen_op_functions (o : dt_op) : list string :=\n  match o with\n"
    for name in OPS_ORDER:
        out += "  | %s =>\n      %s\n" % (name, clist([cstr(x) for x in opf[name]], sep=";\n       "))
    out += "  end.\n"
    out += "\n(* flow.record functions that run, for every input form, when a timestamp enters a record by each route (profiler hook) *)\n"
    out += "Definition gen_route_functions (r : entry_route) : list string :=\n  match r with\n"
    for cname, route in ROUTES:
        out += "  | %s =>\n      %s\n" % (cname, clist([cstr(x) for x in routes[route]], sep=";\n       "))
    out += "  end.\n"
    write_if_changed(GEN / "Gen_time.v", out)


GENERATORS = [gen_time]
