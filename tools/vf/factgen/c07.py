"""C07 facts: coq/gen/Gen_selsem.v.

Re-read from /repo's working tree on every run (fail closed with `Unsupported`):

* AST_OPERATORS as (ast node kind -> operator.<name>) table (source shape cross-checked against the live dict);
* the branches of RecordContextMatcher._eval, by `ast`: the dispatch ORDER of node kinds, the final
  `raise TypeError(node)`, and -- after alpha-renaming of local variables and removal of docstrings -- the exact
  shape of the branches the model in coq/model/SelSem.v transcribes:
    - Compare: the loop over ALL (op, comparator) pairs  -> compare_is_chained = true;
               the pre-repair shape (first pair only)     -> compare_is_chained = false;
    - GeneratorExp: `gen.ifs` evaluated for every value   -> comprehension_ifs_honoured = true;
               the pre-repair shape (ifs never looked at) -> false;
    - BoolOp (every operand evaluated, NoneType TypeError swallowed, bool(), folded with AST_OPERATORS[type(op)]),
      BinOp (NoneObject guard), UnaryOp, Attribute, Name, Call, Constant/List/Tuple, comprehension: one accepted shape each;
* the names `matches` places in `self.data` (live: a matcher is run on a probe record), which of them are callable,
  FUNCTION_WHITELIST names, the signatures of the modelled helper functions;
* WHITELIST and the roots of WHITELIST_TREE.
"""
from __future__ import annotations

import ast
import inspect
import operator as _operator
import textwrap
from pathlib import Path

from vf.coqlit import cbool, clist, copt, cpair, cstr
from vf.factlib import GEN, HEADER, Unsupported, write_if_changed


# ---------------------------------------------------------------------------------------------
# normalisation of a statement list: drop docstrings, alpha-rename every locally bound name

def _strip_docstrings(stmts):
    out = []
    for i, s in enumerate(stmts):
        if i == 0 and isinstance(s, ast.Expr) and isinstance(s.value, ast.Constant) and isinstance(s.value.value, str):
            continue
        out.append(s)
    return out


class _Norm(ast.NodeTransformer):
    """Alpha-renaming of the names a code fragment binds, in the order the bindings are met when the statements are
    read top to bottom: assignment / with / except targets get a number when first bound; the target of a `for`
    statement or of a comprehension clause gets a NEW number every time (it is re-bound before every read in its
    body), so re-using or not re-using a loop variable's name in a later loop does not matter.  Names the fragment
    does not bind (self, node, module globals) are left alone."""

    def __init__(self):
        self.map = {}
        self.n = 0

    def _fresh(self, name):
        self.map[name] = "v%d" % self.n
        self.n += 1
        return self.map[name]

    def _bind_target(self, t, fresh):
        for n in ast.walk(t):
            if isinstance(n, ast.Name) and isinstance(n.ctx, ast.Store):
                if fresh or n.id not in self.map:
                    self._fresh(n.id)

    def visit_Name(self, n):
        if isinstance(n.ctx, ast.Store) and n.id not in self.map:
            self._fresh(n.id)
        if n.id in self.map:
            return ast.copy_location(ast.Name(id=self.map[n.id], ctx=n.ctx), n)
        return n

    def visit_Assign(self, n):
        n.value = self.visit(n.value)
        n.targets = [self.visit(t) for t in n.targets]
        return n

    def visit_AugAssign(self, n):
        n.value = self.visit(n.value)
        n.target = self.visit(n.target)
        return n

    def visit_For(self, n):
        n.iter = self.visit(n.iter)
        self._bind_target(n.target, fresh=True)
        n.target = self.visit(n.target)
        n.body = [self.visit(x) for x in n.body]
        n.orelse = [self.visit(x) for x in n.orelse]
        return n

    def _comp(self, n, parts):
        for c in n.generators:
            c.iter = self.visit(c.iter)
            self._bind_target(c.target, fresh=True)
            c.target = self.visit(c.target)
            c.ifs = [self.visit(x) for x in c.ifs]
        for p in parts:
            setattr(n, p, self.visit(getattr(n, p)))
        return n

    def visit_GeneratorExp(self, n):
        return self._comp(n, ["elt"])

    def visit_ListComp(self, n):
        return self._comp(n, ["elt"])

    def visit_SetComp(self, n):
        return self._comp(n, ["elt"])

    def visit_DictComp(self, n):
        return self._comp(n, ["key", "value"])

    def visit_ExceptHandler(self, n):
        if n.type is not None:
            n.type = self.visit(n.type)
        if n.name:
            n.name = self._fresh(n.name)
        n.body = [self.visit(x) for x in n.body]
        return n

    def visit_FunctionDef(self, n):
        n.name = self.map[n.name] if n.name in self.map else self._fresh(n.name)
        n.args.defaults = [self.visit(x) for x in n.args.defaults]
        for a in n.args.args:
            a.arg = self._fresh(a.arg)
        n.body = [self.visit(x) for x in _strip_docstrings(n.body)]
        return n


def normal_form(stmts) -> str:
    import copy
    stmts = _strip_docstrings([copy.deepcopy(x) for x in stmts])
    nz = _Norm()
    # nested functions may call each other (and themselves) before their `def` is met: bind their names first
    for st in stmts:
        if isinstance(st, ast.FunctionDef):
            nz._fresh(st.name)
    mod = ast.Module(body=[nz.visit(x) for x in stmts], type_ignores=[])
    return ast.dump(mod, annotate_fields=False, include_attributes=False)


def _ref(src: str) -> str:
    fn = ast.parse("def _f(self, node):\n" + textwrap.indent(textwrap.dedent(src).strip("\n"), "    ")).body[0]
    return normal_form(fn.body)


# ---------------------------------------------------------------------------------------------
# accepted shapes (source text of the branch bodies; compared modulo local names / docstrings / comments)

REF = {}
REF["Constant"] = [("ok", "return node.value")]
REF["List"] = [("ok", "return list(map(self.eval, node.elts))")]
REF["Tuple"] = [("ok", "return tuple(map(self.eval, node.elts))")]
REF["Name"] = [("ok", """
if node.id not in self.data:
    return getattr(dynamic_fieldtype, node.id)

return self.data[node.id]
""")]
REF["Attribute"] = [("ok", """
if node.attr.startswith("__"):
    raise InvalidOperation(
        "Selector {!r} contains invalid attribute: {!r}".format(self.expression_str, node.attr)
    )

obj = self.eval(node.value)

return getattr(obj, node.attr, NONE_OBJECT)
""")]
REF["BoolOp"] = [("ok", """
values = []
for expr in node.values:
    try:
        value = self.eval(expr)
    except TypeError as e:
        if "NoneType" in str(e):
            value = False
        else:
            raise
    value = bool(value)
    values.append(value)
result = values.pop(0)
for value in values:
    result = AST_OPERATORS[type(node.op)](result, value)
return result
""")]
REF["BinOp"] = [
    ("lookup_first", """
op = AST_OPERATORS[type(node.op)]
left = self.eval(node.left)
right = self.eval(node.right)
if isinstance(left, NoneObject) or isinstance(right, NoneObject):
    return False
return op(left, right)
"""),
    ("lookup_last", """
left = self.eval(node.left)
right = self.eval(node.right)
if isinstance(left, NoneObject) or isinstance(right, NoneObject):
    return False
return AST_OPERATORS[type(node.op)](left, right)
"""),
]
REF["UnaryOp"] = [("ok", "return AST_OPERATORS[type(node.op)](self.eval(node.operand))")]
REF["Compare"] = [
    ("chained", """
left = self.eval(node.left)
result = True
for op, comparator in zip(node.ops, node.comparators):
    right = self.eval(comparator)
    comptype = type(op)
    comp = AST_COMPARATORS[comptype]
    if comptype in (ast.In, ast.NotIn) and isinstance(left, TypeMatcherInstance):
        result = any(comp(v, right) for v in left._values())
    else:
        result = comp(left, right)
    if not result:
        return result
    left = right
return result
"""),
    ("first_link_only", """
left = self.eval(node.left)
right = self.eval(node.comparators[0])
comptype = type(node.ops[0])
comp = AST_COMPARATORS[comptype]
if comptype in (ast.In, ast.NotIn) and isinstance(left, TypeMatcherInstance):
    for v in left._values():
        if comp(v, right):
            return True
    return False
return comp(left, right)
"""),
]
REF["Call"] = [("ok", """
if not isinstance(node.func, (ast.Attribute, ast.Name)):
    raise InvalidOperation("Error, only ast.Attribute or ast.Name are expected")
try:
    func = self.eval(node.func)
except AttributeError:
    func = None
if not self._is_allowed_callable(func):
    raise InvalidOperation(
        "Call '{}' not allowed. No calls other then whitelisted 'global' calls allowed!".format(
            resolve_attr_path(node)
        )
    )

args = list(map(self.eval, node.args))
kwargs = dict((kw.arg, self.eval(kw.value)) for kw in node.keywords)

return func(*args, **kwargs)
""")]
REF["comprehension"] = [("ok", """
iter = self.eval(node.iter)
return iter
""")]
_GEN = """
def recursive_generator(gens):
    gens = list(gens)
    gen = gens.pop()
    loop_index_var_name = gen.target.id
    resolved_gen = self.eval(gen)
    if resolved_gen is not NONE_OBJECT:
        for val in resolved_gen:
            self.data[loop_index_var_name] = val
%s            if len(gens) > 0:
                for subval in recursive_generator(gens):
                    yield subval
            else:
                yield val

def generator_expr():
    for gen in node.generators:
        if gen.target.id in self.data:
            raise InvalidOperation(
                "Generator variable '{}' overwrites existing variable!".format(gen.target.id)
            )
    values = recursive_generator(node.generators[::-1])
%s
return generator_expr()
"""
_IFS = ("            if not all(self.eval(condition) for condition in gen.ifs):\n"
        "                continue\n")
_SCOPED = """    try:
        for val in values:
            result = self.eval(node.elt)
            yield result
    finally:
        for gen in node.generators:
            self.data.pop(gen.target.id, None)
"""
_LEAKING = """    for val in values:
        result = self.eval(node.elt)
        yield result
"""
REF["GeneratorExp"] = [
    ("ifs,scoped", _GEN % (_IFS, _SCOPED)),
    ("ifs,leaking", _GEN % (_IFS, _LEAKING)),
    ("no_ifs,scoped", _GEN % ("", _SCOPED)),
    ("no_ifs,leaking", _GEN % ("", _LEAKING)),
]

EXPECTED_ORDER = ["Constant", "List", "Tuple", "Name", "Attribute", "BoolOp", "BinOp", "UnaryOp", "Compare", "Call",
                  "comprehension", "GeneratorExp"]

# TypeMatcher / TypeMatcherInstance: method -> accepted shapes
TM_REF = {
    "TypeMatcher.__getattr__": [("ok", """
if attr in WHITELIST_TREE:
    return TypeMatcherInstance(self._rec, [attr])

return NONE_OBJECT
""")],
    "TypeMatcherInstance.__init__": [("ok", """
self._rec = rec
self._ftypeparts = ftypeparts or []
self._attrs = attrs or []

self._ftype = None
self._ftypetree = WHITELIST_TREE
for p in ftypeparts:
    self._ftypetree = self._ftypetree[p]

if self._ftypetree is True:
    self._ftype = ".".join(ftypeparts)
""")],
    "TypeMatcherInstance.__getattr__": [("ok", """
if not self._ftype:
    if attr not in self._ftypetree:
        return NONE_OBJECT

    ftypeparts = self._ftypeparts + [attr]
    return TypeMatcherInstance(self._rec, ftypeparts)
elif not attr.startswith("_"):
    attrs = self._attrs + [attr]
    return TypeMatcherInstance(self._rec, self._ftypeparts, attrs)

return NONE_OBJECT
""")],
    "TypeMatcherInstance.__iter__": [("ok", "return self._fields()")],
    "TypeMatcherInstance._fields": [("ok", """
for f in self._rec._desc.getfields(self._ftype):
    yield f.name
""")],
    "TypeMatcherInstance._values": [("ok", """
for f in self._fields():
    obj = getattr(self._rec, f, NONE_OBJECT)
    for a in self._attrs:
        obj = getattr(obj, a, NONE_OBJECT)

    if obj is NONE_OBJECT:
        continue

    yield obj
""")],
    "TypeMatcherInstance._subrecords": [("ok", """
fields = self._rec._desc.getfields("record")
for f in fields:
    r = getattr(self._rec, f.name)
    if r is not None:
        yield r

fields = self._rec._desc.getfields("record[]")
for f in fields:
    records = getattr(self._rec, f.name)
    if records is not None:
        for r in records:
            yield r
""")],
    "TypeMatcherInstance._op": [
        ("keeps_attrs", """
for v in self._values():
    if op(v, other):
        return True

subrecords = self._subrecords()
for record in subrecords:
    type_matcher = TypeMatcherInstance(record, self._ftypeparts, self._attrs)
    if type_matcher._op(op, other):
        return True

return False
"""),
        ("drops_attrs", """
for v in self._values():
    if op(v, other):
        return True

subrecords = self._subrecords()
for record in subrecords:
    type_matcher = TypeMatcherInstance(record, self._ftypeparts)
    if type_matcher._op(op, other):
        return True

return False
"""),
    ],
}
for _dunder, _opn in (("__eq__", "eq"), ("__ne__", "ne"), ("__lt__", "lt"), ("__gt__", "gt"), ("__le__", "le"),
                      ("__ge__", "ge"), ("__contains__", "contains")):
    TM_REF["TypeMatcherInstance." + _dunder] = [("ok", "return self._op(operator.%s, other)" % _opn)]


NONEOBJECT_GETATTR_REF = """
if name.startswith("__"):
    raise AttributeError(name)
return self
"""


def sentinel_getattr(sel):
    """NoneObject.__getattr__: absent -> False; `non-dunder name -> self` -> True; anything else is not expressible."""
    tree = ast.parse(Path(sel.__file__).read_text())
    cls = next((n for n in tree.body if isinstance(n, ast.ClassDef) and n.name == type(sel.NONE_OBJECT).__name__), None)
    if cls is None:
        raise Unsupported("class of NONE_OBJECT not found")
    if len(type(sel.NONE_OBJECT).__mro__) != 2:
        raise Unsupported("NoneObject has base classes")
    meth = next((n for n in cls.body if isinstance(n, ast.FunctionDef) and n.name == "__getattr__"), None)
    if any(isinstance(n, ast.FunctionDef) and n.name == "__getattribute__" for n in cls.body):
        raise Unsupported("NoneObject.__getattribute__")
    if meth is None:
        return False
    if normal_form_with_args(meth) != _ref_with_args(NONEOBJECT_GETATTR_REF, None, meth) or \
            [a.arg for a in meth.args.args] != ["self", "name"]:
        raise Unsupported("NoneObject.__getattr__ (line %d) has a shape the model does not transcribe" % meth.lineno)
    return True


def typematcher_shapes(sel):
    tree = ast.parse(Path(sel.__file__).read_text())
    classes = {n.name: n for n in tree.body if isinstance(n, ast.ClassDef)}
    out = {}
    for key, refs in TM_REF.items():
        cname, mname = key.split(".")
        cls = classes.get(cname)
        if cls is None:
            raise Unsupported("class %s not found" % cname)
        meth = next((n for n in cls.body if isinstance(n, ast.FunctionDef) and n.name == mname), None)
        if meth is None:
            raise Unsupported("%s not found" % key)
        # parameters are renamed positionally so that the body is compared modulo their names
        nf = normal_form_with_args(meth)
        hit = [tag for tag, src in refs if _ref_with_args(src, [a.arg for a in meth.args.args], meth) == nf]
        if not hit:
            raise Unsupported("%s (line %d) has a shape the model does not transcribe" % (key, meth.lineno))
        out[key] = hit[0]
    return out


def normal_form_with_args(fn) -> str:
    import copy
    return normal_form([copy.deepcopy(fn)])


def _ref_with_args(src, argnames, meth):
    # same signature (names and defaults) as the method, reference body
    text = "def %s(%s):\n" % (meth.name, ast.unparse(meth.args)) + textwrap.indent(textwrap.dedent(src).strip("\n"), "    ")
    return normal_form([ast.parse(text).body[0]])


IS_ALLOWED_REFS = ["""
if isinstance(func, DynamicFieldtypeModule):
    return func._path in WHITELIST
return any(func is allowed for allowed in self.allowed_callables)
""", """
if isinstance(func, DynamicFieldtypeModule):
    return func.path in WHITELIST
return any(func is allowed for allowed in self.allowed_callables)
"""]


def _branches(sel):
    tree = ast.parse(Path(sel.__file__).read_text())
    cls = next((n for n in tree.body if isinstance(n, ast.ClassDef) and n.name == "RecordContextMatcher"), None)
    if cls is None:
        raise Unsupported("class RecordContextMatcher not found")
    meths = {n.name: n for n in cls.body if isinstance(n, ast.FunctionDef)}
    for m in ("_eval", "eval", "matches", "_is_allowed_callable"):
        if m not in meths:
            raise Unsupported("RecordContextMatcher.%s not found" % m)
    fn = meths["_eval"]
    if [a.arg for a in fn.args.args] != ["self", "node"]:
        raise Unsupported("_eval signature")
    body = _strip_docstrings(fn.body)
    if len(body) != 2 or not isinstance(body[0], ast.If):
        raise Unsupported("_eval is not one if/elif chain followed by one statement (line %d)" % fn.lineno)
    final = body[1]
    ok_final = (isinstance(final, ast.Raise) and isinstance(final.exc, ast.Call) and isinstance(final.exc.func, ast.Name)
                and final.exc.func.id == "TypeError" and len(final.exc.args) == 1
                and isinstance(final.exc.args[0], ast.Name) and final.exc.args[0].id == "node")
    if not ok_final:
        raise Unsupported("_eval does not end with `raise TypeError(node)` (line %d)" % final.lineno)
    out = []
    cur = body[0]
    while True:
        t = cur.test
        if not (isinstance(t, ast.Call) and isinstance(t.func, ast.Name) and t.func.id == "isinstance" and len(t.args) == 2
                and isinstance(t.args[0], ast.Name) and t.args[0].id == "node"
                and isinstance(t.args[1], ast.Attribute) and isinstance(t.args[1].value, ast.Name)
                and t.args[1].value.id == "ast"):
            raise Unsupported("_eval dispatch test is not isinstance(node, ast.<Kind>) at line %d" % cur.lineno)
        out.append((t.args[1].attr, cur.body, cur.lineno))
        if not cur.orelse:
            break
        if len(cur.orelse) == 1 and isinstance(cur.orelse[0], ast.If):
            cur = cur.orelse[0]
        else:
            raise Unsupported("_eval has an else branch at line %d" % cur.orelse[0].lineno)
    # eval() must hand the node to _eval unchanged and return its result
    ev = meths["eval"]
    evb = _strip_docstrings(ev.body)
    first = evb[0] if evb else None
    if not (isinstance(first, ast.Assign) and isinstance(first.value, ast.Call) and isinstance(first.value.func, ast.Attribute)
            and first.value.func.attr == "_eval" and len(first.value.args) == 1 and isinstance(first.value.args[0], ast.Name)
            and first.value.args[0].id == ev.args.args[1].arg
            and isinstance(evb[-1], ast.Return) and isinstance(evb[-1].value, ast.Name)
            and evb[-1].value.id == first.targets[0].id):
        raise Unsupported("RecordContextMatcher.eval is not `r = self._eval(node); ...; return r`")
    if normal_form(meths["_is_allowed_callable"].body) not in [_ref(x) for x in IS_ALLOWED_REFS]:
        raise Unsupported("_is_allowed_callable has an unrecognised shape (line %d)" % meths["_is_allowed_callable"].lineno)
    return out


def operator_table(sel):
    """AST_OPERATORS by IDENTITY of the live functions with the functions of module `operator`."""
    names = ["add", "sub", "mul", "matmul", "truediv", "floordiv", "mod", "pow", "lshift", "rshift", "and_", "or_", "xor",
             "not_", "neg", "pos", "invert", "eq", "ne", "lt", "le", "gt", "ge", "contains", "is_", "is_not", "truth"]
    tbl = {}
    for node_cls, fn in sel.AST_OPERATORS.items():
        if not (isinstance(node_cls, type) and issubclass(node_cls, ast.AST)):
            raise Unsupported("AST_OPERATORS key %r is not an ast node class" % (node_cls,))
        hit = [n for n in names if getattr(_operator, n) is fn]
        if not hit:
            raise Unsupported("AST_OPERATORS[%s] is not a function of module operator" % node_cls.__name__)
        tbl[node_cls.__name__] = hit[0]
    return tbl


def comparator_kinds(sel):
    return sorted(k.__name__ for k in sel.AST_COMPARATORS)


def data_names(sel):
    """What `matches` puts into self.data, observed on a probe record (live), and which entries are callable."""
    import datetime
    from flow.record import RecordDescriptor
    D = RecordDescriptor("probe/c07", [("varint", "probe_field")])
    r = D(probe_field=1, _generated=datetime.datetime(2020, 1, 1, tzinfo=datetime.timezone.utc))
    m = sel.RecordContextMatcher(compile("True", "<c07>", "eval", flags=ast.PyCF_ONLY_AST), "True")
    if m.matches(r) is not True:
        raise Unsupported("matcher on `True` did not return True")
    names = list(m.data)
    out = []
    for n in names:
        v = m.data[n]
        if n == "r":
            kind = "rec" if v is r else None
        elif n == "Type":
            kind = "type" if isinstance(v, sel.TypeMatcher) else None
        elif n in ("None", "True", "False"):
            kind = "const" if v is {"None": None, "True": True, "False": False}[n] else None
        elif callable(v):
            ok = (getattr(v, "__name__", None) == n) or (n == "fields" and getattr(v, "__name__", "") == "getfields")
            kind = "func" if ok and any(v is a for a in m.allowed_callables) else None
        else:
            kind = None
        if kind is None:
            raise Unsupported("self.data[%r] = %r is not something the model knows" % (n, v))
        out.append((n, kind))
    return out


MODELLED_HELPERS = ["lower", "upper", "name", "has_field", "field_equals", "field_contains"]


def helper_signatures(sel):
    out = []
    for n in MODELLED_HELPERS:
        fn = getattr(sel, n, None)
        if fn is None or fn not in sel.FUNCTION_WHITELIST:
            raise Unsupported("helper %s is not in FUNCTION_WHITELIST" % n)
        ps = []
        for p in inspect.signature(fn).parameters.values():
            if p.kind is not p.POSITIONAL_OR_KEYWORD:
                raise Unsupported("helper %s parameter %s kind" % (n, p.name))
            if p.default is p.empty:
                ps.append((p.name, None))
            elif isinstance(p.default, bool):
                ps.append((p.name, p.default))
            else:
                raise Unsupported("helper %s default of %s" % (n, p.name))
        out.append((n, ps))
    return out


# ---------------------------------------------------------------------------------------------
# OBSERVED facts: every boolean fact has witness expressions that are evaluated by the real engines

def _probe_records():
    import datetime
    from flow.record import RecordDescriptor
    ts = datetime.datetime(2020, 1, 1, tzinfo=datetime.timezone.utc)
    flat = RecordDescriptor("probe/c07flat", [("varint", "n"), ("varint", "m"), ("string", "s"), ("varint[]", "a"), ("varint", "u")])
    inner = RecordDescriptor("probe/c07inner", [("uri", "link"), ("string", "txt"), ("varint", "num")])
    outer = RecordDescriptor("probe/c07outer", [("string", "s"), ("string", "t"), ("record", "sub"), ("record[]", "subs")])
    r1 = flat(n=100, m=5, s="abc", a=[1, 2, 3], u=None, _generated=ts)
    i1 = inner(link="http://example.com/dl/evil.bin", txt="hello", num=5, _generated=ts)
    i2 = inner(link="http://other.org/a/b.txt", txt="world", num=7, _generated=ts)
    r2 = outer(s="top", t="tt", sub=i1, subs=[i2], _generated=ts)
    return r1, r2


def _run(sel, engine, expr, rec):
    cls = sel.Selector if engine == "interpreted" else sel.CompiledSelector
    try:
        v = cls(expr).match(rec)
    except Exception as e:  # noqa
        return ("exc", type(e).__name__)
    return ("val", v if isinstance(v, (bool, int, str, type(None))) else type(v).__name__, type(v).__name__)


def _decide(what, sel, witnesses, engines=("interpreted",)):
    """witnesses: (expression, record, outcome when the fact is true, outcome when it is false).  All witnesses must speak
    with one voice."""
    votes = set()
    for expr, rec, if_true, if_false in witnesses:
        for eng in engines:
            got = _run(sel, eng, expr, rec)[:2]
            if got == if_true:
                votes.add(True)
            elif got == if_false:
                votes.add(False)
            else:
                raise Unsupported("%s: witness %s (%s engine) gives %r, neither %r nor %r" % (what, expr, eng, got, if_true, if_false))
    if len(votes) != 1:
        raise Unsupported("%s: the witnesses contradict each other" % what)
    return votes.pop()


class _Log(list):
    pass


def _make_probe(log, truth):
    """objects that log what is done to them: attribute reads, truth tests, comparisons, arithmetic, calls"""

    class PV:
        def __init__(self, name):
            object.__setattr__(self, "_n", name)

        def __getattr__(self, k):
            if k.startswith("__"):
                raise AttributeError(k)
            log.append("get %s.%s" % (self._n, k))
            return PV(self._n + "." + k)

        def __bool__(self):
            log.append("bool %s" % self._n)
            return truth.get(self._n, True)

        def _cmp(op):
            def f(self, other):
                log.append("%s %s %s" % (op, self._n, getattr(other, "_n", repr(other))))
                return truth.get("%s %s" % (op, self._n), True)
            return f

        __lt__, __le__, __gt__, __ge__ = _cmp("lt"), _cmp("le"), _cmp("gt"), _cmp("ge")
        __eq__, __ne__ = _cmp("eq"), _cmp("ne")
        __hash__ = None

        def _bin(op):
            def f(self, other):
                log.append("%s %s %s" % (op, self._n, getattr(other, "_n", repr(other))))
                return PV("(%s %s %s)" % (self._n, op, getattr(other, "_n", repr(other))))
            return f

        __add__, __mul__, __mod__, __and__, __or__, __sub__ = _bin("add"), _bin("mul"), _bin("mod"), _bin("and"), _bin("or"), _bin("sub")

        def __call__(self, *a, **k):
            log.append("call %s" % self._n)
            return PV(self._n + "()")

    class PR:
        class _D:
            name = "probe/rec"

            @staticmethod
            def getfields(t):
                return []
        _desc = _D()

        def __getattr__(self, k):
            if k.startswith("_"):
                raise AttributeError(k)
            log.append("get r.%s" % k)
            return PV("r." + k)

    return PR()


ORDER_BATTERY = [
    # expression, truth overrides, expected event log, expected outcome kind
    ("r.a + r.b", {}, ["get r.a", "get r.b", "add r.a r.b"], "val"),
    ("r.a - r.b", {}, None, "KeyError"),                       # filled in from binop_lookup_first
    ("r.a and r.b and r.c", {"r.a": False}, ["get r.a", "bool r.a", "get r.b", "bool r.b", "get r.c", "bool r.c"], "val"),
    ("r.a or r.b", {}, ["get r.a", "bool r.a", "get r.b", "bool r.b"], "val"),
    ("not r.a", {}, ["get r.a", "bool r.a"], "val"),
    ("r.a < r.b < r.c", {}, ["get r.a", "get r.b", "lt r.a r.b", "get r.c", "lt r.b r.c"], "val"),
    ("r.a < r.b < r.c", {"lt r.a": False}, ["get r.a", "get r.b", "lt r.a r.b"], "val"),
    ("[r.a, r.b] == (r.c, r.d)", {}, ["get r.a", "get r.b", "get r.c", "get r.d"], "val"),
    ("r.f(r.a)", {}, ["get r.f"], "InvalidOperation"),          # the callee is judged before an argument is evaluated
    ("lower(r.a)", {}, ["get r.a"], "val"),
    ("lower(s=r.a) == upper(r.b)", {}, ["get r.a", "get r.b", "eq r.a r.b"], "val"),
    ("r.a.b.c == 1", {}, ["get r.a", "get r.a.b", "get r.a.b.c", "eq r.a.b.c 1"], "val"),
    ("any(x for x in [r.a, r.b])", {}, ["get r.a", "get r.b", "bool r.a"], "val"),
    ("all(x for x in [r.a, r.b] if r.c)", {}, ["get r.a", "get r.b", "get r.c", "bool r.c", "bool r.a", "get r.c", "bool r.c", "bool r.b"], "val"),
    ("r.__class__", {}, [], "InvalidOperation"),
    ("r.a % r.b == r.c", {}, ["get r.a", "get r.b", "mod r.a r.b", "get r.c", "eq (r.a mod r.b) r.c"], "val"),
]


def observe_order(sel, facts):
    """evaluation order / which sub-expressions are evaluated, on logging probe objects, against what the transcription
    in model/SelSem.v does (left to right; and/or eager with bool() after each operand; chain stops at a false link;
    callee before arguments; operator lookup before operands)"""
    bad = []
    for expr, truth, want_log, want_out in ORDER_BATTERY:
        if expr == "r.a - r.b":
            want_log = [] if facts["binop_lookup_first"] else ["get r.a", "get r.b"]
        if expr.count("<") == 2 and not facts["chained"]:
            continue
        log = _Log()
        probe = _make_probe(log, truth)
        try:
            sel.Selector(expr).match(probe)
            out = "val"
        except Exception as e:  # noqa
            out = type(e).__name__
        if out != want_out or list(log) != want_log:
            bad.append("%s: %s %r (transcribed: %s %r)" % (expr, out, list(log), want_out, want_log))
    return bad


def observe(sel):
    r1, r2 = _probe_records()
    S = sel.NONE_OBJECT
    f = {}
    V, E = (lambda v: ("val", v)), (lambda n: ("exc", n))
    f["chained"] = _decide("compare_is_chained", sel, [
        ("1 < r.n < 3", r1, V(False), V(True)),
        ("1 < r.m < 3 < r.n", r1, V(False), V(True)),
        ("0 < r.m < 4", r1, V(False), V(True)),
    ])
    f["ifs"] = _decide("comprehension_ifs_honoured", sel, [
        ("any(x for x in [1, 2] if x > 5)", r1, V(False), V(True)),
        ("all(x > 1 for x in [1, 2] if x > 1)", r1, V(True), V(False)),
        ("any(x == 1 for x in r.a if x > 1 if x < 3)", r1, V(False), V(True)),
    ])
    f["scoped"] = _decide("generator_variables_scoped", sel, [
        ("any(x == 1 for x in r.a) and any(x == 2 for x in r.a)", r1, V(True), E("InvalidOperation")),
        ("all(any(y >= x for y in r.a) for x in r.a)", r1, V(True), E("InvalidOperation")),
    ])
    # ... and nothing is left behind in self.data
    s0 = sel.Selector("any(x == 9 for x in r.a for y in r.a)")
    s0.match(r1)
    leaked = sorted(k for k in s0.matcher.data if k in ("x", "y"))
    if f["scoped"] and leaked:
        raise Unsupported("generator variables %r stay in self.data although sibling generators may reuse them" % leaked)
    f["binop_lookup_first"] = _decide("binop_operator_lookup_first", sel, [
        ("r.zz - 1", r1, E("KeyError"), V(False)),
        ("1 ** r.zz", r1, E("KeyError"), V(False)),
        ("(r.n % 0) - 1", r1, E("KeyError"), E("ZeroDivisionError")),
    ])
    f["tm_keeps_attrs"] = _decide("typematcher_recursion_keeps_attrs", sel, [
        ("Type.varint.denominator == 1", r2, V(True), V(False)),
        ("Type.uri.filename == 'evil.bin'", r2, V(True), V(False)),
        ("Type.uri.hostname == 'other.org'", r2, V(True), V(False)),
    ], engines=("interpreted", "compiled"))
    # NoneObject.__getattr__
    try:
        got = S.some_attribute
        attr = "self" if got is S and S.a.b is S else "other"
    except AttributeError:
        attr = "raises"
    try:
        S.__c07_probe__
        dunder = "value"
    except AttributeError:
        dunder = "raises"
    if attr == "other" or dunder != "raises":
        raise Unsupported("NoneObject attribute access: non-dunder -> %s, dunder -> %s" % (attr, dunder))
    f["sentinel_attr"] = attr == "self"
    f["boolop_eager_bool"] = _decide("boolop_eager_bool_fold", sel, [
        ("False and r.n % 0 == 1", r1, E("ZeroDivisionError"), V(False)),
        ("0 or 'x'", r1, V(True), V("x")),
        ("r.n and r.m", r1, V(True), V(5)),
    ])
    f["boolop_swallow"] = _decide("boolop_swallows_nonetype_typeerror", sel, [
        ("r.u < 1 or True", r1, V(True), E("TypeError")),
        ("(None + 1) and True", r1, V(False), E("TypeError")),
    ])
    if _run(sel, "interpreted", "('a' < 1) or True", r1)[:2] != E("TypeError"):
        raise Unsupported("a TypeError that does not mention NoneType is swallowed by and/or")
    f["binop_guard"] = _decide("binop_sentinel_guard", sel, [
        ("r.zz + 1", r1, V(False), E("TypeError")), ("2 * r.zz", r1, V(False), E("TypeError"))])
    f["call_identity"] = _decide("call_allowed_by_identity", sel, [
        ("any(f('A') == 'a' for f in [lower])", r1, V(True), E("InvalidOperation")),
    ]) and all(_run(sel, "interpreted", e, r1)[:2] == E("InvalidOperation")
               for e in ("r.s.upper()", "'abc'.upper()", "any(g() for g in [r.s.upper])", "len(r.a)", "foo(1)"))
    f["contains_skips_missing"] = _decide("field_contains_skips_missing_string", sel, [
        ("field_contains(r, ['n'], [r.zz])", r1, V(False), E("TypeError")),
        ("field_contains(r, ['s'], [r.zz, 'b'])", r1, V(True), E("TypeError")),
    ], engines=("interpreted", "compiled"))
    f["final_typeerror"] = all(_run(sel, "interpreted", e, r1)[:2] == E("TypeError") for e in (
        "1 if 2 else 3", "r.a[0]", "{1: 2}", "{1, 2}", "[x for x in r.a]", "f'{r.n}'", "(lambda: 1)", "(y := 1)"))
    # TypeMatcher / TypeMatcherInstance, observed on the real objects
    T = sel.TypeMatcher(r2)
    own = list(T.string._values())
    tm_ok = (list(T.string) == ["s", "t"] and T.zz is S and T.string._x is S and T.net.zz is S
             and own == ["top", "tt"]
             and list(T.string.zz._values()) == [] and list(T.varint.real._values()) == []
             and [x._desc.name for x in T.string._subrecords()] == ["probe/c07inner", "probe/c07inner"]
             and (T.string == "world") is True and ("orl" in T.string) is True and (T.string == "nope") is False
             and _run(sel, "interpreted", "Type.string in ['hello']", r2)[:2] == V(False)       # In: the matcher's OWN values
             and _run(sel, "interpreted", "Type.string in ['top']", r2)[:2] == V(True)
             and _run(sel, "interpreted", "any(x == 't' for x in Type.string)", r2)[:2] == V(True))
    f["tm_shapes"] = bool(tm_ok)
    f["order_bad"] = observe_order(sel, f)
    return f


def crosscheck(sel, f):
    """the source-shape recognisers as a cross-check of the observed facts: recognised and contradicting -> Unsupported;
    not recognised -> a note"""
    notes = []
    try:
        branches = _branches(sel)
    except Unsupported as e:
        return ["_eval / eval / _is_allowed_callable: shape not recognised (%s); observed behaviour used" % e]
    shapes = {}
    for kind, body, lineno in branches:
        if kind not in REF:
            notes.append("_eval has a branch for ast.%s (line %d) the model does not know; observed behaviour used" % (kind, lineno))
            continue
        nf = normal_form(body)
        hit = [tag for tag, src in REF[kind] if _ref(src) == nf]
        if hit:
            shapes[kind] = hit[0]
        else:
            notes.append("the ast.%s branch of _eval (line %d): shape not recognised; observed behaviour used" % (kind, lineno))

    def contra(what, recognised, observed):
        if recognised != observed:
            raise Unsupported("%s: the source reads as %r but the engine behaves as %r" % (what, recognised, observed))

    if "Compare" in shapes:
        contra("compare_is_chained", shapes["Compare"] == "chained", f["chained"])
    if "GeneratorExp" in shapes:
        contra("comprehension_ifs_honoured", shapes["GeneratorExp"].startswith("ifs,"), f["ifs"])
        contra("generator_variables_scoped", shapes["GeneratorExp"].endswith(",scoped"), f["scoped"])
    if "BinOp" in shapes:
        contra("binop_operator_lookup_first", shapes["BinOp"] == "lookup_first", f["binop_lookup_first"])
    try:
        tms = typematcher_shapes(sel)
        contra("typematcher_recursion_keeps_attrs", tms["TypeMatcherInstance._op"] == "keeps_attrs", f["tm_keeps_attrs"])
    except Unsupported as e:
        if "but the engine behaves" in str(e):
            raise
        notes.append("TypeMatcher: %s; observed behaviour used" % e)
    try:
        contra("sentinel_attribute_is_sentinel", sentinel_getattr(sel), f["sentinel_attr"])
    except Unsupported as e:
        if "but the engine behaves" in str(e):
            raise
        notes.append("NoneObject.__getattr__: %s; observed behaviour used" % e)
    return notes, [k for k, _, _ in branches]


def gen_selsem():
    import flow.record.selector as sel
    from flow.record.whitelist import WHITELIST, WHITELIST_TREE
    optbl = operator_table(sel)
    f = observe(sel)
    cc = crosscheck(sel, f)
    notes, order = (cc if isinstance(cc, tuple) else (cc, []))
    out = HEADER
    out += "From Coq Require Import List Bool String.\nImport ListNotations.\nOpen Scope string_scope.\n\n"
    out += "(* Every fact below is OBSERVED on the live module: tables by identity of the functions, booleans by evaluating witness\n"
    out += "   expressions with the real engines, evaluation order on logging probe objects.  The source-shape recognisers only\n"
    out += "   cross-check (recognised and contradicting = translator error). *)\n"
    for n in notes:
        out += "(* note: %s *)\n" % n.replace("*)", "* )").replace("(*", "( *")
    out += "\n(* AST_OPERATORS: ast node kind -> operator.<name> *)\n"
    out += "Definition operator_table : list (string * string) :=\n  %s.\n\n" % clist(
        [cpair(cstr(k), cstr(v)) for k, v in sorted(optbl.items())])
    out += "(* AST_COMPARATORS: the node kinds it has an entry for *)\n"
    out += "Definition comparator_kinds : list string := %s.\n\n" % clist([cstr(k) for k in comparator_kinds(sel)])
    out += "(* informational (the node classes are disjoint, the order of the tests has no effect): the isinstance chain of _eval *)\n"
    out += "Definition dispatch_order : list string := %s.\n" % clist([cstr(k) for k in order])
    out += "(* node kinds without a branch raise TypeError: IfExp, Subscript, Dict, Set, ListComp, JoinedStr, Lambda, NamedExpr *)\n"
    out += "Definition final_raise_typeerror : bool := %s.\n\n" % cbool(f["final_typeerror"])
    out += "(* 1 < r.n < 3 with n = 100 is False: every link of a chained comparison counts *)\n"
    out += "Definition compare_is_chained : bool := %s.\n" % cbool(f["chained"])
    out += "(* any(x for x in [1, 2] if x > 5) is False: the conditions of a generator expression are honoured *)\n"
    out += "Definition comprehension_ifs_honoured : bool := %s.\n" % cbool(f["ifs"])
    out += "(* any(x == 1 for x in r.a) and any(x == 2 for x in r.a) evaluates: loop variables leave self.data with their generator *)\n"
    out += "Definition generator_variables_scoped : bool := %s.\n" % cbool(f["scoped"])
    out += "(* r.zz - 1 raises KeyError: AST_OPERATORS[type(node.op)] is looked up before the operands are evaluated *)\n"
    out += "Definition binop_operator_lookup_first : bool := %s.\n" % cbool(f["binop_lookup_first"])
    out += "(* False and r.n % 0 == 1 raises; 0 or 'x' is True: every operand evaluated, bool(), folded *)\n"
    out += "Definition boolop_eager_bool_fold : bool := %s.\n" % cbool(f["boolop_eager_bool"])
    out += "(* r.u < 1 or True (u = None) is True; ('a' < 1) or True raises *)\n"
    out += "Definition boolop_swallows_nonetype_typeerror : bool := %s.\n" % cbool(f["boolop_swallow"])
    out += "(* r.zz + 1 is False *)\nDefinition binop_sentinel_guard : bool := %s.\n" % cbool(f["binop_guard"])
    out += "(* any(f('A') == 'a' for f in [lower]) evaluates, r.s.upper() / len(r.a) / foo(1) are refused *)\n"
    out += "Definition call_allowed_by_identity : bool := %s.\n\n" % cbool(f["call_identity"])
    out += "(* Type.varint.denominator == 1 / Type.uri.filename == 'evil.bin' with the field only in a nested record *)\n"
    out += "Definition typematcher_recursion_keeps_attrs : bool := %s.\n" % cbool(f["tm_keeps_attrs"])
    out += "(* TypeMatcher / TypeMatcherInstance on a probe record: iteration yields own field names, unknown types and private\n"
    out += "   attributes give NONE_OBJECT, _values follows the attribute path and skips what is missing, _subrecords walks record and\n"
    out += "   record[] fields, the In special case of the interpreter looks at the matcher's own values only *)\n"
    out += "Definition typematcher_shapes_ok : bool := %s.\n" % cbool(f["tm_shapes"])
    out += "(* field_contains(r, ['n'], [r.zz]) is False: a wanted string that is a missing field is skipped *)\n"
    out += "Definition field_contains_skips_missing_string : bool := %s.\n" % cbool(f["contains_skips_missing"])
    out += "(* NONE_OBJECT.x is NONE_OBJECT (a dunder name raises AttributeError) *)\n"
    out += "Definition sentinel_attribute_is_sentinel : bool := %s.\n" % cbool(f["sentinel_attr"])
    out += "(* evaluation order and evaluated sub-expressions on logging probes: as transcribed in model/SelSem.v *)\n"
    for b in f["order_bad"]:
        out += "(* differs: %s *)\n" % b.replace("*)", "* )").replace("(*", "( *")
    out += "Definition evaluation_order_as_transcribed : bool := %s.\n\n" % cbool(not f["order_bad"])
    out += "(* self.data as `matches` builds it: name, kind of value *)\n"
    out += "Definition data_names : list (string * string) := %s.\n\n" % clist([cpair(cstr(n), cstr(k)) for n, k in data_names(sel)])
    out += "Definition function_whitelist_names : list string := %s.\n" % clist([cstr(fn.__name__) for fn in sel.FUNCTION_WHITELIST])
    out += "(* signatures of the helper functions the model implements: parameter name, default *)\n"
    out += "Definition helper_signatures : list (string * list (string * option bool)) :=\n  %s.\n\n" % clist(
        [cpair(cstr(n), clist([cpair(cstr(p), copt(d, cbool)) for p, d in ps])) for n, ps in helper_signatures(sel)], sep=";\n   ")
    out += "Definition whitelist : list string := %s.\n" % clist([cstr(w) for w in WHITELIST])
    out += "Definition whitelist_roots : list string := %s.\n" % clist([cstr(w) for w in WHITELIST_TREE])
    out += "(* the namespace of the compiled engine besides r / Type: FUNCTION_WHITELIST names and these *)\n"
    from flow.record.base import DynamicFieldtypeModule, dynamic_fieldtype
    import datetime
    # the namespace a match really evaluates in: observed through a selector that returns it
    r1, _ = _probe_records()
    live_ns = {}
    cs = sel.CompiledSelector("__c07_ns__(globals())")
    cs.ns["__c07_ns__"] = lambda g: live_ns.update(g) or True
    cs.match(r1)
    fw = {fn.__name__ for fn in sel.FUNCTION_WHITELIST}
    extra = sorted(k for k in live_ns if k not in fw and k not in ("r", "Type", "__builtins__", "__c07_ns__"))
    if not (isinstance(live_ns.get("r"), sel.WrappedRecord) and isinstance(live_ns.get("Type"), sel.TypeMatcher)
            and all(live_ns.get(n) is getattr(sel, n) for n in fw)):
        raise Unsupported("CompiledSelector.match does not evaluate with r = WrappedRecord, Type = TypeMatcher and the helper functions")
    out += "Definition compiled_extra_names : list string := %s.\n" % clist([cstr(k) for k in extra])

    def dotted(m):       # the dotted path so far: `_path` (`path` before d02d67c)
        return m.__dict__.get("_path", m.__dict__.get("path"))

    def same_as_interpreted(k):
        # what the interpreted engine's Name branch resolves the root to: getattr(dynamic_fieldtype, k)
        want, got = getattr(dynamic_fieldtype, k), live_ns[k]
        if isinstance(want, DynamicFieldtypeModule):
            return isinstance(got, DynamicFieldtypeModule) and dotted(got) == dotted(want) == k
        return type(got) is type(want) and got == want       # before d02d67c `path` was the instance attribute

    dyn = all(same_as_interpreted(k) for k in extra) and isinstance(live_ns.get("net"), DynamicFieldtypeModule)
    roots_ok = all(isinstance(getattr(dynamic_fieldtype, k), DynamicFieldtypeModule) for k in WHITELIST_TREE)
    out += "(* getattr(dynamic_fieldtype, <root>) is a field-type module for EVERY whitelisted root (no root is shadowed by an\n"
    out += "   attribute of DynamicFieldtypeModule itself, as `path` was) *)\n"
    out += "Definition fieldtype_roots_resolve : bool := %s.\n" % cbool(roots_ok)
    out += "(* ... every one of them is what the interpreted engine resolves the name to (DynamicFieldtypeModule(<name>), resolved\n"
    out += "   through the whitelist; a plain module object would resolve net.ipv4 / net.tcp only once that submodule is imported) *)\n"
    out += "Definition compiled_roots_dynamic : bool := %s.\n" % cbool(dyn)
    import builtins as _b
    out += "(* names Python itself defines (builtins): outside the model unless bound above *)\n"
    out += "Definition python_builtin_names : list string := %s.\n" % clist([cstr(n) for n in sorted(dir(_b)) if n.isidentifier()])
    write_if_changed(GEN / "Gen_selsem.v", out)


GENERATORS = [gen_selsem]
