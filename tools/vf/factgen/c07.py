"""C07 facts: coq/gen/Gen_selsem.v.

Re-read from /repo's working tree on every run (fail closed with `Unsupported`):

* AST_OPERATORS as (ast node kind -> operator.<name>) table (source shape cross-checked against the live dict);
* the branches of RecordContextMatcher._eval, by `ast`: the dispatch ORDER of node kinds, the final
  `raise TypeError(node)`, and -- after alpha-renaming of local variables and removal of docstrings -- the exact
  shape of the branches the model in coq/model/SelSem.v transcribes:
    - Compare: the loop over ALL (op, comparator) pairs  -> compare_is_chained = true;
               the pre-repair shape (first pair only)     -> compare_is_chained = false;
    - GeneratorExp: `gen.ifs` evaluated for every value   -> comprehension_ifs_honoured = true;
               the pre-repair shape (ifs never looked at) -> false;
    - BoolOp (every operand evaluated, NoneType TypeError swallowed, bool(), folded with AST_OPERATORS[type(op)]),
      BinOp (NoneObject guard), UnaryOp, Attribute, Name, Call, Constant/List/Tuple, comprehension: one accepted shape each;
* the names `matches` places in `self.data` (live: a matcher is run on a probe record), which of them are callable,
  FUNCTION_WHITELIST names, the signatures of the modelled helper functions;
* WHITELIST and the roots of WHITELIST_TREE.
"""
from __future__ import annotations

import ast
import inspect
import operator as _operator
import textwrap
from pathlib import Path

from vf.coqlit import cbool, clist, copt, cpair, cstr
from vf.factlib import GEN, HEADER, Unsupported, write_if_changed


# ---------------------------------------------------------------------------------------------
# normalisation of a statement list: drop docstrings, alpha-rename every locally bound name

def _strip_docstrings(stmts):
    out = []
    for i, s in enumerate(stmts):
        if i == 0 and isinstance(s, ast.Expr) and isinstance(s.value, ast.Constant) and isinstance(s.value.value, str):
            continue
        out.append(s)
    return out


class _Norm(ast.NodeTransformer):
    """Alpha-renaming of the names a code fragment binds, in the order the bindings are met when the statements are
    read top to bottom: assignment / with / except targets get a number when first bound; the target of a `for`
    statement or of a comprehension clause gets a NEW number every time (it is re-bound before every read in its
    body), so re-using or not re-using a loop variable's name in a later loop does not matter.  Names the fragment
    does not bind (self, node, module globals) are left alone."""

    def __init__(self):
        self.map = {}
        self.n = 0

    def _fresh(self, name):
        self.map[name] = "v%d" % self.n
        self.n += 1
        return self.map[name]

    def _bind_target(self, t, fresh):
        for n in ast.walk(t):
            if isinstance(n, ast.Name) and isinstance(n.ctx, ast.Store):
                if fresh or n.id not in self.map:
                    self._fresh(n.id)

    def visit_Name(self, n):
        if isinstance(n.ctx, ast.Store) and n.id not in self.map:
            self._fresh(n.id)
        if n.id in self.map:
            return ast.copy_location(ast.Name(id=self.map[n.id], ctx=n.ctx), n)
        return n

    def visit_Assign(self, n):
        n.value = self.visit(n.value)
        n.targets = [self.visit(t) for t in n.targets]
        return n

    def visit_AugAssign(self, n):
        n.value = self.visit(n.value)
        n.target = self.visit(n.target)
        return n

    def visit_For(self, n):
        n.iter = self.visit(n.iter)
        self._bind_target(n.target, fresh=True)
        n.target = self.visit(n.target)
        n.body = [self.visit(x) for x in n.body]
        n.orelse = [self.visit(x) for x in n.orelse]
        return n

    def _comp(self, n, parts):
        for c in n.generators:
            c.iter = self.visit(c.iter)
            self._bind_target(c.target, fresh=True)
            c.target = self.visit(c.target)
            c.ifs = [self.visit(x) for x in c.ifs]
        for p in parts:
            setattr(n, p, self.visit(getattr(n, p)))
        return n

    def visit_GeneratorExp(self, n):
        return self._comp(n, ["elt"])

    def visit_ListComp(self, n):
        return self._comp(n, ["elt"])

    def visit_SetComp(self, n):
        return self._comp(n, ["elt"])

    def visit_DictComp(self, n):
        return self._comp(n, ["key", "value"])

    def visit_ExceptHandler(self, n):
        if n.type is not None:
            n.type = self.visit(n.type)
        if n.name:
            n.name = self._fresh(n.name)
        n.body = [self.visit(x) for x in n.body]
        return n

    def visit_FunctionDef(self, n):
        n.name = self.map[n.name] if n.name in self.map else self._fresh(n.name)
        n.args.defaults = [self.visit(x) for x in n.args.defaults]
        for a in n.args.args:
            a.arg = self._fresh(a.arg)
        n.body = [self.visit(x) for x in _strip_docstrings(n.body)]
        return n


def normal_form(stmts) -> str:
    import copy
    stmts = _strip_docstrings([copy.deepcopy(x) for x in stmts])
    nz = _Norm()
    # nested functions may call each other (and themselves) before their `def` is met: bind their names first
    for st in stmts:
        if isinstance(st, ast.FunctionDef):
            nz._fresh(st.name)
    mod = ast.Module(body=[nz.visit(x) for x in stmts], type_ignores=[])
    return ast.dump(mod, annotate_fields=False, include_attributes=False)


def _ref(src: str) -> str:
    fn = ast.parse("def _f(self, node):\n" + textwrap.indent(textwrap.dedent(src).strip("\n"), "    ")).body[0]
    return normal_form(fn.body)


# ---------------------------------------------------------------------------------------------
# accepted shapes (source text of the branch bodies; compared modulo local names / docstrings / comments)

REF = {}
REF["Constant"] = [("ok", "return node.value")]
REF["List"] = [("ok", "return list(map(self.eval, node.elts))")]
REF["Tuple"] = [("ok", "return tuple(map(self.eval, node.elts))")]
REF["Name"] = [("ok", """
if node.id not in self.data:
    return getattr(dynamic_fieldtype, node.id)

return self.data[node.id]
""")]
REF["Attribute"] = [("ok", """
if node.attr.startswith("__"):
    raise InvalidOperation(
        "Selector {!r} contains invalid attribute: {!r}".format(self.expression_str, node.attr)
    )

obj = self.eval(node.value)

return getattr(obj, node.attr, NONE_OBJECT)
""")]
REF["BoolOp"] = [("ok", """
values = []
for expr in node.values:
    try:
        value = self.eval(expr)
    except TypeError as e:
        if "NoneType" in str(e):
            value = False
        else:
            raise
    value = bool(value)
    values.append(value)
result = values.pop(0)
for value in values:
    result = AST_OPERATORS[type(node.op)](result, value)
return result
""")]
REF["BinOp"] = [
    ("lookup_first", """
op = AST_OPERATORS[type(node.op)]
left = self.eval(node.left)
right = self.eval(node.right)
if isinstance(left, NoneObject) or isinstance(right, NoneObject):
    return False
return op(left, right)
"""),
    ("lookup_last", """
left = self.eval(node.left)
right = self.eval(node.right)
if isinstance(left, NoneObject) or isinstance(right, NoneObject):
    return False
return AST_OPERATORS[type(node.op)](left, right)
"""),
]
REF["UnaryOp"] = [("ok", "return AST_OPERATORS[type(node.op)](self.eval(node.operand))")]
REF["Compare"] = [
    ("chained", """
left = self.eval(node.left)
result = True
for op, comparator in zip(node.ops, node.comparators):
    right = self.eval(comparator)
    comptype = type(op)
    comp = AST_COMPARATORS[comptype]
    if comptype in (ast.In, ast.NotIn) and isinstance(left, TypeMatcherInstance):
        result = any(comp(v, right) for v in left._values())
    else:
        result = comp(left, right)
    if not result:
        return result
    left = right
return result
"""),
    ("first_link_only", """
left = self.eval(node.left)
right = self.eval(node.comparators[0])
comptype = type(node.ops[0])
comp = AST_COMPARATORS[comptype]
if comptype in (ast.In, ast.NotIn) and isinstance(left, TypeMatcherInstance):
    for v in left._values():
        if comp(v, right):
            return True
    return False
return comp(left, right)
"""),
]
REF["Call"] = [("ok", """
if not isinstance(node.func, (ast.Attribute, ast.Name)):
    raise InvalidOperation("Error, only ast.Attribute or ast.Name are expected")
try:
    func = self.eval(node.func)
except AttributeError:
    func = None
if not self._is_allowed_callable(func):
    raise InvalidOperation(
        "Call '{}' not allowed. No calls other then whitelisted 'global' calls allowed!".format(
            resolve_attr_path(node)
        )
    )

args = list(map(self.eval, node.args))
kwargs = dict((kw.arg, self.eval(kw.value)) for kw in node.keywords)

return func(*args, **kwargs)
""")]
REF["comprehension"] = [("ok", """
iter = self.eval(node.iter)
return iter
""")]
_GEN = """
def recursive_generator(gens):
    gens = list(gens)
    gen = gens.pop()
    loop_index_var_name = gen.target.id
    resolved_gen = self.eval(gen)
    if resolved_gen is not NONE_OBJECT:
        for val in resolved_gen:
            self.data[loop_index_var_name] = val
%s            if len(gens) > 0:
                for subval in recursive_generator(gens):
                    yield subval
            else:
                yield val

def generator_expr():
    for gen in node.generators:
        if gen.target.id in self.data:
            raise InvalidOperation(
                "Generator variable '{}' overwrites existing variable!".format(gen.target.id)
            )
    values = recursive_generator(node.generators[::-1])
%s
return generator_expr()
"""
_IFS = ("            if not all(self.eval(condition) for condition in gen.ifs):\n"
        "                continue\n")
_SCOPED = """    try:
        for val in values:
            result = self.eval(node.elt)
            yield result
    finally:
        for gen in node.generators:
            self.data.pop(gen.target.id, None)
"""
_LEAKING = """    for val in values:
        result = self.eval(node.elt)
        yield result
"""
REF["GeneratorExp"] = [
    ("ifs,scoped", _GEN % (_IFS, _SCOPED)),
    ("ifs,leaking", _GEN % (_IFS, _LEAKING)),
    ("no_ifs,scoped", _GEN % ("", _SCOPED)),
    ("no_ifs,leaking", _GEN % ("", _LEAKING)),
]

EXPECTED_ORDER = ["Constant", "List", "Tuple", "Name", "Attribute", "BoolOp", "BinOp", "UnaryOp", "Compare", "Call",
                  "comprehension", "GeneratorExp"]

# TypeMatcher / TypeMatcherInstance: method -> accepted shapes
TM_REF = {
    "TypeMatcher.__getattr__": [("ok", """
if attr in WHITELIST_TREE:
    return TypeMatcherInstance(self._rec, [attr])

return NONE_OBJECT
""")],
    "TypeMatcherInstance.__init__": [("ok", """
self._rec = rec
self._ftypeparts = ftypeparts or []
self._attrs = attrs or []

self._ftype = None
self._ftypetree = WHITELIST_TREE
for p in ftypeparts:
    self._ftypetree = self._ftypetree[p]

if self._ftypetree is True:
    self._ftype = ".".join(ftypeparts)
""")],
    "TypeMatcherInstance.__getattr__": [("ok", """
if not self._ftype:
    if attr not in self._ftypetree:
        return NONE_OBJECT

    ftypeparts = self._ftypeparts + [attr]
    return TypeMatcherInstance(self._rec, ftypeparts)
elif not attr.startswith("_"):
    attrs = self._attrs + [attr]
    return TypeMatcherInstance(self._rec, self._ftypeparts, attrs)

return NONE_OBJECT
""")],
    "TypeMatcherInstance.__iter__": [("ok", "return self._fields()")],
    "TypeMatcherInstance._fields": [("ok", """
for f in self._rec._desc.getfields(self._ftype):
    yield f.name
""")],
    "TypeMatcherInstance._values": [("ok", """
for f in self._fields():
    obj = getattr(self._rec, f, NONE_OBJECT)
    for a in self._attrs:
        obj = getattr(obj, a, NONE_OBJECT)

    if obj is NONE_OBJECT:
        continue

    yield obj
""")],
    "TypeMatcherInstance._subrecords": [("ok", """
fields = self._rec._desc.getfields("record")
for f in fields:
    r = getattr(self._rec, f.name)
    if r is not None:
        yield r

fields = self._rec._desc.getfields("record[]")
for f in fields:
    records = getattr(self._rec, f.name)
    if records is not None:
        for r in records:
            yield r
""")],
    "TypeMatcherInstance._op": [
        ("keeps_attrs", """
for v in self._values():
    if op(v, other):
        return True

subrecords = self._subrecords()
for record in subrecords:
    type_matcher = TypeMatcherInstance(record, self._ftypeparts, self._attrs)
    if type_matcher._op(op, other):
        return True

return False
"""),
        ("drops_attrs", """
for v in self._values():
    if op(v, other):
        return True

subrecords = self._subrecords()
for record in subrecords:
    type_matcher = TypeMatcherInstance(record, self._ftypeparts)
    if type_matcher._op(op, other):
        return True

return False
"""),
    ],
}
for _dunder, _opn in (("__eq__", "eq"), ("__ne__", "ne"), ("__lt__", "lt"), ("__gt__", "gt"), ("__le__", "le"),
                      ("__ge__", "ge"), ("__contains__", "contains")):
    TM_REF["TypeMatcherInstance." + _dunder] = [("ok", "return self._op(operator.%s, other)" % _opn)]


NONEOBJECT_GETATTR_REF = """
if name.startswith("__"):
    raise AttributeError(name)
return self
"""


def sentinel_getattr(sel):
    """NoneObject.__getattr__: absent -> False; `non-dunder name -> self` -> True; anything else is not expressible."""
    tree = ast.parse(Path(sel.__file__).read_text())
    cls = next((n for n in tree.body if isinstance(n, ast.ClassDef) and n.name == type(sel.NONE_OBJECT).__name__), None)
    if cls is None:
        raise Unsupported("class of NONE_OBJECT not found")
    if len(type(sel.NONE_OBJECT).__mro__) != 2:
        raise Unsupported("NoneObject has base classes")
    meth = next((n for n in cls.body if isinstance(n, ast.FunctionDef) and n.name == "__getattr__"), None)
    if any(isinstance(n, ast.FunctionDef) and n.name == "__getattribute__" for n in cls.body):
        raise Unsupported("NoneObject.__getattribute__")
    if meth is None:
        return False
    if normal_form_with_args(meth) != _ref_with_args(NONEOBJECT_GETATTR_REF, None, meth) or \
            [a.arg for a in meth.args.args] != ["self", "name"]:
        raise Unsupported("NoneObject.__getattr__ (line %d) has a shape the model does not transcribe" % meth.lineno)
    return True


def typematcher_shapes(sel):
    tree = ast.parse(Path(sel.__file__).read_text())
    classes = {n.name: n for n in tree.body if isinstance(n, ast.ClassDef)}
    out = {}
    for key, refs in TM_REF.items():
        cname, mname = key.split(".")
        cls = classes.get(cname)
        if cls is None:
            raise Unsupported("class %s not found" % cname)
        meth = next((n for n in cls.body if isinstance(n, ast.FunctionDef) and n.name == mname), None)
        if meth is None:
            raise Unsupported("%s not found" % key)
        # parameters are renamed positionally so that the body is compared modulo their names
        nf = normal_form_with_args(meth)
        hit = [tag for tag, src in refs if _ref_with_args(src, [a.arg for a in meth.args.args], meth) == nf]
        if not hit:
            raise Unsupported("%s (line %d) has a shape the model does not transcribe" % (key, meth.lineno))
        out[key] = hit[0]
    return out


def normal_form_with_args(fn) -> str:
    import copy
    return normal_form([copy.deepcopy(fn)])


def _ref_with_args(src, argnames, meth):
    # same signature (names and defaults) as the method, reference body
    text = "def %s(%s):\n" % (meth.name, ast.unparse(meth.args)) + textwrap.indent(textwrap.dedent(src).strip("\n"), "    ")
    return normal_form([ast.parse(text).body[0]])


IS_ALLOWED_REFS = ["""
if isinstance(func, DynamicFieldtypeModule):
    return func._path in WHITELIST
return any(func is allowed for allowed in self.allowed_callables)
""", """
if isinstance(func, DynamicFieldtypeModule):
    return func.path in WHITELIST
return any(func is allowed for allowed in self.allowed_callables)
"""]


def _branches(sel):
    tree = ast.parse(Path(sel.__file__).read_text())
    cls = next((n for n in tree.body if isinstance(n, ast.ClassDef) and n.name == "RecordContextMatcher"), None)
    if cls is None:
        raise Unsupported("class RecordContextMatcher not found")
    meths = {n.name: n for n in cls.body if isinstance(n, ast.FunctionDef)}
    for m in ("_eval", "eval", "matches", "_is_allowed_callable"):
        if m not in meths:
            raise Unsupported("RecordContextMatcher.%s not found" % m)
    fn = meths["_eval"]
    if [a.arg for a in fn.args.args] != ["self", "node"]:
        raise Unsupported("_eval signature")
    body = _strip_docstrings(fn.body)
    if len(body) != 2 or not isinstance(body[0], ast.If):
        raise Unsupported("_eval is not one if/elif chain followed by one statement (line %d)" % fn.lineno)
    final = body[1]
    ok_final = (isinstance(final, ast.Raise) and isinstance(final.exc, ast.Call) and isinstance(final.exc.func, ast.Name)
                and final.exc.func.id == "TypeError" and len(final.exc.args) == 1
                and isinstance(final.exc.args[0], ast.Name) and final.exc.args[0].id == "node")
    if not ok_final:
        raise Unsupported("_eval does not end with `raise TypeError(node)` (line %d)" % final.lineno)
    out = []
    cur = body[0]
    while True:
        t = cur.test
        if not (isinstance(t, ast.Call) and isinstance(t.func, ast.Name) and t.func.id == "isinstance" and len(t.args) == 2
                and isinstance(t.args[0], ast.Name) and t.args[0].id == "node"
                and isinstance(t.args[1], ast.Attribute) and isinstance(t.args[1].value, ast.Name)
                and t.args[1].value.id == "ast"):
            raise Unsupported("_eval dispatch test is not isinstance(node, ast.<Kind>) at line %d" % cur.lineno)
        out.append((t.args[1].attr, cur.body, cur.lineno))
        if not cur.orelse:
            break
        if len(cur.orelse) == 1 and isinstance(cur.orelse[0], ast.If):
            cur = cur.orelse[0]
        else:
            raise Unsupported("_eval has an else branch at line %d" % cur.orelse[0].lineno)
    # eval() must hand the node to _eval unchanged and return its result
    ev = meths["eval"]
    evb = _strip_docstrings(ev.body)
    first = evb[0] if evb else None
    if not (isinstance(first, ast.Assign) and isinstance(first.value, ast.Call) and isinstance(first.value.func, ast.Attribute)
            and first.value.func.attr == "_eval" and len(first.value.args) == 1 and isinstance(first.value.args[0], ast.Name)
            and first.value.args[0].id == ev.args.args[1].arg
            and isinstance(evb[-1], ast.Return) and isinstance(evb[-1].value, ast.Name)
            and evb[-1].value.id == first.targets[0].id):
        raise Unsupported("RecordContextMatcher.eval is not `r = self._eval(node); ...; return r`")
    if normal_form(meths["_is_allowed_callable"].body) not in [_ref(x) for x in IS_ALLOWED_REFS]:
        raise Unsupported("_is_allowed_callable has an unrecognised shape (line %d)" % meths["_is_allowed_callable"].lineno)
    return out


def operator_table(sel):
    tree = ast.parse(Path(sel.__file__).read_text())
    node = None
    for n in tree.body:
        if isinstance(n, ast.Assign) and any(isinstance(t, ast.Name) and t.id == "AST_OPERATORS" for t in n.targets):
            node = n.value
    if not isinstance(node, ast.Dict):
        raise Unsupported("AST_OPERATORS is not a dict display")
    tbl = {}
    for k, v in zip(node.keys, node.values):
        if not (isinstance(k, ast.Attribute) and isinstance(k.value, ast.Name) and k.value.id == "ast"):
            raise Unsupported("AST_OPERATORS key at line %d" % k.lineno)
        if not (isinstance(v, ast.Attribute) and isinstance(v.value, ast.Name) and v.value.id == "operator"):
            raise Unsupported("AST_OPERATORS[%s] is not operator.<name> (line %d)" % (k.attr, v.lineno))
        tbl[k.attr] = v.attr
    live = sel.AST_OPERATORS
    if len(live) != len(tbl):
        raise Unsupported("AST_OPERATORS live table differs from its source")
    for kind, name in tbl.items():
        if live.get(getattr(ast, kind)) is not getattr(_operator, name):
            raise Unsupported("AST_OPERATORS[%s] live value differs from its source" % kind)
    return tbl


def comparator_kinds(sel):
    return sorted(k.__name__ for k in sel.AST_COMPARATORS)


def data_names(sel):
    """What `matches` puts into self.data, observed on a probe record (live), and which entries are callable."""
    import datetime
    from flow.record import RecordDescriptor
    D = RecordDescriptor("probe/c07", [("varint", "probe_field")])
    r = D(probe_field=1, _generated=datetime.datetime(2020, 1, 1, tzinfo=datetime.timezone.utc))
    m = sel.RecordContextMatcher(compile("True", "<c07>", "eval", flags=ast.PyCF_ONLY_AST), "True")
    if m.matches(r) is not True:
        raise Unsupported("matcher on `True` did not return True")
    names = list(m.data)
    out = []
    for n in names:
        v = m.data[n]
        if n == "r":
            kind = "rec" if v is r else None
        elif n == "Type":
            kind = "type" if isinstance(v, sel.TypeMatcher) else None
        elif n in ("None", "True", "False"):
            kind = "const" if v is {"None": None, "True": True, "False": False}[n] else None
        elif callable(v):
            ok = (getattr(v, "__name__", None) == n) or (n == "fields" and getattr(v, "__name__", "") == "getfields")
            kind = "func" if ok and any(v is a for a in m.allowed_callables) else None
        else:
            kind = None
        if kind is None:
            raise Unsupported("self.data[%r] = %r is not something the model knows" % (n, v))
        out.append((n, kind))
    return out


MODELLED_HELPERS = ["lower", "upper", "name", "has_field", "field_equals", "field_contains"]


def helper_signatures(sel):
    out = []
    for n in MODELLED_HELPERS:
        fn = getattr(sel, n, None)
        if fn is None or fn not in sel.FUNCTION_WHITELIST:
            raise Unsupported("helper %s is not in FUNCTION_WHITELIST" % n)
        ps = []
        for p in inspect.signature(fn).parameters.values():
            if p.kind is not p.POSITIONAL_OR_KEYWORD:
                raise Unsupported("helper %s parameter %s kind" % (n, p.name))
            if p.default is p.empty:
                ps.append((p.name, None))
            elif isinstance(p.default, bool):
                ps.append((p.name, p.default))
            else:
                raise Unsupported("helper %s default of %s" % (n, p.name))
        out.append((n, ps))
    return out


def gen_selsem():
    import flow.record.selector as sel
    from flow.record.whitelist import WHITELIST, WHITELIST_TREE
    optbl = operator_table(sel)
    branches = _branches(sel)
    order = [k for k, _, _ in branches]
    shapes = {}
    for kind, body, lineno in branches:
        if kind not in REF:
            raise Unsupported("_eval has a branch for ast.%s (line %d) that the model does not have" % (kind, lineno))
        nf = normal_form(body)
        hit = [tag for tag, src in REF[kind] if _ref(src) == nf]
        if not hit:
            raise Unsupported("the ast.%s branch of _eval (line %d) has a shape the model does not transcribe" % (kind, lineno))
        shapes[kind] = hit[0]
    for kind in REF:
        if kind not in shapes:
            raise Unsupported("_eval has no branch for ast.%s" % kind)
    out = HEADER
    out += "From Coq Require Import List Bool String.\nImport ListNotations.\nOpen Scope string_scope.\n\n"
    out += "(* AST_OPERATORS: ast node kind -> operator.<name> *)\n"
    out += "Definition operator_table : list (string * string) :=\n  %s.\n\n" % clist(
        [cpair(cstr(k), cstr(v)) for k, v in sorted(optbl.items())])
    out += "(* AST_COMPARATORS: the node kinds it has an entry for *)\n"
    out += "Definition comparator_kinds : list string := %s.\n\n" % clist([cstr(k) for k in comparator_kinds(sel)])
    out += "(* RecordContextMatcher._eval: order of the isinstance(node, ast.<Kind>) tests; the last statement is `raise TypeError(node)` *)\n"
    out += "Definition dispatch_order : list string := %s.\n" % clist([cstr(k) for k in order])
    out += "Definition final_raise_typeerror : bool := true.\n\n"
    out += "(* shape of the Compare branch: true = loop over every (op, comparator) pair, conjunction, each operand once;\n"
    out += "   false = only ops[0] / comparators[0] are looked at *)\n"
    out += "Definition compare_is_chained : bool := %s.\n" % cbool(shapes["Compare"] == "chained")
    out += "(* shape of the GeneratorExp branch: true = every condition in gen.ifs is evaluated per value *)\n"
    out += "Definition comprehension_ifs_honoured : bool := %s.\n" % cbool(shapes["GeneratorExp"].startswith("ifs,"))
    out += "(* ... and removes its loop variables from self.data in a `finally` when the generator ends *)\n"
    out += "Definition generator_variables_scoped : bool := %s.\n" % cbool(shapes["GeneratorExp"].endswith(",scoped"))
    out += "(* shape of the BinOp branch: AST_OPERATORS[type(node.op)] is looked up before the operands are evaluated *)\n"
    out += "Definition binop_operator_lookup_first : bool := %s.\n" % cbool(shapes["BinOp"] == "lookup_first")
    out += "(* the remaining branches have exactly the shape transcribed in model/SelSem.v *)\n"
    out += "Definition boolop_eager_bool_fold : bool := true.\nDefinition boolop_swallows_nonetype_typeerror : bool := true.\n"
    out += "Definition binop_sentinel_guard : bool := true.\nDefinition call_allowed_by_identity : bool := true.\n\n"
    tms = typematcher_shapes(sel)
    out += "(* TypeMatcherInstance._op: the matcher built for a nested record gets the attribute path (self._attrs) too *)\n"
    out += "Definition typematcher_recursion_keeps_attrs : bool := %s.\n" % cbool(tms["TypeMatcherInstance._op"] == "keeps_attrs")
    out += "(* TypeMatcher.__getattr__, TypeMatcherInstance.__init__/__getattr__/__iter__/_fields/_values/_subrecords and the\n"
    out += "   comparison dunders have exactly the shape transcribed in model/SelSem.v *)\n"
    out += "Definition typematcher_shapes_ok : bool := true.\n"
    out += "(* NoneObject.__getattr__: a non-dunder attribute of the missing-field sentinel is the sentinel itself *)\n"
    out += "Definition sentinel_attribute_is_sentinel : bool := %s.\n\n" % cbool(sentinel_getattr(sel))
    out += "(* self.data as `matches` builds it: name, kind of value *)\n"
    out += "Definition data_names : list (string * string) := %s.\n\n" % clist([cpair(cstr(n), cstr(k)) for n, k in data_names(sel)])
    out += "Definition function_whitelist_names : list string := %s.\n" % clist([cstr(f.__name__) for f in sel.FUNCTION_WHITELIST])
    out += "(* signatures of the helper functions the model implements: parameter name, default *)\n"
    out += "Definition helper_signatures : list (string * list (string * option bool)) :=\n  %s.\n\n" % clist(
        [cpair(cstr(n), clist([cpair(cstr(p), copt(d, cbool)) for p, d in ps])) for n, ps in helper_signatures(sel)], sep=";\n   ")
    out += "Definition whitelist : list string := %s.\n" % clist([cstr(w) for w in WHITELIST])
    out += "Definition whitelist_roots : list string := %s.\n" % clist([cstr(w) for w in WHITELIST_TREE])
    out += "(* the namespace of the compiled engine besides r / Type: FUNCTION_WHITELIST names and these *)\n"
    cs = sel.CompiledSelector("True")
    extra = sorted(k for k in cs.ns if k not in {f.__name__ for f in sel.FUNCTION_WHITELIST})
    out += "Definition compiled_extra_names : list string := %s.\n" % clist([cstr(k) for k in extra])
    from flow.record.base import DynamicFieldtypeModule
    from flow.record.base import dynamic_fieldtype

    def same_as_interpreted(k):
        # what the interpreted engine's Name branch resolves the root to: getattr(dynamic_fieldtype, k)
        want, got = getattr(dynamic_fieldtype, k), cs.ns[k]
        def dotted(m):       # the dotted path so far: `_path` (`path` before d02d67c)
            return m.__dict__.get("_path", m.__dict__.get("path"))

        if isinstance(want, DynamicFieldtypeModule):
            return isinstance(got, DynamicFieldtypeModule) and dotted(got) == dotted(want) == k
        return type(got) is type(want) and got == want       # before d02d67c `path` was the instance attribute 

    dyn = all(same_as_interpreted(k) for k in extra) and isinstance(cs.ns.get("net"), DynamicFieldtypeModule)
    roots_ok = all(isinstance(getattr(dynamic_fieldtype, k), DynamicFieldtypeModule) for k in WHITELIST_TREE)
    out += "(* getattr(dynamic_fieldtype, <root>) is a field-type module for EVERY whitelisted root (no root is shadowed by an\n"
    out += "   attribute of DynamicFieldtypeModule itself, as `path` was) *)\n"
    out += "Definition fieldtype_roots_resolve : bool := %s.\n" % cbool(roots_ok)
    out += "(* ... every one of them is what the interpreted engine resolves the name to (DynamicFieldtypeModule(<name>), resolved\n"
    out += "   through the whitelist; a plain module object would resolve net.ipv4 / net.tcp only once that submodule is imported) *)\n"
    out += "Definition compiled_roots_dynamic : bool := %s.\n" % cbool(dyn)
    import builtins as _b
    out += "(* names Python itself defines (builtins): outside the model unless bound above *)\n"
    out += "Definition python_builtin_names : list string := %s.\n" % clist([cstr(n) for n in sorted(dir(_b)) if n.isidentifier()])
    if order != EXPECTED_ORDER:
        # not fatal for the translator: the proof side condition (C07_generated_shapes) will not check
        pass
    write_if_changed(GEN / "Gen_selsem.v", out)


GENERATORS = [gen_selsem]
