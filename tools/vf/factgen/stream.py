"""Facts of packer.py / stream.py / base.py used by the stream models (C01-C04): gen/Gen_packer.v."""
from __future__ import annotations

import ast
import inspect
import textwrap

from vf.coqlit import cbool
from vf.factlib import GEN, HEADER, Unsupported, write_if_changed


def _guard_compares_desc(packer_mod, base):
    """What decides whether the writer announces a record's descriptor (RecordPacker.pack_obj -> register(desc, True)):
       True   the descriptor registered under the record's identifier is compared with the record's own descriptor
              (a different descriptor that shares the identifier is announced again)
       False  only the identifier is looked up (a different descriptor with a known identifier is NOT announced)
    Determined BEHAVIOURALLY on descriptors built for the purpose (so that a re-spelling or an extracted helper does not
    matter): packing, on one packer, records of two descriptors whose identifiers coincide, of one descriptor twice, and
    of same-named descriptors with different identifiers - as plain records, as group members and nested in a record
    field.  All three positions must agree, and the other announcements must be exactly "first use of a definition";
    anything else is Unsupported."""
    RD, GR = base.RecordDescriptor, base.GroupedRecord
    c1 = RD("fact/c", [("stringlist", "a"), ("string", "b")])
    c2 = RD("fact/c", [("string", "a"), ("string", "listb")])
    a1 = RD("fact/a", [("string", "s"), ("varint", "n")])
    a2 = RD("fact/a", [("string", "s")])
    hold = RD("fact/h", [("record", "r")])
    if c1.identifier != c2.identifier or a1.identifier == a2.identifier:
        raise Unsupported("the probe descriptors do not have the identifier relation the probe needs")

    def announced(items):
        p = packer_mod.RecordPacker()
        seen = []
        p.on_descriptor.add_handler(lambda d: seen.append((d.name, tuple(d.get_field_tuples()))))
        per_item = []
        for it in items:
            before = len(seen)
            p.pack(it)
            per_item.append(seen[before:])
        return per_item

    key = lambda d: (d.name, tuple(d.get_field_tuples()))  # noqa: E731
    verdicts = []
    for wrap in ("plain", "group", "nested"):
        def mk(d, wrap=wrap):
            r = d()
            if wrap == "group":
                return GR("fact/g", [r])
            if wrap == "nested":
                return hold(r=r)
            return r
        per = announced([mk(c1), mk(c2), mk(c1), mk(a1), mk(a1), mk(a2), mk(a1)])
        strip = [[x for x in got if x[0] not in ("fact/h",)] for got in per]
        # first uses are always announced; a repeated definition is never announced again while it is the registered one
        if strip[0] != [key(c1)] or strip[3] != [key(a1)] or strip[4] != [] or strip[5] != [key(a2)] or strip[6] != []:
            raise Unsupported("RecordPacker announces descriptors in an unrecognised pattern (%s records): %r" % (wrap, strip))
        if strip[1] == [key(c2)] and strip[2] == [key(c1)]:
            verdicts.append(True)
        elif strip[1] == [] and strip[2] == []:
            verdicts.append(False)
        else:
            raise Unsupported("RecordPacker: unrecognised announcements for identifier-coincident descriptors (%s records): %r" % (wrap, strip[:3]))
    if len(set(verdicts)) != 1:
        raise Unsupported("RecordPacker: plain records, group members and nested records are announced by different rules: %r" % verdicts)
    return verdicts[0]


def _desc_eq_is_structural(base):
    """The registration guards compare descriptors with != : that is a comparison of the DEFINITIONS (name and ordered
    (type, name) field list) only if RecordDescriptor.__eq__ is.  Determined on descriptors built for the purpose:
    two whose identifiers coincide, two of one name with different fields, two equal definitions built separately."""
    RD = base.RecordDescriptor
    c1 = RD("fact/c", [("stringlist", "a"), ("string", "b")])
    c2 = RD("fact/c", [("string", "a"), ("string", "listb")])
    a1 = RD("fact/a", [("string", "s"), ("varint", "n")])
    a2 = RD("fact/a", [("string", "s")])
    a3 = RD("fact/a", [("varint", "n"), ("string", "s")])
    a1b = RD("fact/a", [("string", "s"), ("varint", "n")])
    b1 = RD("fact/b", [("string", "s"), ("varint", "n")])
    if c1.identifier != c2.identifier:
        raise Unsupported("the probe descriptors no longer share an identifier (hash input changed?)")
    different = [(c1, c2), (a1, a2), (a1, a3), (a1, b1), (a2, a3)]
    same = [(a1, a1b), (c1, c1)]
    ok_diff = all((x != y) is True and (x == y) is False and (y != x) is True for x, y in different)
    ok_same = all((x == y) is True and (x != y) is False and hash(x) == hash(y) for x, y in same)
    if ok_diff and ok_same:
        return True
    if ok_same:
        return False           # some different definitions compare equal
    raise Unsupported("RecordDescriptor.__eq__: equal definitions built separately do not compare equal")


def _hash_input_shape(base):
    """calc_descriptor_hash: data = name + "".join(f"{n}{t}" for t, n in fields); sha256; first 4 bytes; big."""
    fn = base.RecordDescriptor.calc_descriptor_hash
    fn = getattr(fn, "__wrapped__", fn)
    src = textwrap.dedent(inspect.getsource(fn))
    tree = ast.parse(src).body[0]
    order = None
    for node in ast.walk(tree):
        if isinstance(node, ast.GeneratorExp) and isinstance(node.elt, ast.JoinedStr):
            tgt = node.generators[0].target
            if not (isinstance(tgt, ast.Tuple) and len(tgt.elts) == 2):
                raise Unsupported("hash input generator target")
            tname, nname = tgt.elts[0].id, tgt.elts[1].id      # for t, n in fields
            parts = []
            for v in node.elt.values:
                if isinstance(v, ast.FormattedValue) and isinstance(v.value, ast.Name) and v.conversion == -1 and v.format_spec is None:
                    parts.append("type" if v.value.id == tname else "name" if v.value.id == nname else None)
                else:
                    parts.append(None)
            if None in parts:
                raise Unsupported("hash input f-string parts")
            order = parts
    # behavioural determination / cross-check on samples (robust against a harmless re-spelling)
    import hashlib
    cands = [["name", "type"], ["type", "name"]] if order is None else [order]
    name, fields = "a/b", (("string", "x"), ("varint[]", "yy"))
    for cand in cands:
        data = name + "".join("".join(n if p == "name" else t for p in cand) for t, n in fields)
        want = int.from_bytes(hashlib.sha256(data.encode()).digest()[:4], "big")
        if fn(name, fields) == want:
            return cand
    raise Unsupported("calc_descriptor_hash does not compute sha256(name + per-field parts)[:4] big-endian")


def _ip6_small_packed():
    """How net.ipaddress._pack represents IPv6 addresses below 2**32 (probed on the boundary values)."""
    import ipaddress as pyip
    from flow.record.fieldtypes.net.ip import ipaddress
    small = [ipaddress(s)._pack() for s in ("::", "::1", "::ffff:ffff")]
    big = [ipaddress(s)._pack() for s in ("::1:0:0", "2001:db8::1", "1.2.3.4", "0.0.0.1")]
    if not all(isinstance(b, int) and not isinstance(b, bool) for b in big):
        raise Unsupported("net.ipaddress._pack: IPv4 / large IPv6 addresses are not packed as integers")
    if all(isinstance(x, bytes) and len(x) == 16 and int.from_bytes(x, "big") == int(pyip.ip_address(s))
           for x, s in zip(small, ("::", "::1", "::ffff:ffff"))):
        return True
    if all(isinstance(x, int) for x in small):
        return False
    raise Unsupported("net.ipaddress._pack: unrecognised representation of small IPv6 addresses")


def _code_names(code):
    names = set(code.co_names)
    for c in code.co_consts:
        if hasattr(c, "co_names"):
            names |= _code_names(c)
    return names


def _pack_is_config_free(base, packer_mod):
    """What is written must not depend on the comparison configuration: Record._pack / GroupedRecord._pack leave fields
    out only when the caller passes excluded_fields, and RecordPacker.pack_obj passes none.
    True  -> neither _pack body reads IGNORE_FIELDS_FOR_COMPARISON (or any other module global besides FieldType) and
             pack_obj calls _pack without excluded_fields
    False -> one of them reads the comparison configuration."""
    reads = False
    for cls in (base.Record, base.GroupedRecord):
        fn = cls.__dict__.get("_pack")
        if fn is None:
            raise Unsupported("%s._pack not found" % cls.__name__)
        names = _code_names(fn.__code__)
        module_globals = {n for n in names if n in vars(base) and not n.startswith("__") and n not in vars(__import__("builtins"))}
        if module_globals - {"FieldType"}:
            if "IGNORE_FIELDS_FOR_COMPARISON" in module_globals:
                reads = True
            else:
                raise Unsupported("%s._pack reads module globals %s" % (cls.__name__, sorted(module_globals - {"FieldType"})))
        sig = inspect.signature(fn)
        if "excluded_fields" not in sig.parameters or sig.parameters["excluded_fields"].default is not None:
            raise Unsupported("%s._pack: excluded_fields parameter missing or its default is not None" % cls.__name__)
    src = textwrap.dedent(inspect.getsource(packer_mod.RecordPacker.pack_obj))
    for node in ast.walk(ast.parse(src)):
        if isinstance(node, ast.Call) and isinstance(node.func, ast.Attribute) and node.func.attr == "_pack":
            if any(kw.arg in ("excluded_fields", None) for kw in node.keywords) or len(node.args) > 1:
                raise Unsupported("RecordPacker.pack_obj passes excluded_fields to _pack (line %d)" % node.lineno)
    return not reads


def gen_packer():
    import flow.record.base as base
    import flow.record.packer as packer
    guard = _guard_compares_desc(packer, base) and _desc_eq_is_structural(base)
    order = _hash_input_shape(base)
    out = HEADER
    out += "From Coq Require Import List Bool NArith ZArith String.\nFrom Coq Require Import Init.Byte.\n"
    out += "From FR Require Import Bytes Packer.\nImport ListNotations.\nOpen Scope Z_scope.\n\n"
    magic = base.RECORDSTREAM_MAGIC
    out += "Definition the_cfg : cfg := {|\n"
    out += "  EXT := %d%%N;\n" % packer.RECORD_PACK_EXT_TYPE
    out += "  SUB_RECORD := %d; SUB_DESC := %d; SUB_DATETIME := %d; SUB_VARINT := %d; SUB_GROUPED := %d;\n" % (
        packer.RECORD_PACK_TYPE_RECORD, packer.RECORD_PACK_TYPE_DESCRIPTOR, packer.RECORD_PACK_TYPE_DATETIME,
        packer.RECORD_PACK_TYPE_VARINT, packer.RECORD_PACK_TYPE_GROUPEDRECORD)
    out += "  VERSION := %d;\n" % base.RECORD_VERSION
    out += '  MAGIC := unhex "%s";\n' % magic.hex()
    out += "  GUARD_COMPARES_DESC := %s;\n" % cbool(guard)
    out += "  IP6_SMALL_PACKED := %s |}.\n\n" % cbool(_ip6_small_packed())
    out += "Definition reserved_fields : list (string * string) := [%s]%%string.\n" % "; ".join(
        '("%s", "%s")' % (k, v) for k, v in base.RESERVED_FIELDS.items())
    out += "Definition magic_depth : nat := %d.\n" % base.RECORDSTREAM_MAGIC_DEPTH
    pk = dict(packer.packb.keywords)
    uk = dict(packer.unpackb.keywords)
    out += "Definition packb_use_bin_type : bool := %s.\n" % cbool(pk.get("use_bin_type") is True)
    out += "Definition packb_surrogateescape : bool := %s.\n" % cbool(pk.get("unicode_errors") == "surrogateescape")
    out += "Definition unpackb_raw : bool := %s.\n" % cbool(uk.get("raw") is not False)
    out += "Definition unpackb_surrogateescape : bool := %s.\n" % cbool(uk.get("unicode_errors") == "surrogateescape")
    out += "(* per-field order of the parts of the descriptor hash input *)\n"
    out += "Definition hash_field_order : list string := [%s]%%string.\n" % "; ".join('"%s"' % p for p in order)
    cls = packer.RecordPacker
    src = textwrap.dedent(inspect.getsource(cls.__init__))
    init = ast.parse(src).body[0]
    assigned = {t.attr for n in ast.walk(init) if isinstance(n, ast.Assign) for t in n.targets
                if isinstance(t, ast.Attribute) and isinstance(t.value, ast.Name) and t.value.id == "self"}
    out += "Definition packer_registry_is_instance_state : bool := %s.\n" % cbool(
        "descriptors" in assigned and "descriptors" not in cls.__dict__)
    out += "(* what is written does not depend on the ignored-fields configuration of record comparison *)\n"
    out += "Definition pack_is_config_free : bool := %s.\n" % cbool(_pack_is_config_free(base, packer))
    write_if_changed(GEN / "Gen_packer.v", out)


GENERATORS = [gen_packer]
