"""C20 facts read off the BEHAVIOUR of the writers: every layout parameter of CsvfileWriter / LineWriter / TextWriter
is derived from the bytes the real writer produces on purpose-built probe records, and the derived parameters are then
validated by predicting a second battery (record types alternating, an equal descriptor object created in between,
fields= / exclude= / every option value, values that need quoting, unset fields) exactly.  A writer whose output the
parameters cannot predict makes the translator fail closed (Unsupported)."""
from __future__ import annotations

import csv
import datetime as _dt
import io
import os
import shutil
import string
import tempfile
import warnings

from vf.factlib import Unsupported

TS = _dt.datetime(2020, 1, 2, 3, 4, 5, tzinfo=_dt.timezone.utc)
RESERVED_TAIL = ["_source", "_classification", "_generated", "_version"]
ESC_PROBES = string.ascii_letters + string.digits + "\\/.,;:-_ 0"


class _LogFile:
    """a file object that records the sizes it is asked to read"""

    def __init__(self, f, log):
        self._f, self._log = f, log

    def read(self, *a):
        self._log.append(("read",) + tuple(a))
        return self._f.read(*a)

    def __iter__(self):
        return iter(self._f)

    def __next__(self):
        return next(self._f)

    def __getattr__(self, k):
        return getattr(self._f, k)


class logged_open:
    """within the block the module's `open` is a wrapper that logs its arguments and returns a logging file object"""

    def __init__(self, module):
        self.module, self.log = module, []

    def __enter__(self):
        import builtins
        self.had = "open" in vars(self.module)
        self.old = vars(self.module).get("open")
        real = self.old or builtins.open

        def _open(*a, **k):
            self.log.append(("open", a, dict(k)))
            return _LogFile(real(*a, **k), self.log)
        self.module.open = _open
        return self.log

    def __exit__(self, *exc):
        if self.had:
            self.module.open = self.old
        else:
            del self.module.open
        return False


def _open_newline(log, mode_char):
    """the newline argument of the logged open(path, mode, ...) calls with that mode; None when nothing was logged"""
    vals = set()
    for ev in log:
        if ev[0] != "open":
            continue
        a, k = ev[1], ev[2]
        mode = a[1] if len(a) > 1 else k.get("mode", "r")
        if mode_char not in mode or "b" in mode:
            continue
        vals.add(a[5] if len(a) > 5 else k.get("newline", None))
    if not vals:
        return None
    if len(vals) > 1:
        raise Unsupported("files are opened with different newline arguments: %r" % (vals,))
    return ("set", vals.pop())


def _common_prefix(a, b):
    n = 0
    while n < len(a) and n < len(b) and a[n] == b[n]:
        n += 1
    return a[:n]


def _common_suffix(a, b):
    n = 0
    while n < len(a) and n < len(b) and a[-1 - n] == b[-1 - n]:
        n += 1
    return a[len(a) - n:]


def replace_all(tbl, s):
    for a, b in tbl:
        s = s.replace(a, b)
    return s


def _descs():
    from flow.record import RecordDescriptor
    A = RecordDescriptor("probe/a", [("string", "s"), ("varint", "n")])
    B = RecordDescriptor("probe/b", [("string", "t"), ("net.ipaddress", "longer_name")])
    C1 = RecordDescriptor("probe/c", [("string", "a"), ("string", "b")])
    C2 = RecordDescriptor("probe/c", [("string", "astringb")])         # same identifier as C1, other fields
    return A, B, C1, C2


def _keys(rec):
    return list(type(rec).__slots__)


def _select(keys, fields, exclude):
    ex = (exclude.split(",") if isinstance(exclude, str) else list(exclude)) if exclude else []
    fl = (fields.split(",") if isinstance(fields, str) else list(fields)) if fields else None
    if fl:
        out = []
        for k in fl:
            if k in keys and k not in ex and k not in out:
                out.append(k)
        return out
    return [k for k in keys if k not in ex]


def _dkey(rec):
    return (rec._desc.name, tuple(rec._desc.get_field_tuples()))


class _Twin:
    def __init__(self, desc):
        self.desc = desc

    def fire(self):
        from flow.record import RecordDescriptor
        RecordDescriptor(self.desc.name, [(t, n) for t, n in self.desc.get_field_tuples()])


def battery():
    """write script exercising record-type changes, an equal descriptor object created between writes, colliding
    identifiers, values that need quoting, unset fields"""
    A, B, C1, C2 = _descs()
    return [
        A(s="x", n=1, _generated=TS), A(s="a,b", n=None, _generated=TS), B(t='q"q', longer_name="::1", _generated=TS),
        A(s="l\nf", n=2, _generated=TS), _Twin(A), A(s="", n=3, _source="src", _generated=TS),
        B(t="cr\rx", longer_name=None, _generated=TS), B(t=" sp ", _generated=TS),
        C1(a="1", b="2", _generated=TS), C2(astringb="3", _generated=TS), C1(a="4", b=None, _generated=TS),
        A(s="é\U0001f600", n=-5, _generated=TS),
    ]


SELECTIONS = [
    {}, {"fields": "n,s,t"}, {"exclude": ",".join(RESERVED_TAIL)}, {"fields": ["s", "nosuch", "s", "longer_name"], "exclude": ["n"]},
    {"fields": "nosuchfield"}, {"exclude": "s,t,a"},
]


# ------------------------------------------------------------------------------------------------
# CsvfileWriter

def _csv_run(tmp, script, **kw):
    from flow.record.adapter.csvfile import CsvfileWriter
    path = os.path.join(tmp, "probe.csv")
    if os.path.exists(path):
        os.unlink(path)
    w = CsvfileWriter(path, **kw)
    try:
        for r in script:
            if isinstance(r, _Twin):
                r.fire()
            else:
                w.write(r)
        w.flush()
    finally:
        w.close()
    with open(path, "rb") as f:
        return f.read()


def _csv_terminator(tmp, arg):
    """the line terminator the writer uses for the `lineterminator` argument, read off a two-row file"""
    from flow.record import RecordDescriptor
    key = "Q" if not (arg and "Q" in arg) else "Z"
    D = RecordDescriptor("probe/t", [("string", key)])
    kw = {} if arg is None else {"lineterminator": arg}
    out = _csv_run(tmp, [D(**{key: "é", "_generated": TS})], fields=key, **kw).decode("utf-8")
    n = len(out) - 2
    if n < 0 or n % 2:
        raise Unsupported("CsvfileWriter: a one-field record does not produce <name><T><value><T> (lineterminator=%r): %r" % (arg, out))
    t = out[1:1 + n // 2]
    if out != key + t + "é" + t:
        raise Unsupported("CsvfileWriter: a one-field record does not produce <name><T><value><T> (lineterminator=%r): %r" % (arg, out))
    return t


def _csv_expected(script, sel, term):
    rows, prev, header = [], None, None
    for r in script:
        if isinstance(r, _Twin):
            continue
        keys = _select(_keys(r), sel.get("fields"), sel.get("exclude"))
        if prev is None or _dkey(r) != prev:
            header = keys
            rows.append(list(keys))
        prev = _dkey(r)
        rows.append(["" if getattr(r, k) is None else str(getattr(r, k)) for k in header])
    s = io.StringIO(newline="")
    w = csv.writer(s, lineterminator=term)            # the csv module's own QUOTE_MINIMAL writer
    for row in rows:
        w.writerow(row)
    return s.getvalue()


def observe_csv():
    os.makedirs("/verif/.work", exist_ok=True)
    tmp = tempfile.mkdtemp(prefix="C20.facts.", dir="/verif/.work")
    try:
        with warnings.catch_warnings():
            warnings.simplefilter("ignore")
            default = _csv_terminator(tmp, None)
            if _csv_terminator(tmp, "") != default:
                raise Unsupported("CsvfileWriter: lineterminator='' does not select the default terminator")
            table = []
            for x in ESC_PROBES:
                arg = "\\" + x
                t = _csv_terminator(tmp, arg)
                if t != arg:
                    table.append((arg, t))
            order = {"\\r": 0, "\\n": 1, "\\t": 2}
            table.sort(key=lambda p: (order.get(p[0], 9), p[0]))
            # the table must explain every other terminator argument
            for arg in ["\\r\\n", "\\n\\r", "\r\n", "\n", "\r", "\\\\n", "\\\\r\\\\n", "x\\ny", ";", "\\", "\\x\\n", "\\r\\r\\n", "ab", "\\t|"]:
                if _csv_terminator(tmp, arg) != replace_all(table, arg):
                    raise Unsupported("CsvfileWriter: lineterminator=%r gives %r, not explained by the escape table %r" % (
                        arg, _csv_terminator(tmp, arg), table))
            # the error handler of the output file
            from flow.record import RecordDescriptor
            from flow.record.adapter import csvfile
            D = RecordDescriptor("probe/t", [("string", "Q")])
            with logged_open(csvfile) as log:
                _csv_run(tmp, [D(Q="x", _generated=TS)], fields="Q")
            newline = _open_newline(log, "w")
            try:
                out = _csv_run(tmp, [D(Q="a\udcff", _generated=TS)], fields="Q")
                if b"a\xff" not in out:
                    raise Unsupported("CsvfileWriter: a surrogate-escaped byte is written as %r" % out)
                se = True
            except UnicodeEncodeError:
                se = False
            if "é".encode("utf-8") not in _csv_run(tmp, [D(Q="é", _generated=TS)], fields="Q"):
                raise Unsupported("CsvfileWriter: the output file is not UTF-8")
            # layout: header row exactly when the descriptor VALUE changes; cells = str(value), "" when unset;
            # quoting = the csv module's QUOTE_MINIMAL with that terminator
            script = battery()
            for sel in SELECTIONS:
                for targ in (None, "\\n", "\\r\\n", "\n"):
                    kw = dict(sel)
                    if targ is not None:
                        kw["lineterminator"] = targ
                    term = replace_all(table, targ or default)
                    try:
                        out = _csv_run(tmp, script, **kw).decode("utf-8")
                    except Exception as e:  # noqa
                        raise Unsupported("CsvfileWriter(%r) raises %s: %s on the probe battery" % (kw, type(e).__name__, e))
                    want = _csv_expected(script, sel, term)
                    if out != want:
                        k = len(_common_prefix(out, want))
                        raise Unsupported("CsvfileWriter(%r): output differs from header-per-descriptor-change layout written by "
                                          "csv.writer at offset %d: %r vs expected %r" % (kw, k, out[max(0, k - 30):k + 30], want[max(0, k - 30):k + 30]))
        return dict(default=default, repl=table, se=se, newline=newline)
    finally:
        shutil.rmtree(tmp, ignore_errors=True)


# ------------------------------------------------------------------------------------------------
# LineWriter

def _line_blocks(script, **kw):
    """per write(): the bytes that write appended (decoded)"""
    from flow.record.adapter.line import LineWriter
    buf = io.BytesIO()
    w = LineWriter(buf, **kw)
    out = []
    for r in script:
        if isinstance(r, _Twin):
            r.fire()
            continue
        before = len(buf.getvalue())
        w.write(r)
        w.flush()
        out.append(buf.getvalue()[before:].decode("utf-8", "surrogateescape"))
    return out


def _line_expected(p, script, sel, verbose):
    out, n = [], 0
    for r in script:
        if isinstance(r, _Twin):
            continue
        n += 1
        keys = _select(_keys(r), sel.get("fields"), sel.get("exclude"))
        types = {k: f.typename for k, f in r._desc.get_all_fields().items()}
        block = p["hdr"][0] + str(n) + p["hdr"][1]
        if keys:
            if verbose:
                width = max(len(k) + len(types[k]) for k in keys) + p["extra"]
            else:
                width = max(len(k) for k in keys)
            for k in keys:
                label = k + p["vkey"][0] + types[k] + p["vkey"][1] if verbose else k
                v = getattr(r, k)
                block += label.rjust(width) + p["sep"] + ("None" if v is None else str(v)) + p["end"]
        out.append(block)
    return out


def observe_line():
    from flow.record import RecordDescriptor
    with warnings.catch_warnings():
        warnings.simplefilter("ignore")
        P = RecordDescriptor("probe/line", [("string", "a"), ("net.ipaddress", "b"), ("varint", "cccccc")])
        # block header: <pre><count><suf>, count from 1
        hdrs = _line_blocks([P(a="x", _generated=TS) for _ in range(12)], fields="nosuchfield")
        pre = _common_prefix(hdrs[0], hdrs[1])
        if not hdrs[0].startswith(pre + "1"):
            raise Unsupported("LineWriter: block header %r does not hold the record count" % hdrs[0])
        suf = hdrs[0][len(pre) + 1:]
        if [pre + str(i + 1) + suf for i in range(12)] != hdrs:
            raise Unsupported("LineWriter: block headers are not <pre><count><suf>: %r" % hdrs[:3])

        def one_line(value, verbose, nth):
            blk = _line_blocks([P(a=value, _generated=TS)], fields="a", verbose=verbose)[0]
            h = pre + "1" + suf
            if not blk.startswith(h):
                raise Unsupported("LineWriter: block does not start with its header: %r" % blk)
            return blk[len(h):]
        l1, l2 = one_line("Xq", False, 0), one_line("Yrr", False, 0)
        head, end = _common_prefix(l1, l2), _common_suffix(l1, l2)
        if l1 != head + "Xq" + end or l2 != head + "Yrr" + end:
            raise Unsupported("LineWriter: a field line is not <label><sep><value><end>: %r" % l1)
        if not head.startswith("a"):
            raise Unsupported("LineWriter: the only key is padded (width is not the longest key): %r" % l1)
        sep = head[1:]
        v1 = one_line("Xq", True, 0)
        if not v1.endswith(sep + "Xq" + end):
            raise Unsupported("LineWriter(verbose): a field line is not <label><sep><value><end>: %r" % v1)
        body = v1[:len(v1) - len(sep + "Xq" + end)]
        lab = body.lstrip(" ")
        if not lab.startswith("a") or "string" not in lab[1:]:
            raise Unsupported("LineWriter(verbose): label %r does not hold the key and the type name" % lab)
        i = lab.index("string", 1)
        mid, vend = lab[1:i], lab[i + 6:]
        extra = len(body) - (1 + 6)
        # error handler
        try:
            blk = _line_blocks([P(a="a\udcff", _generated=TS)], fields="a")[0]
            if "a\udcff" not in blk:
                raise Unsupported("LineWriter: a surrogate-escaped byte is written as %r" % blk)
            se = True
        except UnicodeEncodeError:
            se = False
        p = dict(hdr=(pre, suf), sep=sep, end=end, vkey=(mid, vend), extra=extra, se=se)
        if extra < 0 or extra > 1000 or "\n" not in end:
            raise Unsupported("LineWriter: derived layout parameters are implausible: %r" % (p,))
        # the parameters must predict the battery exactly (width rule: longest key / longest key+type + extra)
        script = battery() + [P(a="v", b="10.0.0.1", cccccc=None, _generated=TS), P(_generated=TS)]
        for sel in SELECTIONS + [{"fields": "a,b"}, {"fields": "cccccc,b"}]:
            for verbose in (False, True):
                try:
                    got = _line_blocks(script, verbose=verbose, **sel)
                except Exception as e:  # noqa
                    raise Unsupported("LineWriter(%r, verbose=%r) raises %s: %s on the probe battery" % (sel, verbose, type(e).__name__, e))
                want = _line_expected(p, script, sel, verbose)
                if got != want:
                    j = next(i for i in range(len(want)) if i >= len(got) or got[i] != want[i])
                    raise Unsupported("LineWriter(%r, verbose=%r): block %d is %r, the derived layout predicts %r" % (
                        sel, verbose, j + 1, got[j] if j < len(got) else None, want[j]))
    return p


# ------------------------------------------------------------------------------------------------
# TextWriter

def _text_out(script, **kw):
    from flow.record.adapter.text import TextWriter
    buf = io.BytesIO()
    w = TextWriter(buf, **kw)
    for r in script:
        if isinstance(r, _Twin):
            r.fire()
        else:
            w.write(r)
    w.flush()
    return buf.getvalue().decode("utf-8", "surrogateescape")


def observe_text():
    with warnings.catch_warnings():
        warnings.simplefilter("ignore")
        A, B, C1, C2 = _descs()
        r = A(s="Xq", n=7, _generated=TS)
        out = _text_out([r])
        if not out.startswith(repr(r)):
            raise Unsupported("TextWriter: output without a template does not start with repr(record): %r" % out)
        end = out[len(repr(r)):]
        for kw in ({"format_spec": ""}, {"format_spec": None}):
            if _text_out([r], **kw) != out:
                raise Unsupported("TextWriter(%r) does not print repr(record)" % kw)
        t = _text_out([r], format_spec="{s}|{zzz}|{n}")
        if not (t.startswith("Xq|") and t.endswith("|7" + end) and "zzz" in t):
            raise Unsupported("TextWriter: template '{s}|{zzz}|{n}' renders %r" % t)
        m = t[3:len(t) - len("|7" + end)]
        mo, mc = m[:m.index("zzz")], m[m.index("zzz") + 3:]
        table = []
        for x in ESC_PROBES:
            if x in "{}":
                continue
            arg = "\\" + x
            o = _text_out([r], format_spec=arg)
            if not o.endswith(end):
                raise Unsupported("TextWriter: line for format_spec %r does not end with %r" % (arg, end))
            res = o[:len(o) - len(end)]
            if res != arg:
                table.append((arg, res))
        order = {"\\r": 0, "\\n": 1, "\\t": 2}
        table.sort(key=lambda p: (order.get(p[0], 9), p[0]))
        try:
            o = _text_out([A(s="a\udcff", n=1, _generated=TS)], format_spec="{s}")
            if o != "a\udcff" + end:
                raise Unsupported("TextWriter: a surrogate-escaped byte is written as %r" % o)
            se = True
        except UnicodeEncodeError:
            se = False
        # validation: templates (escapes, unknown names, conversions, specs, doubled braces) and repr over the battery
        from flow.record import RecordDescriptor
        from flow.record.fieldtypes import path as _p
        T = RecordDescriptor("probe/tpl", [("path", "p"), ("uri", "u"), ("datetime", "ts"), ("string[]", "tags"), ("dictlist", "dl"),
                                           ("varint", "n"), ("varint", "w"), ("string", "s")])
        forms = [T(p=_p.from_posix("/var/log/app.log"), u="https://host.example/x", ts=TS, tags=["red", "blue"], dl=[{"k": "v1"}],
                   n=255, w=7, s="val", _generated=TS),
                 T(p=_p.from_posix("rel/b.txt"), u="ftp://h/", ts=TS, tags=["only"], dl=[{"k": "v2"}], n=-3, w=4, s='q"x', _generated=TS)]
        script = [x for x in battery() if not isinstance(x, _Twin)]
        if _text_out(battery()) != "".join(repr(x) + end for x in script):
            raise Unsupported("TextWriter: output without a template is not repr(record)%r per record" % end)
        plain = ["{s}", "x\\t{s}\\n{n}|{t}", "{{{s}}} {zz!r} {n!s:>4}", "\\\\n{_source}", "{s:>6}|{t:<5}|{nosuch:^9}", "plain é", "\\r{a}{b}"]
        # every replacement-field form of str.format: attribute / index access, fields nested in a spec, conversion with
        # spec, a field used only inside a spec, repeated fields, literal braces, positional fields (an error)
        other = ["{p.name}|{u.scheme}|{ts.year}", "{tags[0]}|{dl[0][k]}", "{n:>{w}}|{s:{w}}|{n:#x}", "{s!r:>10}|{s!a}", "{s}{s}{{{s}}}{{}}",
                 "{zz:>{w}}", "{s:>{nosuch}}", "{}", "{0}", "{tags[5]}", "{nosuch.attr}", "{p.parent.name}{p.suffix}", "{n!r:>{w}}"]
        for tpl, script in [(t, script) for t in plain] + [(t, forms) for t in other]:
            rt = replace_all(table, tpl)
            want = ""
            for x in script:
                d = {k: getattr(x, k) for k in _keys(x)}

                class _M(dict):
                    def __missing__(self, key):
                        return mo + key + mc
                try:
                    want += rt.format_map(_M(d)) + end
                except Exception:
                    want = None
                    break
            try:
                got = _text_out(script, format_spec=tpl)
            except Exception as e:  # noqa
                got = None
                if want is not None:
                    raise Unsupported("TextWriter(format_spec=%r) raises %s: %s on the probe battery" % (tpl, type(e).__name__, e))
            if got != want:
                raise Unsupported("TextWriter(format_spec=%r) writes %r, expected the template applied to the fields: %r" % (
                    tpl, (got or "")[:120], (want or "")[:120]))
    return dict(repl=table, se=se, end=end, missing=(mo, mc))


# ------------------------------------------------------------------------------------------------
# CsvfileReader: a file whose first row consists of field names is read in the writer's dialect

READER_PROBES = [
    # (text in the writer's dialect, note) -- every one of these misleads csv.Sniffer
    ('s,u\r\nz,"a,b"\r\n', "quoted cell holding the delimiter in the last column, CRLF"),
    ('_source,s\r\nsrc,plain\r\nsrc,"a,b"\r\n', "reserved field first"),
    ("s,u,n\r\nplain,'q',1\r\n", "single quotes in a value"),
    ('s,u\r\nx, lead\r\ny,"a, b"\r\n', "space after the delimiter"),
    ('s,u\r\nplain,"q""q"\r\nz,"a,b"\r\n', "doubled quotes"),
    ('s,u\nz,"a ""q"" b"\n', "quotes and spaces, LF"),
    ("s\r\nx y\r\n", "one column"),
    ('my-col,col (x),9lives\r\n1,"2;3",4|5\r\n', "names that need normalising, other candidate delimiters in cells"),
    ('a,b\r\n"l\nf",";;;;"\r\n\t,:\r\n', "line feed inside a cell; TAB, colon"),
]


def observe_reader():
    from flow.record.adapter import csvfile
    from flow.record.adapter.csvfile import CsvfileReader
    from flow.record.base import normalize_fieldname
    os.makedirs("/verif/.work", exist_ok=True)
    tmp = tempfile.mkdtemp(prefix="C20.facts.", dir="/verif/.work")
    try:
        with warnings.catch_warnings():
            warnings.simplefilter("ignore")
            path = os.path.join(tmp, "probe_r.csv")

            def read_file(text, **kw):
                with open(path, "w", newline="", encoding="utf-8") as f:
                    f.write(text)
                rd = CsvfileReader(path, **kw)
                try:
                    return list(rd.desc.fields), [[getattr(r, k) for k in r._desc.fields] for r in rd]
                finally:
                    rd.close()
            for text, note in READER_PROBES:
                rows = [list(r) for r in csv.reader(io.StringIO(text, newline=""))]
                keep = [j for j, h in enumerate(rows[0]) if not normalize_fieldname(h).startswith("_")]
                want = ([normalize_fieldname(rows[0][j]) for j in keep], [[r[j] for j in keep] for r in rows[1:]])
                try:
                    got = read_file(text)
                except Exception as e:  # noqa
                    got = "%s: %s" % (type(e).__name__, e)
                if got != want:
                    raise Unsupported("CsvfileReader does not read a file whose first row consists of field names in the "
                                      "writer's dialect, under the normalised header names that do not start with '_' (%s): %r is "
                                      "read as %r, expected %r" % (note, text, got, want))
            # the fields= argument replaces the header row
            if read_file("1,2\r\n3,\"4,5\"\r\n", fields="my-col,_hidden") != (["my_col", "x__hidden"], [["1", "2"], ["3", "4,5"]]):
                raise Unsupported("CsvfileReader(fields=...) does not use the given names for a file without a header row")
            # how the file is opened and how much of it is handed to the dialect detection: a long file through a
            # logging file object
            long_text = "a;b\r\n" + "".join("w%d;x%d\r\n" % (i, i) for i in range(400))
            with logged_open(csvfile) as log:
                names, rows = read_file(long_text)
            if names != ["a", "b"] or rows[:1] != [["w0", "x0"]] or len(rows) != 400:
                raise Unsupported("CsvfileReader does not read a semicolon-separated file: %r %r" % (names, rows[:2]))
            newline = _open_newline(log, "r")
            sizes = sorted({ev[1] for ev in log if ev[0] == "read" and len(ev) == 2 and isinstance(ev[1], int) and ev[1] > 0})
            sample = sizes[0] if len(sizes) == 1 else None
        return dict(excel_on_names=True, newline=newline, sample=sample)
    finally:
        shutil.rmtree(tmp, ignore_errors=True)
