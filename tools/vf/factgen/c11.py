"""C11 facts: how flow.record.base recognises codecs and containers -> coq/gen/Gen_detect.v.

Live values (import): the five magic byte strings, RECORDSTREAM_MAGIC, RECORDSTREAM_MAGIC_DEPTH, the HAS_* flags,
the header frame a stream writer emits.
Shapes (ast): the order of the if/elif chains of open_stream, open_path and find_adapter_for_stream -- which
constant each branch compares with which slice length under which HAS_* guard and which (de)compressor module
its body uses --, the fall-back of open_path to open_stream, and RecordAdapter's ext_to_adapter table with its
default.  Anything that does not have a shape the model can express raises Unsupported (fail closed).
"""
from __future__ import annotations

import ast
import inspect
import io
import textwrap

from vf.coqlit import cbool, clist, cnat, copt
from vf.factlib import GEN, HEADER, Unsupported, write_if_changed

FLAGS = {"HAS_BZ2": "FBz2", "HAS_LZ4": "FLz4", "HAS_ZSTD": "FZstd", "HAS_AVRO": "FAvro"}
MODULES = {"gzip": "Gzip", "bz2": "Bz2", "lz4": "Lz4", "zstd": "Zstd"}


def cbytes(b: bytes) -> str:
    if b and all(32 < c < 127 and c not in (34, 92) for c in b):
        return '(B "%s")' % b.decode("ascii")
    return "[" + "; ".join("x%02x" % c for c in b) + "]"


def _fn_ast(fn):
    node = ast.parse(textwrap.dedent(inspect.getsource(fn))).body[0]
    if not isinstance(node, ast.FunctionDef):
        raise Unsupported("%s is not a plain def" % fn.__name__)
    body = list(node.body)
    if body and isinstance(body[0], ast.Expr) and isinstance(body[0].value, ast.Constant) and isinstance(body[0].value.value, str):
        body = body[1:]
    return node, body


def _where(fn, node):
    return "%s:%d" % (fn.__name__, fn.__code__.co_firstlineno + getattr(node, "lineno", 1) - 1)


def _const(mod, node, fn):
    """Value of a constant expression over module-level constants (names, literals, + - *, len())."""
    for n in ast.walk(node):
        if isinstance(n, ast.Name):
            if n.id == "len":
                continue
            if n.id not in vars(mod) or not isinstance(vars(mod)[n.id], (bytes, int, str)):
                raise Unsupported("%s: %r is not a module-level constant" % (_where(fn, node), n.id))
        elif isinstance(n, ast.Call):
            if not (isinstance(n.func, ast.Name) and n.func.id == "len" and len(n.args) == 1 and not n.keywords):
                raise Unsupported("%s: call in a constant expression" % _where(fn, node))
        elif not isinstance(n, (ast.Constant, ast.BinOp, ast.Add, ast.Sub, ast.Mult, ast.Load, ast.Tuple)):
            raise Unsupported("%s: %s in a constant expression" % (_where(fn, node), type(n).__name__))
    env = {k: v for k, v in vars(mod).items() if isinstance(v, (bytes, int, str))}
    env["len"] = len
    return eval(compile(ast.Expression(node), "<fact>", "eval"), {"__builtins__": {}}, env)


def _is_name(node, name=None):
    return isinstance(node, ast.Name) and (name is None or node.id == name)


def _split_guard(test, fn):
    """[HAS_X and] <core>  ->  (flag constructor or None, core)"""
    if isinstance(test, ast.BoolOp) and isinstance(test.op, ast.And):
        guards = [v for v in test.values if _is_name(v) and v.id.startswith("HAS_")]
        rest = [v for v in test.values if not (_is_name(v) and v.id.startswith("HAS_"))]
        if len(guards) > 1 or len(rest) != 1:
            raise Unsupported("%s: unrecognised conjunction" % _where(fn, test))
        flag = None
        if guards:
            if guards[0].id not in FLAGS:
                raise Unsupported("%s: unknown flag %s" % (_where(fn, test), guards[0].id))
            flag = FLAGS[guards[0].id]
        return flag, rest[0]
    return None, test


def _upper_slice(node, var):
    """var[:k]  ->  the expression k"""
    if isinstance(node, ast.Subscript) and _is_name(node.value, var) and isinstance(node.slice, ast.Slice) \
            and node.slice.lower is None and node.slice.step is None and node.slice.upper is not None:
        return node.slice.upper
    return None


def _prefix_test(mod, core, var, fn):
    """var[:k] == M | M == var[:k] | var.startswith(M)  ->  (k, M)   (None when the test has another form)"""
    if isinstance(core, ast.Compare) and len(core.ops) == 1 and isinstance(core.ops[0], ast.Eq):
        a, b = core.left, core.comparators[0]
        for sl, m in ((a, b), (b, a)):
            up = _upper_slice(sl, var)
            if up is not None:
                k = _const(mod, up, fn)
                magic = _const(mod, m, fn)
                if not isinstance(k, int) or isinstance(k, bool) or k < 0 or not isinstance(magic, bytes):
                    raise Unsupported("%s: slice length / magic of unexpected type" % _where(fn, core))
                return k, magic
    if isinstance(core, ast.Call) and isinstance(core.func, ast.Attribute) and core.func.attr == "startswith" \
            and _is_name(core.func.value, var) and len(core.args) == 1 and not core.keywords:
        magic = _const(mod, core.args[0], fn)
        if not isinstance(magic, bytes):
            raise Unsupported("%s: startswith argument is not a bytes constant" % _where(fn, core))
        return len(magic), magic
    return None


def _within_test(mod, core, var, fn):
    """M in var[:d]  ->  (d, M)"""
    if isinstance(core, ast.Compare) and len(core.ops) == 1 and isinstance(core.ops[0], ast.In):
        up = _upper_slice(core.comparators[0], var)
        if up is not None:
            d = _const(mod, up, fn)
            magic = _const(mod, core.left, fn)
            if isinstance(d, int) and not isinstance(d, bool) and d >= 0 and isinstance(magic, bytes):
                return d, magic
    return None


def _flatten_chain(stmt):
    """if/elif/elif (no final else)  ->  [(test, body)]"""
    out = []
    while True:
        out.append((stmt.test, stmt.body))
        if not stmt.orelse:
            return out
        if len(stmt.orelse) == 1 and isinstance(stmt.orelse[0], ast.If):
            stmt = stmt.orelse[0]
            continue
        return out + [(None, stmt.orelse)]


SHARED = []     # module-level (de)compressor objects used by a branch instead of a per-stream one: (where, name)


def _shared_codec_objects(mod, stmts):
    """Names in the statements that denote module-level (de)compressor INSTANCES -> [(name, codec, role)]"""
    out = []
    for s in stmts:
        for n in ast.walk(s):
            if isinstance(n, ast.Name) and n.id in vars(mod) and n.id not in MODULES:
                v = vars(mod)[n.id]
                tm, tn = type(v).__module__ or "", type(v).__name__
                if isinstance(v, (type, type(ast), bool, int, str, bytes)) or callable(v) and not tm.startswith(("zstandard", "lz4", "_bz2", "zlib", "bz2", "gzip")):
                    continue
                codec = "Zstd" if tm.startswith("zstandard") else "Lz4" if tm.startswith("lz4") else "Bz2" if tm in ("_bz2", "bz2") \
                    else "Gzip" if tm in ("zlib", "gzip") else None
                if codec:
                    out.append((n.id, codec, "d" if "ecompress" in tn else "c"))
    return out


def _codec_of_body(stmts, fn, at, mod=None):
    names = {MODULES[n.id] for s in stmts for n in ast.walk(s) if isinstance(n, ast.Name) and n.id in MODULES}
    if mod is not None:
        for name, codec, _ in _shared_codec_objects(mod, stmts):
            names.add(codec)
            SHARED.append((_where(fn, at), name))
    if len(names) != 1:
        raise Unsupported("%s: branch body uses %s (expected exactly one of gzip/bz2/lz4/zstd)" % (_where(fn, at), sorted(names) or "none"))
    return names.pop()


def _peek_assign(stmt):
    """v = fp.peek(N) -> (v, N-expression)"""
    if isinstance(stmt, ast.Assign) and len(stmt.targets) == 1 and _is_name(stmt.targets[0]) \
            and isinstance(stmt.value, ast.Call) and isinstance(stmt.value.func, ast.Attribute) \
            and stmt.value.func.attr == "peek" and _is_name(stmt.value.func.value, "fp") \
            and len(stmt.value.args) == 1 and not stmt.value.keywords:
        return stmt.targets[0].id, stmt.value.args[0]
    return None


def _always_returns(stmts):
    return bool(stmts) and (isinstance(stmts[-1], ast.Return) or (
        isinstance(stmts[-1], ast.If) and stmts[-1].orelse and _always_returns(stmts[-1].body) and _always_returns(stmts[-1].orelse)))


def _normalise_returns(stmts, target="fp"):
    """Early returns -> nesting: `if c: A; return a` followed by `B; return b` becomes `if c: A; fp = a  else: B; fp = b`."""
    out = []
    for i, st in enumerate(stmts):
        if isinstance(st, ast.Return):
            val = st.value if st.value is not None else ast.Constant(None)
            a = ast.Assign(targets=[ast.Name(target, ast.Store())], value=val)
            ast.copy_location(a, st)
            a.lineno = getattr(st, "lineno", 1)
            return out + [a]
        if isinstance(st, ast.If) and not st.orelse and _always_returns(st.body):
            n = ast.If(test=st.test, body=_normalise_returns(st.body, target), orelse=_normalise_returns(stmts[i + 1:], target))
            ast.copy_location(n, st)
            return out + [n]
        if isinstance(st, ast.If) and st.orelse and (_always_returns(st.body) or _always_returns(st.orelse)):
            n = ast.If(test=st.test, body=_normalise_returns(st.body + ([] if _always_returns(st.body) else stmts[i + 1:]), target),
                       orelse=_normalise_returns(st.orelse + ([] if _always_returns(st.orelse) else stmts[i + 1:]), target))
            ast.copy_location(n, st)
            return out + [n]
        out.append(st)
    return out


class _Rename(ast.NodeTransformer):
    def __init__(self, mapping):
        self.mapping = mapping

    def visit_Name(self, node):
        if node.id in self.mapping:
            return ast.copy_location(ast.Name(self.mapping[node.id], node.ctx), node)
        return node


def _splice_helper(mod, call, target="fp"):
    """`helper(a, b, c)` where helper is a plain module-level function of the same module: its body with the parameters renamed
    to the caller's argument names, docstring dropped, early returns normalised into assignments to `target`.  None otherwise."""
    if not (isinstance(call, ast.Call) and _is_name(call.func) and not call.keywords and all(_is_name(a) for a in call.args)):
        return None
    fn = vars(mod).get(call.func.id)
    if not (inspect.isfunction(fn) and fn.__module__ == mod.__name__):
        return None
    node, body = _fn_ast(fn)
    params = [a.arg for a in node.args.args]
    if len(params) != len(call.args) or node.args.vararg or node.args.kwarg or node.args.kwonlyargs:
        return None
    mapping = {p: a.id for p, a in zip(params, call.args)}
    body = [_Rename(mapping).visit(st) for st in body]
    return _normalise_returns(body, target)


def _is_trivial_assign(stmts, target="fp", values=("fp", None)):
    """[fp = fp] or [fp = None]"""
    if len(stmts) != 1 or not (isinstance(stmts[0], ast.Assign) and _is_name(stmts[0].targets[0], target)):
        return False
    v = stmts[0].value
    return (_is_name(v) and v.id in values) or (isinstance(v, ast.Constant) and v.value is None and None in values)


def _is_buffer_wrap(stmt, mod=None):
    """if not hasattr(fp, "peek"): fp = io.BufferedReader(fp)   |   fp = <private helper doing just that>(fp)"""
    if mod is not None and isinstance(stmt, ast.Assign) and len(stmt.targets) == 1 and _is_name(stmt.targets[0], "fp"):
        sp = _splice_helper(mod, stmt.value)
        if sp is not None and len(sp) == 1 and isinstance(sp[0], ast.If):
            t, a, b = sp[0].test, sp[0].body, sp[0].orelse
            has = (isinstance(t, ast.Call) and _is_name(t.func, "hasattr") and len(t.args) == 2 and _is_name(t.args[0], "fp")
                   and isinstance(t.args[1], ast.Constant) and t.args[1].value == "peek")
            nhas = isinstance(t, ast.UnaryOp) and isinstance(t.op, ast.Not) and isinstance(t.operand, ast.Call) \
                and _is_name(t.operand.func, "hasattr") and len(t.operand.args) == 2 and _is_name(t.operand.args[0], "fp") \
                and isinstance(t.operand.args[1], ast.Constant) and t.operand.args[1].value == "peek"
            if nhas:
                a, b = b, a

            def wraps(ss):
                return len(ss) == 1 and isinstance(ss[0], ast.Assign) and isinstance(ss[0].value, ast.Call) \
                    and isinstance(ss[0].value.func, ast.Attribute) and ss[0].value.func.attr == "BufferedReader" \
                    and len(ss[0].value.args) == 1 and _is_name(ss[0].value.args[0], "fp")
            if (has or nhas) and _is_trivial_assign(a, values=("fp",)) and wraps(b):
                return True
        return False
    if not (isinstance(stmt, ast.If) and not stmt.orelse and len(stmt.body) == 1):
        return False
    t = stmt.test
    ok_test = (isinstance(t, ast.UnaryOp) and isinstance(t.op, ast.Not) and isinstance(t.operand, ast.Call)
               and _is_name(t.operand.func, "hasattr") and len(t.operand.args) == 2 and _is_name(t.operand.args[0], "fp")
               and isinstance(t.operand.args[1], ast.Constant) and t.operand.args[1].value == "peek")
    b = stmt.body[0]
    ok_body = (isinstance(b, ast.Assign) and len(b.targets) == 1 and _is_name(b.targets[0], "fp")
               and isinstance(b.value, ast.Call) and isinstance(b.value.func, ast.Attribute)
               and b.value.func.attr == "BufferedReader" and len(b.value.args) == 1 and _is_name(b.value.args[0], "fp"))
    return ok_test and ok_body


def _is_return_name(stmt, name):
    return isinstance(stmt, ast.Return) and _is_name(stmt.value, name)


# ------------------------------------------------------------------------------------------------
def open_stream_facts(mod):
    fn = mod.open_stream
    node, body = _fn_ast(fn)
    args = [a.arg for a in node.args.args]
    if args[:2] != ["fp", "mode"]:
        raise Unsupported("open_stream signature %r" % args)
    passthrough = False
    peekvar = peeklen = None
    chain = []
    i = 0
    # if "w" in mode: return fp
    s = body[i]
    if isinstance(s, ast.If) and not s.orelse and len(s.body) == 1 and _is_return_name(s.body[0], "fp") \
            and isinstance(s.test, ast.Compare) and len(s.test.ops) == 1 and isinstance(s.test.ops[0], ast.In) \
            and isinstance(s.test.left, ast.Constant) and s.test.left.value == "w" and _is_name(s.test.comparators[0], "mode"):
        passthrough = True
        i += 1
    if _is_buffer_wrap(body[i], mod):
        i += 1
    pa = _peek_assign(body[i])
    if not pa:
        raise Unsupported("%s: expected `<v> = fp.peek(<n>)`" % _where(fn, body[i]))
    peekvar, peekexpr = pa
    peeklen = _const(mod, peekexpr, fn)
    i += 1
    rest = body[i:]
    # `return <private helper>(fp, <peeked>, mode)`: follow the helper (one level), early returns normalised
    if len(rest) == 1 and isinstance(rest[0], ast.Return):
        sp = _splice_helper(mod, rest[0].value)
        if sp is not None:
            rest = sp + [ast.Return(value=ast.Name("fp", ast.Load()))]
    else:
        rest = _normalise_returns(rest) if not _is_return_name(rest[-1] if rest else None, "fp") else rest
    if not rest or not _is_return_name(rest[-1], "fp"):
        raise Unsupported("open_stream does not end with `return fp`")
    for s in rest[:-1]:
        if _is_trivial_assign([s], values=("fp",)):
            continue
        if not isinstance(s, ast.If):
            raise Unsupported("%s: unexpected statement %s" % (_where(fn, s), type(s).__name__))
        for test, stmts in _flatten_chain(s):
            if test is None:
                if _is_trivial_assign(stmts, values=("fp",)):
                    continue
                raise Unsupported("%s: final else in the sniffing chain" % _where(fn, s))
            flag, core = _split_guard(test, fn)
            pt = _prefix_test(mod, core, peekvar, fn)
            if pt is None:
                raise Unsupported("%s: unrecognised magic test" % _where(fn, test))
            for st in stmts:
                if not (isinstance(st, ast.Assign) and len(st.targets) == 1 and _is_name(st.targets[0])):
                    raise Unsupported("%s: branch body is not a sequence of simple assignments" % _where(fn, st))
            last = stmts[-1]
            if not _is_name(last.targets[0], "fp"):
                raise Unsupported("%s: branch does not rebind fp" % _where(fn, last))
            if not any(_is_name(n, "fp") for st in stmts for n in ast.walk(st.value)):
                raise Unsupported("%s: the wrapper is not built around fp" % _where(fn, last))
            chain.append((flag, pt[0], pt[1], _codec_of_body(stmts, fn, test, mod)))
    return dict(passthrough=passthrough, peek=peeklen, chain=chain)


def _endswith_test(test, fn):
    if isinstance(test, ast.BoolOp) and isinstance(test.op, ast.Or):      # path.endswith(a) or path.endswith(b)
        parts = [_endswith_test(v, fn) for v in test.values]
        if all(p is not None for p in parts):
            return [x for p in parts for x in p]
        return None
    if isinstance(test, ast.Call) and isinstance(test.func, ast.Attribute) and test.func.attr == "endswith" \
            and _is_name(test.func.value, "path") and len(test.args) == 1 and not test.keywords:
        a = test.args[0]
        if isinstance(a, ast.Constant) and isinstance(a.value, str):
            return [a.value]
        if isinstance(a, ast.Tuple) and a.elts and all(isinstance(x, ast.Constant) and isinstance(x.value, str) for x in a.elts):
            return [x.value for x in a.elts]
    return None


def _attrs(stmts):
    return [n.attr for s in stmts for n in ast.walk(s) if isinstance(n, ast.Attribute)]


def _ext_branch(test, stmts, outvar, fn, mod=None):
    sufs = _endswith_test(test, fn)
    if sufs is None:
        raise Unsupported("%s: unrecognised extension test" % _where(fn, test))
    flag = None
    stmts = list(stmts)
    # if not HAS_X: raise RuntimeError(...)
    if stmts and isinstance(stmts[0], ast.If) and not stmts[0].orelse and len(stmts[0].body) == 1 \
            and isinstance(stmts[0].body[0], ast.Raise) and isinstance(stmts[0].test, ast.UnaryOp) \
            and isinstance(stmts[0].test.op, ast.Not) and _is_name(stmts[0].test.operand) \
            and stmts[0].test.operand.id in FLAGS:
        flag = FLAGS[stmts[0].test.operand.id]
        stmts = stmts[1:]
    codec = _codec_of_body(stmts, fn, test, mod)

    def simple(ss):
        return ss and all(isinstance(x, ast.Assign) and len(x.targets) == 1 and _is_name(x.targets[0]) for x in ss) \
            and _is_name(ss[-1].targets[0], "fp")

    if len(stmts) == 1 and isinstance(stmts[0], ast.If) and stmts[0].orelse:
        # if not out: <reader> else: <writer>   (or the mirrored form)
        t = stmts[0].test
        if isinstance(t, ast.UnaryOp) and isinstance(t.op, ast.Not) and _is_name(t.operand, outvar):
            rd, wr = stmts[0].body, stmts[0].orelse
        elif _is_name(t, outvar):
            wr, rd = stmts[0].body, stmts[0].orelse
        else:
            raise Unsupported("%s: unrecognised read/write split" % _where(fn, t))
        if not (simple(rd) and simple(wr)):
            raise Unsupported("%s: read/write split bodies are not simple assignments to fp" % _where(fn, t))
        ra, wa = _attrs(rd), _attrs(wr)
        if mod is not None:      # a module-level decompressor / compressor instance counts as building one
            ra += ["Decompressor" if r == "d" else "Compressor" for _, _, r in _shared_codec_objects(mod, rd)]
            wa += ["Decompressor" if r == "d" else "Compressor" for _, _, r in _shared_codec_objects(mod, wr)]
        if not any("ecompress" in a for a in ra) or any("ecompress" in a for a in wa) \
                or not any("ompress" in a for a in wa) or any(a.endswith("Compressor") or a == "stream_writer" for a in ra):
            raise Unsupported("%s: the reading side must build a decompressor and the writing side a compressor" % _where(fn, t))

        def mode_const(ss):
            return [n.value for s in ss for n in ast.walk(s) if isinstance(n, ast.Constant) and n.value in ("rb", "wb", "r", "w", "ab", "a")]
        if mode_const(rd) not in ([], ["rb"]) or mode_const(wr) not in ([], ["wb"]):
            raise Unsupported("%s: unexpected open mode inside the read/write split" % _where(fn, t))
    else:
        if not simple(stmts):
            raise Unsupported("%s: branch body is not a simple assignment to fp" % _where(fn, test))
        call = stmts[-1].value
        names = {n.id for n in ast.walk(call) if isinstance(n, ast.Name)}
        if not (isinstance(call, ast.Call) and {"path", "mode"} <= names):
            raise Unsupported("%s: the (de)compressor is not opened with (path, mode)" % _where(fn, test))
    return (sufs, flag, codec)


def open_path_facts(mod):
    fn = mod.open_path
    node, body = _fn_ast(fn)
    args = [a.arg for a in node.args.args]
    if args[:2] != ["path", "mode"]:
        raise Unsupported("open_path signature %r" % args)
    outvar = binvar = stdiovar = None
    chain = None
    fallback = None         # (applies to regular files, applies to stdin)
    seen_return = False
    for s in body:
        d = ast.dump(s)
        # <b> = "b" in mode
        if isinstance(s, ast.Assign) and len(s.targets) == 1 and _is_name(s.targets[0]) and isinstance(s.value, ast.Compare) \
                and len(s.value.ops) == 1 and isinstance(s.value.ops[0], ast.In) and isinstance(s.value.left, ast.Constant):
            if s.value.left.value == "b" and _is_name(s.value.comparators[0], "mode"):
                binvar = s.targets[0].id
                continue
        # fp = None
        if isinstance(s, ast.Assign) and len(s.targets) == 1 and _is_name(s.targets[0], "fp") \
                and isinstance(s.value, ast.Constant) and s.value.value is None and chain is None:
            continue
        # <s> = path in (None, "", "-")
        if isinstance(s, ast.Assign) and len(s.targets) == 1 and _is_name(s.targets[0]) and isinstance(s.value, ast.Compare) \
                and _is_name(s.value.left, "path") and len(s.value.ops) == 1 and isinstance(s.value.ops[0], ast.In) \
                and isinstance(s.value.comparators[0], (ast.Tuple, ast.List, ast.Set)) \
                and all(isinstance(x, ast.Constant) and x.value in (None, "", "-") for x in s.value.comparators[0].elts):
            stdiovar = s.targets[0].id
            continue
        if isinstance(s, ast.If):
            t = s.test
            # mode -> out
            if isinstance(t, ast.Compare) and _is_name(t.left, "mode") and chain is None and outvar is None:
                br = _flatten_chain(s)
                vals = {}
                for test, stmts in br:
                    if test is None:
                        if not (len(stmts) == 1 and isinstance(stmts[0], ast.Raise)):
                            raise Unsupported("%s: mode chain else-branch" % _where(fn, s))
                        continue
                    if not (isinstance(test, ast.Compare) and _is_name(test.left, "mode") and len(test.ops) == 1
                            and isinstance(test.ops[0], ast.In) and len(stmts) == 1 and isinstance(stmts[0], ast.Assign)
                            and _is_name(stmts[0].targets[0]) and isinstance(stmts[0].value, ast.Constant)
                            and isinstance(stmts[0].value.value, bool)):
                        raise Unsupported("%s: mode chain" % _where(fn, test))
                    modes = tuple(sorted(_const(mod, test.comparators[0], fn)))
                    vals[modes] = (stmts[0].targets[0].id, stmts[0].value.value)
                if set(vals) != {("w", "wb"), ("r", "rb")} or vals[("w", "wb")][1] is not True \
                        or vals[("r", "rb")][1] is not False or vals[("w", "wb")][0] != vals[("r", "rb")][0]:
                    raise Unsupported("%s: mode chain does not map w/wb -> True, r/rb -> False" % _where(fn, s))
                outvar = vals[("w", "wb")][0]
                continue
            # clobber guard: if ...: raise
            if not s.orelse and len(s.body) == 1 and isinstance(s.body[0], ast.Raise) and chain is None:
                continue
            # if path: fp = <private helper>(path, mode, out)   -> follow the helper (one level)
            if _is_name(t, "path") and not s.orelse and len(s.body) == 1 and isinstance(s.body[0], ast.Assign) and chain is None \
                    and _is_name(s.body[0].targets[0], "fp"):
                sp = _splice_helper(mod, s.body[0].value)
                if sp is not None and len(sp) == 1 and isinstance(sp[0], ast.If):
                    s = ast.If(test=t, body=sp, orelse=[])
                    ast.copy_location(s, sp[0])
            # if path: <chain>
            if _is_name(t, "path") and not s.orelse and len(s.body) == 1 and isinstance(s.body[0], ast.If) and chain is None:
                s = s.body[0]
                t = s.test
            if _endswith_test(t, fn) is not None and chain is None:
                if outvar is None:
                    raise Unsupported("open_path: extension chain before the mode is decoded")
                chain = []
                for test, stmts in _flatten_chain(s):
                    if test is None:
                        if _is_trivial_assign(stmts, values=(None,)):      # helper's `return None` for unknown extensions
                            continue
                        raise Unsupported("%s: final else in the extension chain" % _where(fn, s))
                    chain.append(_ext_branch(test, stmts, outvar, fn, mod))
                continue
            # if not fp: ...
            if isinstance(t, ast.UnaryOp) and isinstance(t.op, ast.Not) and _is_name(t.operand, "fp") and not s.orelse \
                    and chain is not None and fallback is None:
                fallback = (False, False)
                calls = []
                for sub in ast.walk(s):
                    if isinstance(sub, ast.If):
                        for b in sub.body:
                            if isinstance(b, ast.Assign) and isinstance(b.value, ast.Call) and _is_name(b.value.func, "open_stream"):
                                calls.append((sub, b))
                allcalls = [n for n in ast.walk(s) if isinstance(n, ast.Call) and _is_name(n.func, "open_stream")]
                if len(allcalls) != len(calls) or len(calls) > 1:
                    raise Unsupported("%s: unrecognised use of open_stream in the fall-back" % _where(fn, s))
                if calls:
                    cond, asg = calls[0]
                    # where does it sit?  last step of `if not fp` (files AND stdin), or last step of one arm of
                    # `if <is_stdio>: ... else: ...` (only that kind of source)
                    if cond in s.body and s.body[-1] is cond:
                        where = (True, True)
                    else:
                        split = [x for x in s.body if isinstance(x, ast.If) and stdiovar and _is_name(x.test, stdiovar)]
                        if len(split) == 1 and split[0].body and split[0].body[-1] is cond:
                            where = (False, True)
                        elif len(split) == 1 and split[0].orelse and split[0].orelse[-1] is cond:
                            where = (True, False)
                        else:
                            raise Unsupported("%s: the open_stream fall-back is not the last step of `if not fp` or of one of its arms" % _where(fn, cond))
                    want = {ast.dump(ast.parse("not %s" % outvar, mode="eval").body)}
                    if binvar:
                        want.add(ast.dump(ast.Name(binvar, ast.Load())))
                    ct = cond.test
                    got = {ast.dump(v) for v in ct.values} if isinstance(ct, ast.BoolOp) and isinstance(ct.op, ast.And) else {ast.dump(ct)}
                    if got != want or cond.orelse:
                        raise Unsupported("%s: open_stream fall-back condition is not `not %s and %s`" % (_where(fn, cond), outvar, binvar))
                    if not (_is_name(asg.targets[0], "fp") and len(asg.value.args) == 2 and _is_name(asg.value.args[0], "fp")
                            and _is_name(asg.value.args[1], "mode")):
                        raise Unsupported("%s: open_stream fall-back call" % _where(fn, asg))
                    fallback = where
                continue
        if _is_return_name(s, "fp") and s is body[-1]:
            seen_return = True
            continue
        raise Unsupported("%s: unexpected statement in open_path: %s" % (_where(fn, s), d[:80]))
    if chain is None or fallback is None or not seen_return:
        raise Unsupported("open_path: extension chain / fall-back / return not found")
    return dict(chain=chain, fallback=fallback)


def find_adapter_facts(mod):
    fn = mod.find_adapter_for_stream
    node, body = _fn_ast(fn)
    i = 0
    if _is_buffer_wrap(body[i], mod):
        i += 1
    pa = _peek_assign(body[i])
    if not pa:
        raise Unsupported("%s: expected `<v> = fp.peek(<n>)`" % _where(fn, body[i]))
    var, pexpr = pa
    peeklen = _const(mod, pexpr, fn)
    chain = []

    def ret_adapter(stmts, at):
        if len(stmts) == 1 and isinstance(stmts[0], ast.Return) and isinstance(stmts[0].value, ast.Tuple) \
                and len(stmts[0].value.elts) == 2 and _is_name(stmts[0].value.elts[0], "fp") \
                and isinstance(stmts[0].value.elts[1], ast.Constant):
            return stmts[0].value.elts[1].value
        raise Unsupported("%s: branch is not `return fp, <name>`" % _where(fn, at))

    rest = body[i + 1:]
    if not rest or ret_adapter([rest[-1]], rest[-1] if rest else node) is not None:
        raise Unsupported("find_adapter_for_stream does not end with `return fp, None`")
    for s in rest[:-1]:
        if not isinstance(s, ast.If):
            raise Unsupported("%s: unexpected statement" % _where(fn, s))
        for test, stmts in _flatten_chain(s):
            if test is None:
                raise Unsupported("%s: final else" % _where(fn, s))
            flag, core = _split_guard(test, fn)
            name = ret_adapter(stmts, test)
            if not isinstance(name, str):
                raise Unsupported("%s: adapter name is not a string" % _where(fn, test))
            pt = _prefix_test(mod, core, var, fn)
            if pt is not None:
                chain.append((flag, "(CPrefix %s %s)" % (cnat(pt[0]), cbytes(pt[1])), name))
                continue
            wt = _within_test(mod, core, var, fn)
            if wt is not None:
                chain.append((flag, "(CWithin %s %s)" % (cnat(wt[0]), cbytes(wt[1])), name))
                continue
            raise Unsupported("%s: unrecognised container test" % _where(fn, test))
    return dict(peek=peeklen, chain=chain)


def adapter_table_facts(mod):
    fn = mod.RecordAdapter
    node, body = _fn_ast(fn)
    table = None
    default = None
    for n in ast.walk(node):
        if isinstance(n, ast.Assign) and len(n.targets) == 1 and _is_name(n.targets[0], "ext_to_adapter"):
            if table is not None or not isinstance(n.value, ast.Dict):
                raise Unsupported("RecordAdapter: ext_to_adapter is not one dict display")
            if not all(isinstance(k, ast.Constant) and isinstance(k.value, str) and isinstance(v, ast.Constant) and isinstance(v.value, str)
                       for k, v in zip(n.value.keys, n.value.values)):
                raise Unsupported("RecordAdapter: ext_to_adapter has non-literal entries")
            table = {}
            for k, v in zip(n.value.keys, n.value.values):
                table[k.value] = v.value      # later duplicates win, as in a dict display
        if isinstance(n, (ast.Subscript, ast.Attribute)) and _is_name(getattr(n, "value", None), "ext_to_adapter"):
            if not (isinstance(n, ast.Attribute) and n.attr == "get"):
                raise Unsupported("RecordAdapter: ext_to_adapter used other than through .get(ext, default)")
        if isinstance(n, ast.Call) and isinstance(n.func, ast.Attribute) and n.func.attr == "get" and _is_name(n.func.value, "ext_to_adapter"):
            if default is not None or len(n.args) != 2 or not (isinstance(n.args[1], ast.Constant) and isinstance(n.args[1].value, str)):
                raise Unsupported("RecordAdapter: ext_to_adapter.get(ext, <literal default>) expected exactly once")
            default = n.args[1].value
    if table is None or default is None:
        raise Unsupported("RecordAdapter: ext_to_adapter table / default not found")
    return table, default


def readheader_facts():
    """RecordStreamReader.readheader:  <h> = self.fp.read(<n>);  if not <h>.endswith(<M>): raise IOError(...)
    -> (n, test kind, M).  Test kinds: HEndsWith (`not h.endswith(M)`), HContains (`M not in h`)."""
    import flow.record.stream as st
    fn = st.RecordStreamReader.readheader
    node, body = _fn_ast(fn)
    if len(body) != 2:
        raise Unsupported("readheader: expected a read and one check, found %d statements" % len(body))
    a, c = body
    if not (isinstance(a, ast.Assign) and len(a.targets) == 1 and _is_name(a.targets[0]) and isinstance(a.value, ast.Call)
            and isinstance(a.value.func, ast.Attribute) and a.value.func.attr == "read" and len(a.value.args) == 1 and not a.value.keywords
            and isinstance(a.value.func.value, ast.Attribute) and a.value.func.value.attr == "fp" and _is_name(a.value.func.value.value, "self")):
        raise Unsupported("%s: expected `<h> = self.fp.read(<n>)`" % _where(fn, a))
    var = a.targets[0].id
    n = _const(st, a.value.args[0], fn)
    if not isinstance(n, int) or isinstance(n, bool) or n < 0:
        raise Unsupported("%s: header length is not a constant int" % _where(fn, a))
    if not (isinstance(c, ast.If) and not c.orelse and len(c.body) == 1 and isinstance(c.body[0], ast.Raise)):
        raise Unsupported("%s: expected `if <test>: raise ...`" % _where(fn, c))
    exc = c.body[0].exc
    excname = exc.func.id if isinstance(exc, ast.Call) and _is_name(exc.func) else exc.id if _is_name(exc) else None
    if excname not in ("IOError", "OSError"):
        raise Unsupported("%s: the header check raises %s, not IOError" % (_where(fn, c), excname))
    t = c.test
    if isinstance(t, ast.UnaryOp) and isinstance(t.op, ast.Not) and isinstance(t.operand, ast.Call) and isinstance(t.operand.func, ast.Attribute) \
            and t.operand.func.attr == "endswith" and _is_name(t.operand.func.value, var) and len(t.operand.args) == 1:
        kind, m = "HEndsWith", _const(st, t.operand.args[0], fn)
    elif isinstance(t, ast.Compare) and len(t.ops) == 1 and isinstance(t.ops[0], ast.NotIn) and _is_name(t.comparators[0], var):
        kind, m = "HContains", _const(st, t.left, fn)
    elif isinstance(t, ast.UnaryOp) and isinstance(t.op, ast.Not) and isinstance(t.operand, ast.Compare) and len(t.operand.ops) == 1 \
            and isinstance(t.operand.ops[0], ast.In) and _is_name(t.operand.comparators[0], var):
        kind, m = "HContains", _const(st, t.operand.left, fn)
    else:
        raise Unsupported("%s: unrecognised header test" % _where(fn, t))
    if not isinstance(m, bytes):
        raise Unsupported("%s: header magic is not a bytes constant" % _where(fn, t))
    return n, kind, m


FLAG_MODULE = {"HAS_LZ4": "lz4.frame", "HAS_BZ2": "bz2", "HAS_ZSTD": "zstandard", "HAS_AVRO": "fastavro"}


def import_block_facts(mod):
    """The module-level try/except ImportError blocks of base.py that set the HAS_* flags: for each flag the modules whose
    import decides it (all imports inside the try that sets it True).  Fail closed on any other way of setting a flag."""
    import pathlib
    tree = ast.parse(pathlib.Path(mod.__file__).read_text())
    deps = {}

    def flag_targets(stmt):
        if isinstance(stmt, ast.Assign):
            return [t.id for t in stmt.targets if _is_name(t) and t.id in FLAGS], stmt.value
        return [], None

    for node in tree.body:
        if isinstance(node, ast.Try):
            set_true, mods, others = [], [], []
            for st in node.body:
                if isinstance(st, ast.Import):
                    mods += [a.name for a in st.names]
                elif isinstance(st, ast.ImportFrom):
                    mods.append(st.module or ".")
                else:
                    fl, val = flag_targets(st)
                    if fl:
                        if not (isinstance(val, ast.Constant) and val.value is True):
                            raise Unsupported("base.py:%d: %s set to something other than True in a try body" % (st.lineno, fl))
                        set_true += fl
                    elif not (isinstance(st, ast.Expr) and isinstance(st.value, ast.Constant)):
                        others.append(st)
            if set_true and others:
                raise Unsupported("base.py:%d: unexpected statement in a flag-setting try block" % others[0].lineno)
            if not set_true:
                if any(flag_targets(x)[0] for h in node.handlers for x in h.body):
                    raise Unsupported("base.py:%d: a HAS_* flag is set only in an except handler" % node.lineno)
                continue
            if node.orelse or node.finalbody or len(node.handlers) != 1:
                raise Unsupported("base.py:%d: flag-setting try block with else/finally/several handlers" % node.lineno)
            h = node.handlers[0]
            if not (_is_name(h.type) and h.type.id in ("ImportError", "ModuleNotFoundError")):
                raise Unsupported("base.py:%d: flag-setting try block does not catch ImportError" % h.lineno)
            set_false = []
            for st in h.body:
                fl, val = flag_targets(st)
                if not fl or not (isinstance(val, ast.Constant) and val.value is False):
                    raise Unsupported("base.py:%d: the ImportError handler does more than set flags to False" % st.lineno)
                set_false += fl
            if sorted(set_true) != sorted(set_false):
                raise Unsupported("base.py:%d: flags set True %s / False %s differ" % (node.lineno, set_true, set_false))
            for f in set_true:
                if f in deps:
                    raise Unsupported("base.py:%d: %s is set by more than one try block" % (node.lineno, f))
                deps[f] = list(mods)
        else:
            fl, _ = flag_targets(node)
            if fl:
                raise Unsupported("base.py:%d: %s assigned outside a try/except ImportError block" % (node.lineno, fl))
    for f in FLAGS:
        if f not in deps:
            raise Unsupported("base.py: no try/except ImportError block sets %s" % f)
    return deps


# ================================================================================================
# OBSERVED behaviour (primary source of the facts).  The real functions are run on purpose-built probes; the tables the
# model needs are inferred from what comes back and then VALIDATED by re-evaluating the inferred table on every probe
# (anything the model's table form cannot express -> Unsupported).  The ast recognisers above are cross-checks only.

CODEC_ORDER = ["Gzip", "Bz2", "Lz4", "Zstd"]
STD_SIG = {"Gzip": b"\x1f\x8b", "Bz2": b"BZh", "Lz4": b"\x04\x22\x4d\x18", "Zstd": b"\x28\xb5\x2f\xfd"}
PAD = b"\xee" * 28


class _flags:
    """Temporarily set the HAS_* flags of flow.record.base (observation under every optional-module setting)."""

    def __init__(self, mod, setting):
        self.mod, self.setting = mod, setting

    def __enter__(self):
        self.saved = {n: getattr(self.mod, n) for n in FLAGS}
        for n, v in self.setting.items():
            setattr(self.mod, n, v)

    def __exit__(self, *a):
        for n, v in self.saved.items():
            setattr(self.mod, n, v)


def _wrapper_codec(fp, orig=None):
    import bz2
    import gzip
    if fp is orig:
        return "Plain"
    tm = type(fp).__module__ or ""
    if isinstance(fp, gzip.GzipFile):
        return "Gzip"
    if isinstance(fp, bz2.BZ2File):
        return "Bz2"
    if tm.startswith("lz4"):
        return "Lz4"
    if tm.startswith("zstandard"):
        return "Zstd"
    if isinstance(fp, (io.BufferedReader, io.BufferedWriter, io.BytesIO, io.FileIO, io.TextIOWrapper)):
        return "Plain"
    raise Unsupported("open_stream / open_path returned an object of unknown kind %s.%s" % (tm, type(fp).__name__))


class _PeekLog(io.BytesIO):
    """BytesIO with a logging peek()."""

    def __init__(self, data):
        super().__init__(data)
        self.peeks = []

    def peek(self, n=0):
        self.peeks.append(n)
        pos = self.tell()
        d = self.read()
        self.seek(pos)
        return d


class _SeekLog(io.BytesIO):
    """Seekable binary stream WITHOUT peek() that logs seek() calls (io.BytesIO has no peek)."""

    def __init__(self, data, pos):
        super().__init__(data)
        super().seek(pos)
        self.seeks = []

    def seek(self, pos, whence=0):
        self.seeks.append((pos, whence))
        return super().seek(pos, whence)


class _PeekSeekLog(_SeekLog):
    """... and one WITH peek()."""

    def peek(self, n=0):
        pos = self.tell()
        d = io.BytesIO.read(self)
        io.BytesIO.seek(self, pos)
        return d


class _NoSeek(io.RawIOBase):
    """Non-seekable raw stream over data[pos:]."""

    def __init__(self, data, pos):
        self.src = io.BytesIO(data[pos:])

    def readable(self):
        return True

    def readinto(self, b):
        d = self.src.read(len(b))
        b[:len(d)] = d
        return len(d)


def observe_position(mod):
    """open_stream / find_adapter_for_stream on file objects that are NOT at position 0: the stream handed back must deliver
    exactly the bytes from the caller's position on, and the object must never be sought to another absolute position.
    -> (fact, number of probes, description of the first departure or None)"""
    import gzip
    frame = header_frame()
    payloads = {"plain": frame + b"\x00\x00\x00\x01\xc0", "gzip": gzip.compress(frame + b"\x00\x00\x00\x01\xc0")}
    n = 0
    for pname, payload in payloads.items():
        for plen in (1, 7, 19, 8200):
            data = b"\xa5" * plen + payload
            for kind, mk in (("seekable without peek()", lambda: _SeekLog(data, plen)), ("seekable with peek()", lambda: _PeekSeekLog(data, plen)),
                             ("not seekable", lambda: _NoSeek(data, plen))):
                for fname in ("open_stream", "find_adapter_for_stream"):
                    n += 1
                    obj = mk()
                    try:
                        if fname == "open_stream":
                            fp = mod.open_stream(obj, "rb")
                            got = fp.read()
                            want = frame + b"\x00\x00\x00\x01\xc0"
                        else:
                            if pname != "plain":
                                continue
                            fp, name = mod.find_adapter_for_stream(obj)
                            got = (name, fp.read())
                            want = ("stream", payload)
                    except Exception as e:  # noqa
                        return False, n, "%s on a %s object positioned at %d (%s payload) raised %s" % (fname, kind, plen, pname, type(e).__name__)
                    if got != want:
                        return False, n, "%s on a %s object positioned at %d (%s payload) does not continue from that position" % (fname, kind, plen, pname)
                    bad = [sk for sk in getattr(obj, "seeks", []) if sk[1] == 0 and sk[0] != plen]
                    if bad:
                        return False, n, "%s seeks a %s object positioned at %d to absolute position %d" % (fname, kind, plen, bad[0][0])
    return True, n, None


def _flag_settings(live):
    """all as installed; each available flag off alone; all off"""
    out = [dict(live)]
    for n in FLAGS:
        if live[n]:
            out.append(dict(live, **{n: False}))
    out.append({n: False for n in FLAGS})
    return out


def _sniff_probes(magics):
    probes = [b"", b"\x00", PAD, b"Obj\x01" + PAD]
    for m in magics:
        probes.append(m)
        probes.append(m + PAD)
        probes.append(b"\x00" + m + PAD)                 # not at offset 0
        for k in range(1, len(m)):
            probes.append(m[:k])                         # proper prefix, nothing after
            probes.append(m[:k] + bytes([m[k] ^ 0xFF]) + PAD)
        for i in range(len(m)):
            for bit in range(8):
                mm = bytearray(m)
                mm[i] ^= 1 << bit
                probes.append(bytes(mm) + PAD)
        for m2 in magics:
            if m2 != m:
                probes.append(m + m2 + PAD)              # matches one magic, continues with another
                k = min(len(m), len(m2))
                probes.append(m[:k - 1] + m2[k - 1:] + PAD)
    seen, uniq = set(), []
    for b in probes:
        if b not in seen:
            seen.add(b)
            uniq.append(b)
    return uniq


def _eval_sniff(chain, flags, bs):
    for guard, k, m, c in chain:
        if (guard is None or flags[guard]) and bs[:k] == m:
            return c
    return "Plain"


INV_FLAGS = {v: k for k, v in FLAGS.items()}


def observe_open_stream(mod):
    """-> dict(chain=[(flag ctor|None, len, magic, codec)], peek=n, passthrough=bool) inferred from open_stream's behaviour."""
    import itertools
    live = {n: bool(getattr(mod, n)) for n in FLAGS}
    cands = []
    for name in ("GZIP_MAGIC", "BZ2_MAGIC", "LZ4_MAGIC", "ZSTD_MAGIC"):
        v = getattr(mod, name, None)
        if isinstance(v, bytes) and v and v not in cands:
            cands.append(v)
    for v in STD_SIG.values():
        if v not in cands:
            cands.append(v)

    def run(bs, flags):
        with _flags(mod, flags):
            src = _PeekLog(bs)
            try:
                fp = mod.open_stream(src, "rb")
            except Exception as e:  # noqa
                raise Unsupported("open_stream raised %s on the probe %r" % (type(e).__name__, bs[:12]))
            return _wrapper_codec(fp, src), src.peeks

    # passthrough for writers
    src = _PeekLog(STD_SIG["Gzip"] + PAD)
    passthrough = mod.open_stream(src, "wb") is src and not src.peeks
    # peek length
    _, peeks = run(PAD, live)
    if len(peeks) != 1:
        raise Unsupported("open_stream peeks %d times into the stream" % len(peeks))
    peek = peeks[0]
    # one branch per codec: the shortest prefix of a candidate magic that is still recognised
    branches = {}
    for m in cands:
        c, _ = run(m + PAD, live)
        if c == "Plain":
            continue
        k = len(m)
        for j in range(1, len(m)):
            if run(m[:j] + bytes([m[j] ^ 0xFF]) + PAD, live)[0] == c:
                k = j
                break
        guards = [n for n in FLAGS if live[n] and run(m + PAD, dict(live, **{n: False}))[0] != c]
        if len(guards) > 1:
            raise Unsupported("open_stream: recognising %s depends on several flags %s" % (c, guards))
        br = (FLAGS[guards[0]] if guards else None, k, m[:k], c)
        if c in branches and branches[c] != br:
            raise Unsupported("open_stream: two different signatures lead to %s: %r and %r" % (c, branches[c][2], br[2]))
        branches[c] = br
    for c in CODEC_ORDER:                       # a codec whose module is missing here cannot be observed: not expressible
        if c not in branches and not all(live.values()):
            raise Unsupported("open_stream: %s is not recognised in this installation (optional module missing?)" % c)
    probes = _sniff_probes(cands)
    settings = _flag_settings(live)
    observed = {(i, bs): run(bs, fl)[0] for i, fl in enumerate(settings) for bs in probes}
    blist = [branches[c] for c in CODEC_ORDER if c in branches]
    for perm in itertools.permutations(blist):
        named = [(INV_FLAGS.get(g), k, m, c) for g, k, m, c in perm]
        if all(_eval_sniff(named, fl, bs) == observed[(i, bs)] for i, fl in enumerate(settings) for bs in probes):
            return dict(chain=list(perm), peek=peek, passthrough=passthrough, probes=len(observed))
    bad = next(((fl, bs) for i, fl in enumerate(settings) for bs in probes
                if _eval_sniff([(INV_FLAGS.get(g), k, m, c) for g, k, m, c in blist], fl, bs) != observed[(i, bs)]), None)
    raise Unsupported("open_stream's behaviour is not a chain of prefix tests: e.g. probe %r (flags off: %s) gives %s" % (
        bad[1][:12], [n for n, v in bad[0].items() if not v], observed[(settings.index(bad[0]), bad[1])]))


def observe_find_adapter(mod):
    """-> dict(chain=[(flag ctor|None, test term, name)], peek=n) inferred from find_adapter_for_stream's behaviour."""
    live = {n: bool(getattr(mod, n)) for n in FLAGS}
    avro = getattr(mod, "AVRO_MAGIC", b"Obj")
    rs = mod.RECORDSTREAM_MAGIC

    def run(bs, flags):
        with _flags(mod, flags):
            src = _PeekLog(bs)
            try:
                _, name = mod.find_adapter_for_stream(src)
            except Exception as e:  # noqa
                raise Unsupported("find_adapter_for_stream raised %s on the probe %r" % (type(e).__name__, bs[:12]))
            return name, src.peeks

    _, peeks = run(PAD, live)
    if len(peeks) != 1:
        raise Unsupported("find_adapter_for_stream peeks %d times" % len(peeks))
    peek = peeks[0]
    branches = []
    # "Obj"-like prefix test
    name_a, _ = run(avro + PAD, live)
    a_branch = None
    if name_a is not None:
        k = len(avro)
        for j in range(1, len(avro)):
            if run(avro[:j] + bytes([avro[j] ^ 0xFF]) + PAD, live)[0] == name_a:
                k = j
                break
        guards = [n for n in FLAGS if live[n] and run(avro + PAD, dict(live, **{n: False}))[0] != name_a]
        if len(guards) > 1:
            raise Unsupported("find_adapter_for_stream: the Avro test depends on several flags")
        a_branch = (FLAGS[guards[0]] if guards else None, ("prefix", k, avro[:k]), name_a)
    # stream magic within a depth
    hits = [o for o in range(0, 48) if run(b"\x23" * o + rs + PAD, live)[0] is not None]
    s_branch = None
    if hits:
        name_s = run(b"\x23" * hits[0] + rs + PAD, live)[0]
        if hits != list(range(0, hits[-1] + 1)):
            raise Unsupported("find_adapter_for_stream finds the stream magic at offsets %s only (not an initial range)" % hits[:10])
        guards = [n for n in FLAGS if live[n] and run(b"\x23" * hits[0] + rs + PAD, dict(live, **{n: False}))[0] != name_s]
        if len(guards) > 1:
            raise Unsupported("find_adapter_for_stream: the stream test depends on several flags")
        # the whole magic is needed?
        if run(rs[:-1] + bytes([rs[-1] ^ 0xFF]) + PAD, live)[0] is not None or run(bytes([rs[0] ^ 0xFF]) + rs[1:] + PAD, live)[0] is not None:
            raise Unsupported("find_adapter_for_stream accepts an altered stream magic")
        s_branch = (FLAGS[guards[0]] if guards else None, ("within", hits[-1] + len(rs), rs), name_s)
    both = run(avro + b"\x23" * 2 + rs + PAD, live)[0] if (a_branch and s_branch) else None
    if a_branch and s_branch:
        branches = [a_branch, s_branch] if both == a_branch[2] else [s_branch, a_branch]
    else:
        branches = [b for b in (a_branch, s_branch) if b]

    def ev(flags, bs):
        for g, t, name in branches:
            if g is not None and not flags[INV_FLAGS[g]]:
                continue
            if (t[0] == "prefix" and bs[:t[1]] == t[2]) or (t[0] == "within" and t[2] in bs[:t[1]]):
                return name
        return None

    probes = [b"", PAD, avro, avro + PAD, avro[:-1], b"\x00" + avro + PAD, rs, rs + PAD, avro + rs + PAD, rs[:-1] + PAD] + \
        [b"\x23" * o + rs + PAD for o in range(0, 48, 1)] + [b"\x23" * o + rs for o in range(0, 10)]
    for i in range(len(avro)):
        for bit in range(8):
            mm = bytearray(avro)
            mm[i] ^= 1 << bit
            probes.append(bytes(mm) + PAD)
    n = 0
    for fl in _flag_settings(live):
        for bs in probes:
            n += 1
            if ev(fl, bs) != run(bs, fl)[0]:
                raise Unsupported("find_adapter_for_stream's behaviour is not `prefix test, then magic within a depth`: probe %r (flags off: %s) gives %r" % (
                    bs[:24], [x for x, v in fl.items() if not v], run(bs, fl)[0]))
    chain = []
    for g, t, name in branches:
        term = "(CPrefix %s %s)" % (cnat(t[1]), cbytes(t[2])) if t[0] == "prefix" else "(CWithin %s %s)" % (cnat(t[1]), cbytes(t[2]))
        chain.append((g, term, name))
    return dict(chain=chain, peek=peek, probes=n)


def _string_constants(mod, fns):
    """String literals in the source of the given functions and of the private module-level helpers they call (one level)."""
    out = set()
    seen = set()
    todo = list(fns)
    depth = {f: 0 for f in fns}
    while todo:
        fn = todo.pop()
        if fn in seen:
            continue
        seen.add(fn)
        try:
            node = ast.parse(textwrap.dedent(inspect.getsource(fn)))
        except (OSError, TypeError, SyntaxError):
            continue
        for n in ast.walk(node):
            if isinstance(n, ast.Constant) and isinstance(n.value, str):
                out.add(n.value)
            if isinstance(n, ast.Tuple):
                pass
            if isinstance(n, ast.Call) and isinstance(n.func, ast.Name) and depth[fn] < 1:
                callee = vars(mod).get(n.func.id)
                if inspect.isfunction(callee) and callee.__module__ == mod.__name__ and callee not in depth:
                    depth[callee] = depth[fn] + 1
                    todo.append(callee)
    return out


def helper_functions(mod, fn):
    """fn plus the module-level functions of the same module it calls (one level)."""
    out = [fn]
    try:
        node = ast.parse(textwrap.dedent(inspect.getsource(fn)))
    except (OSError, TypeError, SyntaxError):
        return out
    for n in ast.walk(node):
        if isinstance(n, ast.Call) and isinstance(n.func, ast.Name):
            callee = vars(mod).get(n.func.id)
            if inspect.isfunction(callee) and callee.__module__ == mod.__name__ and callee not in out:
                out.append(callee)
    return out


def observe_open_path(mod):
    """-> dict(chain=[(suffixes, flag ctor|None, codec)], fallback=(files, stdin)) inferred from open_path's behaviour on
    really opened temp files named with every candidate extension, for reading and for writing."""
    import gzip
    import shutil
    import sys
    import tempfile
    live = {n: bool(getattr(mod, n)) for n in FLAGS}
    cands = {".gz", ".bz2", ".lz4", ".zst", ".zstd", ".gzip", ".bz", ".lz", ".zs", ".z", ".xz", ".GZ", ".Zst", ".zstdx", ".gz2", ".records", ".avro", ".tgz"}
    cands |= {c for c in _string_constants(mod, [mod.open_path]) if c.startswith(".") and 1 < len(c) <= 8 and "/" not in c and " " not in c}
    d = tempfile.mkdtemp(prefix="c11obs.")

    def run(name, mode, flags, content=b"plain"):
        p = d + "/" + name
        if mode == "rb":
            with open(p, "wb") as f:
                f.write(content)
        with _flags(mod, flags):
            try:
                fp = mod.open_path(p, mode)
            except RuntimeError as e:
                return ("unavailable", str(e))
            except Exception as e:  # noqa
                raise Unsupported("open_path(%r, %r) raised %s" % (name, mode, type(e).__name__))
        try:
            return ("codec", _wrapper_codec(fp))
        finally:
            try:
                fp.close()
            except Exception:  # noqa
                pass

    try:
        per_codec = {}
        for s in sorted(cands):
            w = run("Q" + s, "wb", live)
            r = run("Q" + s, "rb", live)
            if w != r:
                raise Unsupported("open_path treats the extension %r differently for writing (%s) and reading (%s)" % (s, w, r))
            if w[0] != "codec":
                raise Unsupported("open_path(%r) is unavailable although all flags are as installed: %s" % ("Q" + s, w[1]))
            c = w[1]
            if c == "Plain":
                continue
            k = len(s)                       # the shortest tail of s that still selects c
            for j in range(1, len(s)):
                if run("Q" + s[-j:], "wb", live) == w:
                    k = j
                    break
            per_codec.setdefault(c, [])
            if s[-k:] not in per_codec[c]:
                per_codec[c].append(s[-k:])
        chain = []
        for c in CODEC_ORDER:
            if c not in per_codec:
                continue
            sufs = sorted(per_codec[c], key=lambda x: (-len(x), x))
            guards = []
            for n in FLAGS:
                if live[n]:
                    res = {run("Q" + s, mode, dict(live, **{n: False}))[0] for s in sufs for mode in ("wb", "rb")}
                    if res == {"unavailable"}:
                        guards.append(n)
                    elif res != {"codec"}:
                        raise Unsupported("open_path: flag %s affects the extensions %s inconsistently" % (n, sufs))
            if len(guards) > 1:
                raise Unsupported("open_path: %s depends on several flags %s" % (c, guards))
            chain.append((sufs, FLAGS[guards[0]] if guards else None, c))

        def ev(flags, name):
            for sufs, g, c in chain:
                if any(name.endswith(s) for s in sufs):
                    return ("codec", c) if (g is None or flags[INV_FLAGS[g]]) else ("unavailable",)
            return ("codec", "Plain")

        names = ["Q" + s for s in sorted(cands)] + ["a" + s + ".tmp" for s in sorted(cands)] + ["a.b" + s for s in (".gz", ".zst")] + ["noext", "a."]
        n = 0
        for fl in _flag_settings(live):
            for name in names:
                for mode in ("wb", "rb"):
                    n += 1
                    got = run(name, mode, fl)
                    if got[:1] + got[1:2] != ev(fl, name) and not (got[0] == "unavailable" and ev(fl, name) == ("unavailable",)):
                        raise Unsupported("open_path's behaviour is not an extension table: %r (%s, flags off: %s) gives %s" % (
                            name, mode, [x for x, v in fl.items() if not v], got))
        # fall-back: a plain-named file / standard input whose CONTENT is compressed, opened for binary reading
        gz = gzip.compress(b"x" * 40)
        files = run("neutralname", "rb", live, content=gz) == ("codec", "Gzip")
        text_untouched = True

        class _FakeStdin:
            def __init__(self, data):
                self.buffer = io.BufferedReader(io.BytesIO(data))

        saved = sys.stdin
        sys.stdin = _FakeStdin(gz)
        try:
            stdin = _wrapper_codec(mod.open_path("-", "rb")) == "Gzip"
        except Exception as e:  # noqa
            raise Unsupported("open_path('-', 'rb') raised %s" % type(e).__name__)
        finally:
            sys.stdin = saved
        return dict(chain=chain, fallback=(files, stdin), probes=n)
    finally:
        shutil.rmtree(d, ignore_errors=True)


def observe_readheader():
    """-> (bytes read, test kind, magic) inferred from RecordStreamReader's behaviour."""
    import flow.record.stream as st
    rs = st.RECORDSTREAM_MAGIC

    class Log(io.BytesIO):
        def __init__(self, data):
            super().__init__(data)
            self.reads = []

        def read(self, n=-1):
            self.reads.append(n)
            return super().read(n)

    def accepts(bs):
        fp = Log(bs)
        try:
            st.RecordStreamReader(fp)
            return True, fp.reads
        except IOError:
            return False, fp.reads

    _, reads = accepts(b"\x23" * 6 + rs + b"\x00" * 40)
    if len(reads) != 1 or reads[0] is None or reads[0] < 0:
        raise Unsupported("RecordStreamReader reads the header with %r" % (reads,))
    n = reads[0]
    probes = [b"\x23" * o + rs + b"\x00" * 40 for o in range(0, n + 4)] + [b"\x23" * o + rs for o in range(0, n + 2)] + \
             [b"", b"\x00" * 64, rs[:-1] + b"\x00" * 40, b"\x23" * 6 + rs[:-1] + bytes([rs[-1] ^ 1]) + b"\x00" * 8, b"\x23" * 6 + bytes([rs[0] ^ 1]) + rs[1:]]
    got = {bs: accepts(bs)[0] for bs in probes}
    if all(got[bs] == bs[:n].endswith(rs) for bs in probes):
        return n, "HEndsWith", rs, len(probes)
    if all(got[bs] == (rs in bs[:n]) for bs in probes):
        return n, "HContains", rs, len(probes)
    bad = next(bs for bs in probes if got[bs] != bs[:n].endswith(rs))
    raise Unsupported("RecordStreamReader's header test is neither `ends with the magic` nor `contains the magic`: %r -> %s" % (bad[:24], got[bad]))


def observe_adapter_table(mod):
    """-> (table ext -> adapter, default) from RecordAdapter's dispatch (the adapter module is not really imported)."""
    class Rec:
        def __init__(self, name):
            self.name = name

        def __getattr__(self, cls):
            return lambda *a, **k: None

    seen = []

    class Imp:
        @staticmethod
        def import_module(name):
            seen.append(name)
            return Rec(name)

    cands = {".avro", ".json", ".jsonl", ".csv", ".records", ".gz", ".txt", ".sqlite", ".db", ".xml", ".line", ".rec", ".zst", ".parquet", ".duckdb"}
    cands |= {c for c in _string_constants(mod, [mod.RecordAdapter]) if c.startswith(".") and 1 < len(c) <= 10 and "/" not in c and " " not in c}
    saved = mod.importlib
    mod.importlib = Imp
    try:
        def adapter(name):
            del seen[:]
            mod.RecordAdapter(name, out=True)
            pref = "flow.record.adapter."
            if len(seen) != 1 or not seen[0].startswith(pref):
                raise Unsupported("RecordAdapter(%r) imports %r" % (name, seen))
            return seen[0][len(pref):]
        default = adapter("Qnoextension")
        if adapter("Q.c11unknownext") != default:
            raise Unsupported("RecordAdapter has no single default adapter")
        table = {}
        for c in sorted(cands):
            a = adapter("Q" + c)
            if a != default:
                table[c] = a
        return table, default
    finally:
        mod.importlib = saved


def observe_flag_deps(mod):
    """For each HAS_* flag the modules whose (un)importability decides it, observed in fresh child interpreters in which one
    optional module at a time cannot be imported.  Cached on the text of base.py (the children cost ~0.5 s)."""
    import hashlib
    import json
    import pathlib
    import subprocess
    import sys
    src = pathlib.Path(mod.__file__).read_bytes()
    key = hashlib.sha1(src + sys.version.encode()).hexdigest()
    cache = GEN / ".c11_flagdeps.json"
    try:
        c = json.loads(cache.read_text())
        if c.get("key") == key:
            return c["deps"]
    except Exception:  # noqa
        pass
    repo = str(pathlib.Path(mod.__file__).parents[2])
    child = (
        "import sys, json, importlib\n"
        "block = [b for b in sys.argv[2].split(',') if b]\n"
        "for b in block: sys.modules[b] = None\n"
        "sys.path.insert(0, sys.argv[1])\n"
        "imp = {}\n"
        "for name in %r:\n"
        "    try:\n        importlib.import_module(name); imp[name] = True\n    except ImportError:\n        imp[name] = False\n"
        "import flow.record.base as b\n"
        "print('@@' + json.dumps(dict(importable=imp, flags={f: getattr(b, f) for f in %r})))\n" % (sorted(set(FLAG_MODULE.values())), sorted(FLAGS)))
    blocks = {"lz4.frame": "lz4,lz4.frame", "zstandard": "zstandard", "bz2": "bz2,_bz2", "fastavro": "fastavro"}
    procs = {m: subprocess.Popen([sys.executable, "-c", child, repo, b], stdout=subprocess.PIPE, stderr=subprocess.STDOUT, text=True)
             for m, b in blocks.items()}
    runs = {}
    for m, pr in procs.items():
        out, _ = pr.communicate(timeout=120)
        line = [ln for ln in out.splitlines() if ln.startswith("@@")]
        if not line:
            raise Unsupported("flag observation child (without %s) failed: %s" % (m, out[-200:]))
        runs[m] = json.loads(line[0][2:])
    deps = {}
    for f, own in FLAG_MODULE.items():
        d = []
        # own module: the flag must follow it
        if not runs[own]["importable"][own] and not runs[own]["flags"][f]:
            d.append(own)
        for m, r in runs.items():
            if m != own and r["importable"][own] and not r["flags"][f]:
                d.append(m)          # another module's absence switches this flag off although its own module is there
        deps[f] = d
    try:
        cache.write_text(json.dumps(dict(key=key, deps=deps)))
    except Exception:  # noqa
        pass
    return deps


SPELLING_CANDIDATES = [None, "", "-", "--", " ", "-.", "stdin", "0", "None"]


def observe_stdin_spellings(mod):
    """Which spellings of RecordReader's url argument mean "no url: take the file object / standard input and SNIFF its
    container"?  Observed on an Avro payload (a sniffing route picks the avro adapter -- or, without fastavro, raises
    RecordAdapterNotFound -- while the url route picks the adapter of the url's extension/scheme), with and without fileobj=.
    -> list of spellings for which BOTH forms sniff."""
    import sys
    from flow.record.exceptions import RecordAdapterNotFound
    payload = b"Obj\x01" + b"\x00" * 40
    seen = []

    class Rec:
        def __init__(self, name):
            self.name = name

        def __getattr__(self, cls):
            return lambda *a, **k: None

    class Imp:
        @staticmethod
        def import_module(name):
            seen.append(name)
            return Rec(name)

    class FakeStdin:
        def __init__(self, data):
            self.buffer = io.BufferedReader(io.BytesIO(data))

    def route(spelling, with_fileobj):
        del seen[:]
        saved_imp, saved_stdin = mod.importlib, sys.stdin
        mod.importlib = Imp
        sys.stdin = FakeStdin(payload)
        try:
            kw = dict(fileobj=io.BytesIO(payload)) if with_fileobj else {}
            try:
                mod.RecordAdapter(spelling, out=False, **kw)
            except RecordAdapterNotFound:
                return "sniffed"
            except Exception as e:  # noqa
                return "error:" + type(e).__name__
            return "sniffed" if (seen and seen[-1].endswith(".avro")) else "url"
        finally:
            mod.importlib, sys.stdin = saved_imp, saved_stdin

    table = {sp: (route(sp, False), route(sp, True)) for sp in SPELLING_CANDIDATES}
    return [sp for sp in SPELLING_CANDIDATES if table[sp] == ("sniffed", "sniffed")], table


def stdin_spelling_tuples(mod):
    """ast cross-check: the constant tuples RecordAdapter compares `url` with (`url in (...)` / `url not in (...)`)."""
    node, _ = _fn_ast(mod.RecordAdapter)
    out = []
    for n in ast.walk(node):
        if isinstance(n, ast.Compare) and _is_name(n.left, "url") and len(n.ops) == 1 and isinstance(n.ops[0], (ast.In, ast.NotIn)) \
                and isinstance(n.comparators[0], (ast.Tuple, ast.List, ast.Set)) and all(isinstance(e, ast.Constant) for e in n.comparators[0].elts):
            out.append(frozenset(e.value for e in n.comparators[0].elts))
    if not out:
        raise Unsupported("RecordAdapter: no `url in (<constants>)` test found")
    return out


def shared_codec_state(mod):
    """Module-level (de)compressor INSTANCES used anywhere in open_stream / open_path or the private helpers they call (one
    level): [(function, name)].  Not observable from one call, hence read from the source -- independent of its shape."""
    out = []
    for top in (mod.open_stream, mod.open_path):
        for fn in helper_functions(mod, top):
            try:
                node = ast.parse(textwrap.dedent(inspect.getsource(fn)))
            except (OSError, TypeError, SyntaxError):
                raise Unsupported("no source for %s" % fn.__name__)
            for name, codec, role in _shared_codec_objects(mod, [node]):
                if (fn.__name__, name) not in out:
                    out.append((fn.__name__, name))
    return out


def _cross_check(what, recogniser, same, notes):
    """Run an ast recogniser as a cross-check of an observed fact: unrecognised spelling -> note; recognised and
    contradicting the observation -> fail closed."""
    try:
        rec = recogniser()
    except Unsupported as e:
        notes.append("%s: source shape not recognised (%s) -- observed behaviour used" % (what, str(e)[:160]))
        return
    except Exception as e:  # noqa
        notes.append("%s: recogniser failed (%s: %s) -- observed behaviour used" % (what, type(e).__name__, str(e)[:120]))
        return
    bad = same(rec)
    if bad:
        raise Unsupported("%s: the source as recognised contradicts the observed behaviour: %s" % (what, bad))


def header_frame():
    from flow.record import RecordOutput
    buf = io.BytesIO()
    w = RecordOutput(buf)
    w.flush()
    frame = buf.getvalue()
    del w
    return frame


def gen_detect():
    import flow.record.base as base
    for name in ("GZIP_MAGIC", "BZ2_MAGIC", "LZ4_MAGIC", "ZSTD_MAGIC", "AVRO_MAGIC", "RECORDSTREAM_MAGIC"):
        if not isinstance(getattr(base, name, None), bytes):
            raise Unsupported("flow.record.base.%s is not a bytes constant" % name)
    if not isinstance(getattr(base, "RECORDSTREAM_MAGIC_DEPTH", None), int):
        raise Unsupported("RECORDSTREAM_MAGIC_DEPTH is not an int")
    for name in FLAGS:
        if not isinstance(getattr(base, name, None), bool):
            raise Unsupported("flow.record.base.%s is not a bool" % name)
    del SHARED[:]
    notes = []
    # ---- facts from OBSERVED behaviour; the ast recognisers only cross-check them
    os_ = observe_open_stream(base)
    _cross_check("open_stream", lambda: open_stream_facts(base),
                 lambda r: None if (set(r["chain"]) == set(os_["chain"]) and r["peek"] == os_["peek"] and r["passthrough"] == os_["passthrough"])
                 else "recognised %r / peek %r, observed %r / peek %r" % (r["chain"], r["peek"], os_["chain"], os_["peek"]), notes)
    op_ = observe_open_path(base)
    canon = lambda ch: {(frozenset(sufs), g, c) for sufs, g, c in ch}  # noqa: E731
    _cross_check("open_path", lambda: open_path_facts(base),
                 lambda r: None if (canon(r["chain"]) == canon(op_["chain"]) and tuple(r["fallback"]) == tuple(op_["fallback"]))
                 else "recognised %r fall-back %r, observed %r fall-back %r" % (r["chain"], r["fallback"], op_["chain"], op_["fallback"]), notes)
    fa_ = observe_find_adapter(base)
    _cross_check("find_adapter_for_stream", lambda: find_adapter_facts(base),
                 lambda r: None if (list(r["chain"]) == list(fa_["chain"]) and r["peek"] == fa_["peek"])
                 else "recognised %r, observed %r" % (r["chain"], fa_["chain"]), notes)
    table, default = observe_adapter_table(base)
    _cross_check("RecordAdapter.ext_to_adapter", lambda: adapter_table_facts(base),
                 lambda r: None if ({k: v for k, v in r[0].items() if v != r[1]} == table and r[1] == default)
                 else "recognised %r default %r, observed %r default %r" % (r[0], r[1], table, default), notes)
    frame = header_frame()
    hlen, hkind, hmagic, hprobes = observe_readheader()
    _cross_check("RecordStreamReader.readheader", readheader_facts,
                 lambda r: None if tuple(r) == (hlen, hkind, hmagic) else "recognised %r, observed %r" % (r, (hlen, hkind, hmagic)), notes)
    deps = observe_flag_deps(base)
    _cross_check("HAS_* import block", lambda: import_block_facts(base),
                 lambda r: None if all(set(r[f]) == set(deps[f]) for f in FLAGS) else "recognised %r, observed %r" % (r, deps), notes)
    pos_ok, pos_probes, pos_why = observe_position(base)
    spellings, sp_table = observe_stdin_spellings(base)
    _cross_check("RecordAdapter stdin spellings", lambda: stdin_spelling_tuples(base),
                 lambda r: None if all(t == frozenset(spellings) for t in r) else "the source compares url with %s, observed no-url spellings %r" % (
                     [sorted(map(repr, t)) for t in r], spellings), notes)
    del SHARED[:]
    SHARED.extend(shared_codec_state(base))      # not observable from single calls: read from the source, shape-independent

    out = HEADER
    out += "From Coq Require Import List Bool String.\nFrom Coq Require Import Strings.Byte.\nImport ListNotations.\n"
    out += "From FR Require Import Detect.\nOpen Scope string_scope.\n\n"
    out += "(* flow/record/base.py: magic constants (live values) *)\n"
    for name in ("GZIP_MAGIC", "BZ2_MAGIC", "LZ4_MAGIC", "ZSTD_MAGIC", "AVRO_MAGIC", "RECORDSTREAM_MAGIC"):
        out += "Definition %s : bytes := %s.\n" % (name, cbytes(getattr(base, name)))
    out += "Definition RECORDSTREAM_MAGIC_DEPTH : nat := %s.\n\n" % cnat(base.RECORDSTREAM_MAGIC_DEPTH)
    out += "(* HAS_* flags of this installation *)\nDefinition has_flags : env := fun f =>\n  match f with %s end.\n\n" % " | ".join(
        "%s => %s" % (c, cbool(getattr(base, n))) for n, c in FLAGS.items())
    out += "(* open_stream: if/elif chain in source order: guard, slice length, magic, wrapper *)\n"
    out += "Definition sniff_chain : list sniff_branch :=\n  %s.\n\n" % clist(
        ["{| sb_guard := %s; sb_len := %s; sb_magic := %s; sb_codec := %s |}" % (copt(g), cnat(k), cbytes(m), c)
         for g, k, m, c in os_["chain"]], sep=";\n   ")
    out += "(* open_path: extension chain in source order *)\n"
    out += "Definition ext_chain : list ext_branch :=\n  %s.\n\n" % clist(
        ["{| eb_suffixes := %s; eb_guard := %s; eb_codec := %s |}" % (clist([cbytes(s.encode()) for s in sufs]), copt(g), c)
         for sufs, g, c in op_["chain"]], sep=";\n   ")
    out += "(* find_adapter_for_stream *)\n"
    out += "Definition cont_chain : list cont_branch :=\n  %s.\n\n" % clist(
        ["{| cb_guard := %s; cb_test := %s; cb_adapter := %s |}" % (copt(g), t, cbytes(n.encode())) for g, t, n in fa_["chain"]],
        sep=";\n   ")
    out += "(* RecordAdapter: ext_to_adapter and the default of .get *)\n"
    out += "Definition ext_to_adapter : list (bytes * bytes) :=\n  %s.\n\n" % clist(
        ["(%s, %s)" % (cbytes(k.encode()), cbytes(v.encode())) for k, v in table.items()])
    out += "(* the bytes RecordOutput(fp).flush() writes before anything else (live) *)\n"
    out += "Definition stream_header_frame : bytes := %s.\n\n" % cbytes(frame)
    out += "(* RecordStreamReader.readheader: bytes read, and the test that must hold for the header to be accepted *)\n"
    out += "Definition header_read_len : nat := %s.\nDefinition header_test : htest := %s %s.\n\n" % (cnat(hlen), hkind, cbytes(hmagic))
    out += "(* base.py import block: for each HAS_* flag the modules whose import (inside the try that sets it) decides it *)\n"
    out += "Definition flag_deps : list (flag * list bytes) :=\n  %s.\n\n" % clist(
        ["(%s, %s)" % (FLAGS[f], clist([cbytes(m.encode()) for m in deps[f]])) for f in FLAGS], sep=";\n   ")
    out += "(* RecordReader(url, fileobj=...): the spellings of url observed to mean `no url: sniff the file object / standard input`\n"
    out += "   (observed routes, without / with fileobj=: %s) *)\n" % "; ".join("%r -> %s/%s" % (k, v[0], v[1]) for k, v in sp_table.items())
    out += "Definition no_url_spellings : list (option bytes) := %s.\n\n" % clist(
        ["None" if sp is None else "(Some %s)" % (cbytes(sp.encode()) if sp else "[]") for sp in spellings])
    out += "Definition the_facts : facts :=\n  {| f_sniff_chain := sniff_chain; f_sniff_peek := %s; f_writer_passthrough := %s;\n" % (
        cnat(os_["peek"]), cbool(os_["passthrough"]))
    if SHARED:
        out += "     (* NOT per stream: %s *)\n" % "; ".join("%s uses module-level %s" % x for x in SHARED)
    out += "     f_private_codec_state := %s;\n" % cbool(not SHARED)
    if not pos_ok:
        out += "     (* observed: %s *)\n" % pos_why.replace("*)", "* )")
    out += "     f_position_preserved := %s;   (* %d probes *)\n" % (cbool(pos_ok), pos_probes)
    out += "     f_no_url_spellings := no_url_spellings;\n"
    out += "     f_header_read_len := header_read_len; f_header_test := header_test; f_flag_deps := flag_deps;\n"
    out += "     f_ext_chain := ext_chain; f_path_fallback_sniffs := %s; f_stdin_fallback_sniffs := %s;\n" % (
        cbool(op_["fallback"][0]), cbool(op_["fallback"][1]))
    out += "     f_cont_chain := cont_chain; f_cont_peek := %s;\n" % cnat(fa_["peek"])
    out += "     f_ext_to_adapter := ext_to_adapter; f_default_adapter := %s;\n" % cbytes(default.encode())
    out += "     f_rs_magic := RECORDSTREAM_MAGIC; f_header_frame := stream_header_frame; f_env := has_flags |}.\n"
    out += "\n(* facts derived from observed behaviour: open_stream %d probes, open_path %d, find_adapter_for_stream %d, readheader %d;\n" % (
        os_["probes"], op_["probes"], fa_["probes"], hprobes)
    out += "   HAS_* dependencies from child interpreters; ast recognisers used as cross-checks *)\n"
    for n in notes:
        out += "(* note: %s *)\n" % n.replace("*)", "* )").replace("(*", "( *")
    write_if_changed(GEN / "Gen_detect.v", out)


GENERATORS = [gen_detect]
