"""C11 facts: how flow.record.base recognises codecs and containers -> coq/gen/Gen_detect.v.

Live values (import): the five magic byte strings, RECORDSTREAM_MAGIC, RECORDSTREAM_MAGIC_DEPTH, the HAS_* flags,
the header frame a stream writer emits.
Shapes (ast): the order of the if/elif chains of open_stream, open_path and find_adapter_for_stream -- which
constant each branch compares with which slice length under which HAS_* guard and which (de)compressor module
its body uses --, the fall-back of open_path to open_stream, and RecordAdapter's ext_to_adapter table with its
default.  Anything that does not have a shape the model can express raises Unsupported (fail closed).
"""
from __future__ import annotations

import ast
import inspect
import io
import textwrap

from vf.coqlit import cbool, clist, cnat, copt
from vf.factlib import GEN, HEADER, Unsupported, write_if_changed

FLAGS = {"HAS_BZ2": "FBz2", "HAS_LZ4": "FLz4", "HAS_ZSTD": "FZstd", "HAS_AVRO": "FAvro"}
MODULES = {"gzip": "Gzip", "bz2": "Bz2", "lz4": "Lz4", "zstd": "Zstd"}


def cbytes(b: bytes) -> str:
    if b and all(32 < c < 127 and c not in (34, 92) for c in b):
        return '(B "%s")' % b.decode("ascii")
    return "[" + "; ".join("x%02x" % c for c in b) + "]"


def _fn_ast(fn):
    node = ast.parse(textwrap.dedent(inspect.getsource(fn))).body[0]
    if not isinstance(node, ast.FunctionDef):
        raise Unsupported("%s is not a plain def" % fn.__name__)
    body = list(node.body)
    if body and isinstance(body[0], ast.Expr) and isinstance(body[0].value, ast.Constant) and isinstance(body[0].value.value, str):
        body = body[1:]
    return node, body


def _where(fn, node):
    return "%s:%d" % (fn.__name__, fn.__code__.co_firstlineno + getattr(node, "lineno", 1) - 1)


def _const(mod, node, fn):
    """Value of a constant expression over module-level constants (names, literals, + - *, len())."""
    for n in ast.walk(node):
        if isinstance(n, ast.Name):
            if n.id == "len":
                continue
            if n.id not in vars(mod) or not isinstance(vars(mod)[n.id], (bytes, int, str)):
                raise Unsupported("%s: %r is not a module-level constant" % (_where(fn, node), n.id))
        elif isinstance(n, ast.Call):
            if not (isinstance(n.func, ast.Name) and n.func.id == "len" and len(n.args) == 1 and not n.keywords):
                raise Unsupported("%s: call in a constant expression" % _where(fn, node))
        elif not isinstance(n, (ast.Constant, ast.BinOp, ast.Add, ast.Sub, ast.Mult, ast.Load, ast.Tuple)):
            raise Unsupported("%s: %s in a constant expression" % (_where(fn, node), type(n).__name__))
    env = {k: v for k, v in vars(mod).items() if isinstance(v, (bytes, int, str))}
    env["len"] = len
    return eval(compile(ast.Expression(node), "<fact>", "eval"), {"__builtins__": {}}, env)


def _is_name(node, name=None):
    return isinstance(node, ast.Name) and (name is None or node.id == name)


def _split_guard(test, fn):
    """[HAS_X and] <core>  ->  (flag constructor or None, core)"""
    if isinstance(test, ast.BoolOp) and isinstance(test.op, ast.And):
        guards = [v for v in test.values if _is_name(v) and v.id.startswith("HAS_")]
        rest = [v for v in test.values if not (_is_name(v) and v.id.startswith("HAS_"))]
        if len(guards) > 1 or len(rest) != 1:
            raise Unsupported("%s: unrecognised conjunction" % _where(fn, test))
        flag = None
        if guards:
            if guards[0].id not in FLAGS:
                raise Unsupported("%s: unknown flag %s" % (_where(fn, test), guards[0].id))
            flag = FLAGS[guards[0].id]
        return flag, rest[0]
    return None, test


def _upper_slice(node, var):
    """var[:k]  ->  the expression k"""
    if isinstance(node, ast.Subscript) and _is_name(node.value, var) and isinstance(node.slice, ast.Slice) \
            and node.slice.lower is None and node.slice.step is None and node.slice.upper is not None:
        return node.slice.upper
    return None


def _prefix_test(mod, core, var, fn):
    """var[:k] == M | M == var[:k] | var.startswith(M)  ->  (k, M)   (None when the test has another form)"""
    if isinstance(core, ast.Compare) and len(core.ops) == 1 and isinstance(core.ops[0], ast.Eq):
        a, b = core.left, core.comparators[0]
        for sl, m in ((a, b), (b, a)):
            up = _upper_slice(sl, var)
            if up is not None:
                k = _const(mod, up, fn)
                magic = _const(mod, m, fn)
                if not isinstance(k, int) or isinstance(k, bool) or k < 0 or not isinstance(magic, bytes):
                    raise Unsupported("%s: slice length / magic of unexpected type" % _where(fn, core))
                return k, magic
    if isinstance(core, ast.Call) and isinstance(core.func, ast.Attribute) and core.func.attr == "startswith" \
            and _is_name(core.func.value, var) and len(core.args) == 1 and not core.keywords:
        magic = _const(mod, core.args[0], fn)
        if not isinstance(magic, bytes):
            raise Unsupported("%s: startswith argument is not a bytes constant" % _where(fn, core))
        return len(magic), magic
    return None


def _within_test(mod, core, var, fn):
    """M in var[:d]  ->  (d, M)"""
    if isinstance(core, ast.Compare) and len(core.ops) == 1 and isinstance(core.ops[0], ast.In):
        up = _upper_slice(core.comparators[0], var)
        if up is not None:
            d = _const(mod, up, fn)
            magic = _const(mod, core.left, fn)
            if isinstance(d, int) and not isinstance(d, bool) and d >= 0 and isinstance(magic, bytes):
                return d, magic
    return None


def _flatten_chain(stmt):
    """if/elif/elif (no final else)  ->  [(test, body)]"""
    out = []
    while True:
        out.append((stmt.test, stmt.body))
        if not stmt.orelse:
            return out
        if len(stmt.orelse) == 1 and isinstance(stmt.orelse[0], ast.If):
            stmt = stmt.orelse[0]
            continue
        return out + [(None, stmt.orelse)]


SHARED = []     # module-level (de)compressor objects used by a branch instead of a per-stream one: (where, name)


def _shared_codec_objects(mod, stmts):
    """Names in the statements that denote module-level (de)compressor INSTANCES -> [(name, codec, role)]"""
    out = []
    for s in stmts:
        for n in ast.walk(s):
            if isinstance(n, ast.Name) and n.id in vars(mod) and n.id not in MODULES:
                v = vars(mod)[n.id]
                tm, tn = type(v).__module__ or "", type(v).__name__
                if isinstance(v, (type, type(ast), bool, int, str, bytes)) or callable(v) and not tm.startswith(("zstandard", "lz4", "_bz2", "zlib", "bz2", "gzip")):
                    continue
                codec = "Zstd" if tm.startswith("zstandard") else "Lz4" if tm.startswith("lz4") else "Bz2" if tm in ("_bz2", "bz2") \
                    else "Gzip" if tm in ("zlib", "gzip") else None
                if codec:
                    out.append((n.id, codec, "d" if "ecompress" in tn else "c"))
    return out


def _codec_of_body(stmts, fn, at, mod=None):
    names = {MODULES[n.id] for s in stmts for n in ast.walk(s) if isinstance(n, ast.Name) and n.id in MODULES}
    if mod is not None:
        for name, codec, _ in _shared_codec_objects(mod, stmts):
            names.add(codec)
            SHARED.append((_where(fn, at), name))
    if len(names) != 1:
        raise Unsupported("%s: branch body uses %s (expected exactly one of gzip/bz2/lz4/zstd)" % (_where(fn, at), sorted(names) or "none"))
    return names.pop()


def _peek_assign(stmt):
    """v = fp.peek(N) -> (v, N-expression)"""
    if isinstance(stmt, ast.Assign) and len(stmt.targets) == 1 and _is_name(stmt.targets[0]) \
            and isinstance(stmt.value, ast.Call) and isinstance(stmt.value.func, ast.Attribute) \
            and stmt.value.func.attr == "peek" and _is_name(stmt.value.func.value, "fp") \
            and len(stmt.value.args) == 1 and not stmt.value.keywords:
        return stmt.targets[0].id, stmt.value.args[0]
    return None


def _is_buffer_wrap(stmt):
    """if not hasattr(fp, "peek"): fp = io.BufferedReader(fp)"""
    if not (isinstance(stmt, ast.If) and not stmt.orelse and len(stmt.body) == 1):
        return False
    t = stmt.test
    ok_test = (isinstance(t, ast.UnaryOp) and isinstance(t.op, ast.Not) and isinstance(t.operand, ast.Call)
               and _is_name(t.operand.func, "hasattr") and len(t.operand.args) == 2 and _is_name(t.operand.args[0], "fp")
               and isinstance(t.operand.args[1], ast.Constant) and t.operand.args[1].value == "peek")
    b = stmt.body[0]
    ok_body = (isinstance(b, ast.Assign) and len(b.targets) == 1 and _is_name(b.targets[0], "fp")
               and isinstance(b.value, ast.Call) and isinstance(b.value.func, ast.Attribute)
               and b.value.func.attr == "BufferedReader" and len(b.value.args) == 1 and _is_name(b.value.args[0], "fp"))
    return ok_test and ok_body


def _is_return_name(stmt, name):
    return isinstance(stmt, ast.Return) and _is_name(stmt.value, name)


# ------------------------------------------------------------------------------------------------
def open_stream_facts(mod):
    fn = mod.open_stream
    node, body = _fn_ast(fn)
    args = [a.arg for a in node.args.args]
    if args[:2] != ["fp", "mode"]:
        raise Unsupported("open_stream signature %r" % args)
    passthrough = False
    peekvar = peeklen = None
    chain = []
    i = 0
    # if "w" in mode: return fp
    s = body[i]
    if isinstance(s, ast.If) and not s.orelse and len(s.body) == 1 and _is_return_name(s.body[0], "fp") \
            and isinstance(s.test, ast.Compare) and len(s.test.ops) == 1 and isinstance(s.test.ops[0], ast.In) \
            and isinstance(s.test.left, ast.Constant) and s.test.left.value == "w" and _is_name(s.test.comparators[0], "mode"):
        passthrough = True
        i += 1
    if _is_buffer_wrap(body[i]):
        i += 1
    pa = _peek_assign(body[i])
    if not pa:
        raise Unsupported("%s: expected `<v> = fp.peek(<n>)`" % _where(fn, body[i]))
    peekvar, peekexpr = pa
    peeklen = _const(mod, peekexpr, fn)
    i += 1
    rest = body[i:]
    if not rest or not _is_return_name(rest[-1], "fp"):
        raise Unsupported("open_stream does not end with `return fp`")
    for s in rest[:-1]:
        if not isinstance(s, ast.If):
            raise Unsupported("%s: unexpected statement %s" % (_where(fn, s), type(s).__name__))
        for test, stmts in _flatten_chain(s):
            if test is None:
                raise Unsupported("%s: final else in the sniffing chain" % _where(fn, s))
            flag, core = _split_guard(test, fn)
            pt = _prefix_test(mod, core, peekvar, fn)
            if pt is None:
                raise Unsupported("%s: unrecognised magic test" % _where(fn, test))
            for st in stmts:
                if not (isinstance(st, ast.Assign) and len(st.targets) == 1 and _is_name(st.targets[0])):
                    raise Unsupported("%s: branch body is not a sequence of simple assignments" % _where(fn, st))
            last = stmts[-1]
            if not _is_name(last.targets[0], "fp"):
                raise Unsupported("%s: branch does not rebind fp" % _where(fn, last))
            if not any(_is_name(n, "fp") for st in stmts for n in ast.walk(st.value)):
                raise Unsupported("%s: the wrapper is not built around fp" % _where(fn, last))
            chain.append((flag, pt[0], pt[1], _codec_of_body(stmts, fn, test, mod)))
    return dict(passthrough=passthrough, peek=peeklen, chain=chain)


def _endswith_test(test, fn):
    if isinstance(test, ast.BoolOp) and isinstance(test.op, ast.Or):      # path.endswith(a) or path.endswith(b)
        parts = [_endswith_test(v, fn) for v in test.values]
        if all(p is not None for p in parts):
            return [x for p in parts for x in p]
        return None
    if isinstance(test, ast.Call) and isinstance(test.func, ast.Attribute) and test.func.attr == "endswith" \
            and _is_name(test.func.value, "path") and len(test.args) == 1 and not test.keywords:
        a = test.args[0]
        if isinstance(a, ast.Constant) and isinstance(a.value, str):
            return [a.value]
        if isinstance(a, ast.Tuple) and a.elts and all(isinstance(x, ast.Constant) and isinstance(x.value, str) for x in a.elts):
            return [x.value for x in a.elts]
    return None


def _attrs(stmts):
    return [n.attr for s in stmts for n in ast.walk(s) if isinstance(n, ast.Attribute)]


def _ext_branch(test, stmts, outvar, fn, mod=None):
    sufs = _endswith_test(test, fn)
    if sufs is None:
        raise Unsupported("%s: unrecognised extension test" % _where(fn, test))
    flag = None
    stmts = list(stmts)
    # if not HAS_X: raise RuntimeError(...)
    if stmts and isinstance(stmts[0], ast.If) and not stmts[0].orelse and len(stmts[0].body) == 1 \
            and isinstance(stmts[0].body[0], ast.Raise) and isinstance(stmts[0].test, ast.UnaryOp) \
            and isinstance(stmts[0].test.op, ast.Not) and _is_name(stmts[0].test.operand) \
            and stmts[0].test.operand.id in FLAGS:
        flag = FLAGS[stmts[0].test.operand.id]
        stmts = stmts[1:]
    codec = _codec_of_body(stmts, fn, test, mod)

    def simple(ss):
        return ss and all(isinstance(x, ast.Assign) and len(x.targets) == 1 and _is_name(x.targets[0]) for x in ss) \
            and _is_name(ss[-1].targets[0], "fp")

    if len(stmts) == 1 and isinstance(stmts[0], ast.If) and stmts[0].orelse:
        # if not out: <reader> else: <writer>   (or the mirrored form)
        t = stmts[0].test
        if isinstance(t, ast.UnaryOp) and isinstance(t.op, ast.Not) and _is_name(t.operand, outvar):
            rd, wr = stmts[0].body, stmts[0].orelse
        elif _is_name(t, outvar):
            wr, rd = stmts[0].body, stmts[0].orelse
        else:
            raise Unsupported("%s: unrecognised read/write split" % _where(fn, t))
        if not (simple(rd) and simple(wr)):
            raise Unsupported("%s: read/write split bodies are not simple assignments to fp" % _where(fn, t))
        ra, wa = _attrs(rd), _attrs(wr)
        if mod is not None:      # a module-level decompressor / compressor instance counts as building one
            ra += ["Decompressor" if r == "d" else "Compressor" for _, _, r in _shared_codec_objects(mod, rd)]
            wa += ["Decompressor" if r == "d" else "Compressor" for _, _, r in _shared_codec_objects(mod, wr)]
        if not any("ecompress" in a for a in ra) or any("ecompress" in a for a in wa) \
                or not any("ompress" in a for a in wa) or any(a.endswith("Compressor") or a == "stream_writer" for a in ra):
            raise Unsupported("%s: the reading side must build a decompressor and the writing side a compressor" % _where(fn, t))

        def mode_const(ss):
            return [n.value for s in ss for n in ast.walk(s) if isinstance(n, ast.Constant) and n.value in ("rb", "wb", "r", "w", "ab", "a")]
        if mode_const(rd) not in ([], ["rb"]) or mode_const(wr) not in ([], ["wb"]):
            raise Unsupported("%s: unexpected open mode inside the read/write split" % _where(fn, t))
    else:
        if not simple(stmts):
            raise Unsupported("%s: branch body is not a simple assignment to fp" % _where(fn, test))
        call = stmts[-1].value
        names = {n.id for n in ast.walk(call) if isinstance(n, ast.Name)}
        if not (isinstance(call, ast.Call) and {"path", "mode"} <= names):
            raise Unsupported("%s: the (de)compressor is not opened with (path, mode)" % _where(fn, test))
    return (sufs, flag, codec)


def open_path_facts(mod):
    fn = mod.open_path
    node, body = _fn_ast(fn)
    args = [a.arg for a in node.args.args]
    if args[:2] != ["path", "mode"]:
        raise Unsupported("open_path signature %r" % args)
    outvar = binvar = stdiovar = None
    chain = None
    fallback = None         # (applies to regular files, applies to stdin)
    seen_return = False
    for s in body:
        d = ast.dump(s)
        # <b> = "b" in mode
        if isinstance(s, ast.Assign) and len(s.targets) == 1 and _is_name(s.targets[0]) and isinstance(s.value, ast.Compare) \
                and len(s.value.ops) == 1 and isinstance(s.value.ops[0], ast.In) and isinstance(s.value.left, ast.Constant):
            if s.value.left.value == "b" and _is_name(s.value.comparators[0], "mode"):
                binvar = s.targets[0].id
                continue
        # fp = None
        if isinstance(s, ast.Assign) and len(s.targets) == 1 and _is_name(s.targets[0], "fp") \
                and isinstance(s.value, ast.Constant) and s.value.value is None and chain is None:
            continue
        # <s> = path in (None, "", "-")
        if isinstance(s, ast.Assign) and len(s.targets) == 1 and _is_name(s.targets[0]) and isinstance(s.value, ast.Compare) \
                and _is_name(s.value.left, "path") and len(s.value.ops) == 1 and isinstance(s.value.ops[0], ast.In) \
                and isinstance(s.value.comparators[0], (ast.Tuple, ast.List, ast.Set)) \
                and all(isinstance(x, ast.Constant) and x.value in (None, "", "-") for x in s.value.comparators[0].elts):
            stdiovar = s.targets[0].id
            continue
        if isinstance(s, ast.If):
            t = s.test
            # mode -> out
            if isinstance(t, ast.Compare) and _is_name(t.left, "mode") and chain is None and outvar is None:
                br = _flatten_chain(s)
                vals = {}
                for test, stmts in br:
                    if test is None:
                        if not (len(stmts) == 1 and isinstance(stmts[0], ast.Raise)):
                            raise Unsupported("%s: mode chain else-branch" % _where(fn, s))
                        continue
                    if not (isinstance(test, ast.Compare) and _is_name(test.left, "mode") and len(test.ops) == 1
                            and isinstance(test.ops[0], ast.In) and len(stmts) == 1 and isinstance(stmts[0], ast.Assign)
                            and _is_name(stmts[0].targets[0]) and isinstance(stmts[0].value, ast.Constant)
                            and isinstance(stmts[0].value.value, bool)):
                        raise Unsupported("%s: mode chain" % _where(fn, test))
                    modes = tuple(sorted(_const(mod, test.comparators[0], fn)))
                    vals[modes] = (stmts[0].targets[0].id, stmts[0].value.value)
                if set(vals) != {("w", "wb"), ("r", "rb")} or vals[("w", "wb")][1] is not True \
                        or vals[("r", "rb")][1] is not False or vals[("w", "wb")][0] != vals[("r", "rb")][0]:
                    raise Unsupported("%s: mode chain does not map w/wb -> True, r/rb -> False" % _where(fn, s))
                outvar = vals[("w", "wb")][0]
                continue
            # clobber guard: if ...: raise
            if not s.orelse and len(s.body) == 1 and isinstance(s.body[0], ast.Raise) and chain is None:
                continue
            # if path: <chain>
            if _is_name(t, "path") and not s.orelse and len(s.body) == 1 and isinstance(s.body[0], ast.If) and chain is None:
                s = s.body[0]
                t = s.test
            if _endswith_test(t, fn) is not None and chain is None:
                if outvar is None:
                    raise Unsupported("open_path: extension chain before the mode is decoded")
                chain = []
                for test, stmts in _flatten_chain(s):
                    if test is None:
                        raise Unsupported("%s: final else in the extension chain" % _where(fn, s))
                    chain.append(_ext_branch(test, stmts, outvar, fn, mod))
                continue
            # if not fp: ...
            if isinstance(t, ast.UnaryOp) and isinstance(t.op, ast.Not) and _is_name(t.operand, "fp") and not s.orelse \
                    and chain is not None and fallback is None:
                fallback = (False, False)
                calls = []
                for sub in ast.walk(s):
                    if isinstance(sub, ast.If):
                        for b in sub.body:
                            if isinstance(b, ast.Assign) and isinstance(b.value, ast.Call) and _is_name(b.value.func, "open_stream"):
                                calls.append((sub, b))
                allcalls = [n for n in ast.walk(s) if isinstance(n, ast.Call) and _is_name(n.func, "open_stream")]
                if len(allcalls) != len(calls) or len(calls) > 1:
                    raise Unsupported("%s: unrecognised use of open_stream in the fall-back" % _where(fn, s))
                if calls:
                    cond, asg = calls[0]
                    # where does it sit?  last step of `if not fp` (files AND stdin), or last step of one arm of
                    # `if <is_stdio>: ... else: ...` (only that kind of source)
                    if cond in s.body and s.body[-1] is cond:
                        where = (True, True)
                    else:
                        split = [x for x in s.body if isinstance(x, ast.If) and stdiovar and _is_name(x.test, stdiovar)]
                        if len(split) == 1 and split[0].body and split[0].body[-1] is cond:
                            where = (False, True)
                        elif len(split) == 1 and split[0].orelse and split[0].orelse[-1] is cond:
                            where = (True, False)
                        else:
                            raise Unsupported("%s: the open_stream fall-back is not the last step of `if not fp` or of one of its arms" % _where(fn, cond))
                    want = {ast.dump(ast.parse("not %s" % outvar, mode="eval").body)}
                    if binvar:
                        want.add(ast.dump(ast.Name(binvar, ast.Load())))
                    ct = cond.test
                    got = {ast.dump(v) for v in ct.values} if isinstance(ct, ast.BoolOp) and isinstance(ct.op, ast.And) else {ast.dump(ct)}
                    if got != want or cond.orelse:
                        raise Unsupported("%s: open_stream fall-back condition is not `not %s and %s`" % (_where(fn, cond), outvar, binvar))
                    if not (_is_name(asg.targets[0], "fp") and len(asg.value.args) == 2 and _is_name(asg.value.args[0], "fp")
                            and _is_name(asg.value.args[1], "mode")):
                        raise Unsupported("%s: open_stream fall-back call" % _where(fn, asg))
                    fallback = where
                continue
        if _is_return_name(s, "fp") and s is body[-1]:
            seen_return = True
            continue
        raise Unsupported("%s: unexpected statement in open_path: %s" % (_where(fn, s), d[:80]))
    if chain is None or fallback is None or not seen_return:
        raise Unsupported("open_path: extension chain / fall-back / return not found")
    return dict(chain=chain, fallback=fallback)


def find_adapter_facts(mod):
    fn = mod.find_adapter_for_stream
    node, body = _fn_ast(fn)
    i = 0
    if _is_buffer_wrap(body[i]):
        i += 1
    pa = _peek_assign(body[i])
    if not pa:
        raise Unsupported("%s: expected `<v> = fp.peek(<n>)`" % _where(fn, body[i]))
    var, pexpr = pa
    peeklen = _const(mod, pexpr, fn)
    chain = []

    def ret_adapter(stmts, at):
        if len(stmts) == 1 and isinstance(stmts[0], ast.Return) and isinstance(stmts[0].value, ast.Tuple) \
                and len(stmts[0].value.elts) == 2 and _is_name(stmts[0].value.elts[0], "fp") \
                and isinstance(stmts[0].value.elts[1], ast.Constant):
            return stmts[0].value.elts[1].value
        raise Unsupported("%s: branch is not `return fp, <name>`" % _where(fn, at))

    rest = body[i + 1:]
    if not rest or ret_adapter([rest[-1]], rest[-1] if rest else node) is not None:
        raise Unsupported("find_adapter_for_stream does not end with `return fp, None`")
    for s in rest[:-1]:
        if not isinstance(s, ast.If):
            raise Unsupported("%s: unexpected statement" % _where(fn, s))
        for test, stmts in _flatten_chain(s):
            if test is None:
                raise Unsupported("%s: final else" % _where(fn, s))
            flag, core = _split_guard(test, fn)
            name = ret_adapter(stmts, test)
            if not isinstance(name, str):
                raise Unsupported("%s: adapter name is not a string" % _where(fn, test))
            pt = _prefix_test(mod, core, var, fn)
            if pt is not None:
                chain.append((flag, "(CPrefix %s %s)" % (cnat(pt[0]), cbytes(pt[1])), name))
                continue
            wt = _within_test(mod, core, var, fn)
            if wt is not None:
                chain.append((flag, "(CWithin %s %s)" % (cnat(wt[0]), cbytes(wt[1])), name))
                continue
            raise Unsupported("%s: unrecognised container test" % _where(fn, test))
    return dict(peek=peeklen, chain=chain)


def adapter_table_facts(mod):
    fn = mod.RecordAdapter
    node, body = _fn_ast(fn)
    table = None
    default = None
    for n in ast.walk(node):
        if isinstance(n, ast.Assign) and len(n.targets) == 1 and _is_name(n.targets[0], "ext_to_adapter"):
            if table is not None or not isinstance(n.value, ast.Dict):
                raise Unsupported("RecordAdapter: ext_to_adapter is not one dict display")
            if not all(isinstance(k, ast.Constant) and isinstance(k.value, str) and isinstance(v, ast.Constant) and isinstance(v.value, str)
                       for k, v in zip(n.value.keys, n.value.values)):
                raise Unsupported("RecordAdapter: ext_to_adapter has non-literal entries")
            table = {}
            for k, v in zip(n.value.keys, n.value.values):
                table[k.value] = v.value      # later duplicates win, as in a dict display
        if isinstance(n, (ast.Subscript, ast.Attribute)) and _is_name(getattr(n, "value", None), "ext_to_adapter"):
            if not (isinstance(n, ast.Attribute) and n.attr == "get"):
                raise Unsupported("RecordAdapter: ext_to_adapter used other than through .get(ext, default)")
        if isinstance(n, ast.Call) and isinstance(n.func, ast.Attribute) and n.func.attr == "get" and _is_name(n.func.value, "ext_to_adapter"):
            if default is not None or len(n.args) != 2 or not (isinstance(n.args[1], ast.Constant) and isinstance(n.args[1].value, str)):
                raise Unsupported("RecordAdapter: ext_to_adapter.get(ext, <literal default>) expected exactly once")
            default = n.args[1].value
    if table is None or default is None:
        raise Unsupported("RecordAdapter: ext_to_adapter table / default not found")
    return table, default


def readheader_facts():
    """RecordStreamReader.readheader:  <h> = self.fp.read(<n>);  if not <h>.endswith(<M>): raise IOError(...)
    -> (n, test kind, M).  Test kinds: HEndsWith (`not h.endswith(M)`), HContains (`M not in h`)."""
    import flow.record.stream as st
    fn = st.RecordStreamReader.readheader
    node, body = _fn_ast(fn)
    if len(body) != 2:
        raise Unsupported("readheader: expected a read and one check, found %d statements" % len(body))
    a, c = body
    if not (isinstance(a, ast.Assign) and len(a.targets) == 1 and _is_name(a.targets[0]) and isinstance(a.value, ast.Call)
            and isinstance(a.value.func, ast.Attribute) and a.value.func.attr == "read" and len(a.value.args) == 1 and not a.value.keywords
            and isinstance(a.value.func.value, ast.Attribute) and a.value.func.value.attr == "fp" and _is_name(a.value.func.value.value, "self")):
        raise Unsupported("%s: expected `<h> = self.fp.read(<n>)`" % _where(fn, a))
    var = a.targets[0].id
    n = _const(st, a.value.args[0], fn)
    if not isinstance(n, int) or isinstance(n, bool) or n < 0:
        raise Unsupported("%s: header length is not a constant int" % _where(fn, a))
    if not (isinstance(c, ast.If) and not c.orelse and len(c.body) == 1 and isinstance(c.body[0], ast.Raise)):
        raise Unsupported("%s: expected `if <test>: raise ...`" % _where(fn, c))
    exc = c.body[0].exc
    excname = exc.func.id if isinstance(exc, ast.Call) and _is_name(exc.func) else exc.id if _is_name(exc) else None
    if excname not in ("IOError", "OSError"):
        raise Unsupported("%s: the header check raises %s, not IOError" % (_where(fn, c), excname))
    t = c.test
    if isinstance(t, ast.UnaryOp) and isinstance(t.op, ast.Not) and isinstance(t.operand, ast.Call) and isinstance(t.operand.func, ast.Attribute) \
            and t.operand.func.attr == "endswith" and _is_name(t.operand.func.value, var) and len(t.operand.args) == 1:
        kind, m = "HEndsWith", _const(st, t.operand.args[0], fn)
    elif isinstance(t, ast.Compare) and len(t.ops) == 1 and isinstance(t.ops[0], ast.NotIn) and _is_name(t.comparators[0], var):
        kind, m = "HContains", _const(st, t.left, fn)
    elif isinstance(t, ast.UnaryOp) and isinstance(t.op, ast.Not) and isinstance(t.operand, ast.Compare) and len(t.operand.ops) == 1 \
            and isinstance(t.operand.ops[0], ast.In) and _is_name(t.operand.comparators[0], var):
        kind, m = "HContains", _const(st, t.operand.left, fn)
    else:
        raise Unsupported("%s: unrecognised header test" % _where(fn, t))
    if not isinstance(m, bytes):
        raise Unsupported("%s: header magic is not a bytes constant" % _where(fn, t))
    return n, kind, m


FLAG_MODULE = {"HAS_LZ4": "lz4.frame", "HAS_BZ2": "bz2", "HAS_ZSTD": "zstandard", "HAS_AVRO": "fastavro"}


def import_block_facts(mod):
    """The module-level try/except ImportError blocks of base.py that set the HAS_* flags: for each flag the modules whose
    import decides it (all imports inside the try that sets it True).  Fail closed on any other way of setting a flag."""
    import pathlib
    tree = ast.parse(pathlib.Path(mod.__file__).read_text())
    deps = {}

    def flag_targets(stmt):
        if isinstance(stmt, ast.Assign):
            return [t.id for t in stmt.targets if _is_name(t) and t.id in FLAGS], stmt.value
        return [], None

    for node in tree.body:
        if isinstance(node, ast.Try):
            set_true, mods, others = [], [], []
            for st in node.body:
                if isinstance(st, ast.Import):
                    mods += [a.name for a in st.names]
                elif isinstance(st, ast.ImportFrom):
                    mods.append(st.module or ".")
                else:
                    fl, val = flag_targets(st)
                    if fl:
                        if not (isinstance(val, ast.Constant) and val.value is True):
                            raise Unsupported("base.py:%d: %s set to something other than True in a try body" % (st.lineno, fl))
                        set_true += fl
                    elif not (isinstance(st, ast.Expr) and isinstance(st.value, ast.Constant)):
                        others.append(st)
            if set_true and others:
                raise Unsupported("base.py:%d: unexpected statement in a flag-setting try block" % others[0].lineno)
            if not set_true:
                if any(flag_targets(x)[0] for h in node.handlers for x in h.body):
                    raise Unsupported("base.py:%d: a HAS_* flag is set only in an except handler" % node.lineno)
                continue
            if node.orelse or node.finalbody or len(node.handlers) != 1:
                raise Unsupported("base.py:%d: flag-setting try block with else/finally/several handlers" % node.lineno)
            h = node.handlers[0]
            if not (_is_name(h.type) and h.type.id in ("ImportError", "ModuleNotFoundError")):
                raise Unsupported("base.py:%d: flag-setting try block does not catch ImportError" % h.lineno)
            set_false = []
            for st in h.body:
                fl, val = flag_targets(st)
                if not fl or not (isinstance(val, ast.Constant) and val.value is False):
                    raise Unsupported("base.py:%d: the ImportError handler does more than set flags to False" % st.lineno)
                set_false += fl
            if sorted(set_true) != sorted(set_false):
                raise Unsupported("base.py:%d: flags set True %s / False %s differ" % (node.lineno, set_true, set_false))
            for f in set_true:
                if f in deps:
                    raise Unsupported("base.py:%d: %s is set by more than one try block" % (node.lineno, f))
                deps[f] = list(mods)
        else:
            fl, _ = flag_targets(node)
            if fl:
                raise Unsupported("base.py:%d: %s assigned outside a try/except ImportError block" % (node.lineno, fl))
    for f in FLAGS:
        if f not in deps:
            raise Unsupported("base.py: no try/except ImportError block sets %s" % f)
    return deps


def header_frame():
    from flow.record import RecordOutput
    buf = io.BytesIO()
    w = RecordOutput(buf)
    w.flush()
    frame = buf.getvalue()
    del w
    return frame


def gen_detect():
    import flow.record.base as base
    for name in ("GZIP_MAGIC", "BZ2_MAGIC", "LZ4_MAGIC", "ZSTD_MAGIC", "AVRO_MAGIC", "RECORDSTREAM_MAGIC"):
        if not isinstance(getattr(base, name, None), bytes):
            raise Unsupported("flow.record.base.%s is not a bytes constant" % name)
    if not isinstance(getattr(base, "RECORDSTREAM_MAGIC_DEPTH", None), int):
        raise Unsupported("RECORDSTREAM_MAGIC_DEPTH is not an int")
    for name in FLAGS:
        if not isinstance(getattr(base, name, None), bool):
            raise Unsupported("flow.record.base.%s is not a bool" % name)
    del SHARED[:]
    os_ = open_stream_facts(base)
    op_ = open_path_facts(base)
    fa_ = find_adapter_facts(base)
    table, default = adapter_table_facts(base)
    frame = header_frame()
    hlen, hkind, hmagic = readheader_facts()
    deps = import_block_facts(base)

    out = HEADER
    out += "From Coq Require Import List Bool String.\nFrom Coq Require Import Strings.Byte.\nImport ListNotations.\n"
    out += "From FR Require Import Detect.\nOpen Scope string_scope.\n\n"
    out += "(* flow/record/base.py: magic constants (live values) *)\n"
    for name in ("GZIP_MAGIC", "BZ2_MAGIC", "LZ4_MAGIC", "ZSTD_MAGIC", "AVRO_MAGIC", "RECORDSTREAM_MAGIC"):
        out += "Definition %s : bytes := %s.\n" % (name, cbytes(getattr(base, name)))
    out += "Definition RECORDSTREAM_MAGIC_DEPTH : nat := %s.\n\n" % cnat(base.RECORDSTREAM_MAGIC_DEPTH)
    out += "(* HAS_* flags of this installation *)\nDefinition has_flags : env := fun f =>\n  match f with %s end.\n\n" % " | ".join(
        "%s => %s" % (c, cbool(getattr(base, n))) for n, c in FLAGS.items())
    out += "(* open_stream: if/elif chain in source order: guard, slice length, magic, wrapper *)\n"
    out += "Definition sniff_chain : list sniff_branch :=\n  %s.\n\n" % clist(
        ["{| sb_guard := %s; sb_len := %s; sb_magic := %s; sb_codec := %s |}" % (copt(g), cnat(k), cbytes(m), c)
         for g, k, m, c in os_["chain"]], sep=";\n   ")
    out += "(* open_path: extension chain in source order *)\n"
    out += "Definition ext_chain : list ext_branch :=\n  %s.\n\n" % clist(
        ["{| eb_suffixes := %s; eb_guard := %s; eb_codec := %s |}" % (clist([cbytes(s.encode()) for s in sufs]), copt(g), c)
         for sufs, g, c in op_["chain"]], sep=";\n   ")
    out += "(* find_adapter_for_stream *)\n"
    out += "Definition cont_chain : list cont_branch :=\n  %s.\n\n" % clist(
        ["{| cb_guard := %s; cb_test := %s; cb_adapter := %s |}" % (copt(g), t, cbytes(n.encode())) for g, t, n in fa_["chain"]],
        sep=";\n   ")
    out += "(* RecordAdapter: ext_to_adapter and the default of .get *)\n"
    out += "Definition ext_to_adapter : list (bytes * bytes) :=\n  %s.\n\n" % clist(
        ["(%s, %s)" % (cbytes(k.encode()), cbytes(v.encode())) for k, v in table.items()])
    out += "(* the bytes RecordOutput(fp).flush() writes before anything else (live) *)\n"
    out += "Definition stream_header_frame : bytes := %s.\n\n" % cbytes(frame)
    out += "(* RecordStreamReader.readheader: bytes read, and the test that must hold for the header to be accepted *)\n"
    out += "Definition header_read_len : nat := %s.\nDefinition header_test : htest := %s %s.\n\n" % (cnat(hlen), hkind, cbytes(hmagic))
    out += "(* base.py import block: for each HAS_* flag the modules whose import (inside the try that sets it) decides it *)\n"
    out += "Definition flag_deps : list (flag * list bytes) :=\n  %s.\n\n" % clist(
        ["(%s, %s)" % (FLAGS[f], clist([cbytes(m.encode()) for m in deps[f]])) for f in FLAGS], sep=";\n   ")
    out += "Definition the_facts : facts :=\n  {| f_sniff_chain := sniff_chain; f_sniff_peek := %s; f_writer_passthrough := %s;\n" % (
        cnat(os_["peek"]), cbool(os_["passthrough"]))
    if SHARED:
        out += "     (* NOT per stream: %s *)\n" % "; ".join("%s uses module-level %s" % x for x in SHARED)
    out += "     f_private_codec_state := %s;\n" % cbool(not SHARED)
    out += "     f_header_read_len := header_read_len; f_header_test := header_test; f_flag_deps := flag_deps;\n"
    out += "     f_ext_chain := ext_chain; f_path_fallback_sniffs := %s; f_stdin_fallback_sniffs := %s;\n" % (
        cbool(op_["fallback"][0]), cbool(op_["fallback"][1]))
    out += "     f_cont_chain := cont_chain; f_cont_peek := %s;\n" % cnat(fa_["peek"])
    out += "     f_ext_to_adapter := ext_to_adapter; f_default_adapter := %s;\n" % cbytes(default.encode())
    out += "     f_rs_magic := RECORDSTREAM_MAGIC; f_header_frame := stream_header_frame; f_env := has_flags |}.\n"
    write_if_changed(GEN / "Gen_detect.v", out)


GENERATORS = [gen_detect]
