"""C05 facts -> coq/gen/Gen_coerce.v   (how a value is converted on its way into a record slot)

Shapes are read with `ast` from the methods' source (fail closed: anything that is not one of the spellings
listed here raises Unsupported with the place), constants are folded from the AST of the comparisons:

* uint16 / uint32 / boolean `__init__`:  `if <value CMP k> or <value CMP k> [or value != int(self)]: raise ...`,
  optionally `if value != int(self): raise ...`, followed by the assignment of `self.value`
  -> (lower bound, operator, upper bound, operator), integrality test present, what is kept as `.value`;
  the classes construct their object with int.__new__ (no `__new__` of their own);
* bytes.__init__: the `isinstance(value, bytes_type)` test;
* string.__new__: bytes are decoded with errors="surrogateescape";
* digest.__init__: the kinds it looks at (tuple/list -> the three setters in order, dict -> .get of the three
  names) and what follows: nothing (anything else is an empty digest) or `elif value is not None: raise`;
  the length each setter demands;
* Record.__setattr__: the guard, the conversion, and that the one store comes after the conversion;
* GroupedRecord.__setattr__: a member's field goes to setattr(member, attr, val);
* base.fieldtype (behavioural, two fresh interpreters): the list class of every whitelist entry converts to that entry's class;
* typedlist.__init__ / _convert;
* datetime.__new__: `tzinfo = arg.tzinfo or UTC` and the final `if obj.tzinfo is None: ... replace(tzinfo=UTC)`;
* net.ipaddress / net.ipnetwork: the constructor is exactly ip_address(addr) / ip_network(addr).
"""
from __future__ import annotations

import ast
import inspect
import textwrap

from vf.coqlit import cbool, cstr, cZ
from vf.factlib import GEN, HEADER, Unsupported, write_if_changed


def _fn(fn):
    node = ast.parse(textwrap.dedent(inspect.getsource(fn))).body[0]
    if not isinstance(node, ast.FunctionDef):
        raise Unsupported("not a def: %r" % (fn,))
    return node


def _where(fn, node=None):
    return "%s (%s:%d)" % (fn.__qualname__, fn.__code__.co_filename,
                           fn.__code__.co_firstlineno + (getattr(node, "lineno", 1) - 1 if node is not None else 0))


def _body(node):
    body = list(node.body)
    if body and isinstance(body[0], ast.Expr) and isinstance(body[0].value, ast.Constant) and isinstance(body[0].value.value, str):
        body = body[1:]
    return body


_CONST_MODULE = None      # module whose integer constants a Name in a comparison may refer to


def _int_const(node):
    """an integer literal, possibly negated / a closed arithmetic expression of literals and of module-level
    integer constants (`_UINT16_MAX`)"""
    if any(isinstance(n, (ast.Call, ast.Attribute, ast.Subscript, ast.Lambda)) for n in ast.walk(node)):
        return None
    env = {}
    for n in ast.walk(node):
        if isinstance(n, ast.Name):
            val = getattr(_CONST_MODULE, n.id, None) if _CONST_MODULE is not None else None
            if type(val) is not int:
                return None
            env[n.id] = val
    try:
        v = eval(compile(ast.Expression(node), "<fact>", "eval"), {"__builtins__": {}}, env)
    except Exception:
        return None
    if isinstance(v, bool) or not isinstance(v, int):
        return None
    return v


def _is_name(node, name):
    return isinstance(node, ast.Name) and node.id == name


def _self_attr(node, attr):
    return isinstance(node, ast.Attribute) and node.attr == attr and _is_name(node.value, "self")


def _unconditional_raise(stmts):
    return len(stmts) == 1 and isinstance(stmts[0], ast.Raise) and stmts[0].exc is not None


MIRROR = {ast.Lt: ast.Gt, ast.Gt: ast.Lt, ast.LtE: ast.GtE, ast.GtE: ast.LtE}


def _value_cmp(node, var):
    """`var OP k` or `k OP var` -> (OP as if var were on the left, k)"""
    if not (isinstance(node, ast.Compare) and len(node.ops) == 1):
        return None
    op = type(node.ops[0])
    l, r = node.left, node.comparators[0]
    if op not in MIRROR:
        return None
    if _is_name(l, var) and _int_const(r) is not None:
        return op, _int_const(r)
    if _is_name(r, var) and _int_const(l) is not None:
        return MIRROR[op], _int_const(l)
    return None


def _is_integrality(node, var):
    """`value != int(self)` (either order)"""
    if not (isinstance(node, ast.Compare) and len(node.ops) == 1 and isinstance(node.ops[0], ast.NotEq)):
        return False

    def int_self(n):
        return (isinstance(n, ast.Call) and _is_name(n.func, "int") and len(n.args) == 1 and not n.keywords
                and _is_name(n.args[0], "self"))
    l, r = node.left, node.comparators[0]
    return (_is_name(l, var) and int_self(r)) or (_is_name(r, var) and int_self(l))


def range_check(fn):
    """the tests of uint16 / uint32 / boolean ->
    ((lo, 'LoLt'|'LoLe', hi, 'HiGt'|'HiGe'), integrality test present, assigned expression, parameter name).
    Shapes: `if A or B [or value != int(self)]: raise`; optionally `if value != int(self): raise`; `self.value = ...`"""
    node = _fn(fn)
    args = [a.arg for a in node.args.args]
    if len(args) != 2 or node.args.vararg or node.args.kwarg or node.args.kwonlyargs:
        raise Unsupported("%s: signature is not (self, value)" % _where(fn))
    var = args[1]
    body = _body(node)
    if len(body) not in (2, 3):
        raise Unsupported("%s: body is not `if <range test>: raise` [+ `if value != int(self): raise`] + `self.value = ...`" % _where(fn))
    test, assign = body[0], body[-1]
    if not (isinstance(test, ast.If) and not test.orelse and _unconditional_raise(test.body)
            and isinstance(test.test, ast.BoolOp) and isinstance(test.test.op, ast.Or) and len(test.test.values) in (2, 3)):
        raise Unsupported("%s: range test is not `if A or B [or C]: raise ...`" % _where(fn, test))
    integral = False
    disjuncts = list(test.test.values)
    if len(disjuncts) == 3:
        # the integrality test must come after both comparisons (they guard it against non-numbers)
        if not _is_integrality(disjuncts[2], var):
            raise Unsupported("%s: third disjunct is not `value != int(self)`: %s" % (_where(fn, test), ast.unparse(disjuncts[2])))
        integral = True
        disjuncts = disjuncts[:2]
    if len(body) == 3:
        mid = body[1]
        if not (isinstance(mid, ast.If) and not mid.orelse and _unconditional_raise(mid.body) and _is_integrality(mid.test, var)):
            raise Unsupported("%s: second statement is not `if value != int(self): raise ...`" % _where(fn, mid))
        integral = True
    lo = hi = None
    for c in disjuncts:
        r = _value_cmp(c, var)
        if r is None:
            raise Unsupported("%s: unrecognised comparison `%s`" % (_where(fn, c), ast.unparse(c)))
        op, k = r
        if op in (ast.Lt, ast.LtE):
            if lo is not None:
                raise Unsupported("%s: two lower bounds" % _where(fn, c))
            lo = (k, "LoLt" if op is ast.Lt else "LoLe")
        else:
            if hi is not None:
                raise Unsupported("%s: two upper bounds" % _where(fn, c))
            hi = (k, "HiGt" if op is ast.Gt else "HiGe")
    if lo is None or hi is None:
        raise Unsupported("%s: the range test lacks a lower or an upper bound" % _where(fn, test))
    if not (isinstance(assign, ast.Assign) and len(assign.targets) == 1 and _self_attr(assign.targets[0], "value")):
        raise Unsupported("%s: last statement is not `self.value = ...`" % _where(fn, assign))
    return (lo[0], lo[1], hi[0], hi[1]), integral, assign.value, var


def _plain_int_class(cls):
    if int not in cls.__mro__ or "__new__" in cls.__dict__:
        raise Unsupported("class %s does not construct its object with int.__new__" % cls.__name__)
    for k in cls.__mro__:
        if k is int:
            break
        if k is not cls and "__init__" in k.__dict__ and "__init__" not in cls.__dict__:
            return
    if "__init__" not in cls.__dict__:
        raise Unsupported("class %s has no __init__ of its own" % cls.__name__)


def _is_isinstance_call(node, var, second):
    return (isinstance(node, ast.Call) and _is_name(node.func, "isinstance") and len(node.args) == 2 and not node.keywords
            and _is_name(node.args[0], var) and second(node.args[1]))


def bytes_fact(ft):
    fn = ft.bytes.__init__
    node = _fn(fn)
    var = node.args.args[1].arg
    body = _body(node)
    if ft.bytes_type is not bytes or bytes not in ft.bytes.__mro__ or "__new__" in ft.bytes.__dict__:
        raise Unsupported("fieldtypes.bytes is not a plain subclass of builtins.bytes")
    if not body or not (isinstance(body[-1], ast.Assign) and _self_attr(body[-1].targets[0], "value") and _is_name(body[-1].value, var)):
        raise Unsupported("%s: does not end with `self.value = value`" % _where(fn))
    checks = body[:-1]
    if not checks:
        return False
    if len(checks) == 1 and isinstance(checks[0], ast.If) and not checks[0].orelse and _unconditional_raise(checks[0].body):
        t = checks[0].test
        if (isinstance(t, ast.UnaryOp) and isinstance(t.op, ast.Not)
                and _is_isinstance_call(t.operand, var, lambda n: _is_name(n, "bytes_type"))):
            return True
    raise Unsupported("%s: unrecognised check before the assignment" % _where(fn))


def string_fact(ft):
    fn = ft.string.__new__
    node = _fn(fn)
    var = node.args.args[1].arg
    body = _body(node)
    decodes = False
    rest = body
    if len(body) == 2 and isinstance(body[0], ast.If) and not body[0].orelse:
        t, b = body[0].test, body[0].body
        if (_is_isinstance_call(t, var, lambda n: _is_name(n, "bytes_type")) and len(b) == 1 and isinstance(b[0], ast.Assign)
                and _is_name(b[0].targets[0], var) and isinstance(b[0].value, ast.Call)
                and isinstance(b[0].value.func, ast.Attribute) and b[0].value.func.attr == "decode"
                and _is_name(b[0].value.func.value, var)):
            kw = {k.arg: k.value for k in b[0].value.keywords}
            pos = b[0].value.args
            enc_ok = (not pos or (isinstance(pos[0], ast.Constant) and str(pos[0].value).lower().replace("-", "") == "utf8"))
            err = kw.get("errors") or (pos[1] if len(pos) > 1 else None)
            if enc_ok and isinstance(err, ast.Constant) and err.value == "surrogateescape" and set(kw) <= {"errors", "encoding"}:
                decodes = True
                rest = body[1:]
    if not (len(rest) == 1 and isinstance(rest[0], ast.Return) and isinstance(rest[0].value, ast.Call)
            and isinstance(rest[0].value.func, ast.Attribute) and rest[0].value.func.attr == "__new__"
            and len(rest[0].value.args) == 2 and _is_name(rest[0].value.args[1], var)):
        raise Unsupported("%s: not `[decode bytes]; return super().__new__(cls, value)`" % _where(fn))
    if ft.string_type is not str:
        raise Unsupported("string_type is not str")
    return decodes


def digest_facts(ft):
    cls = ft.digest
    fn = cls.__init__
    node = _fn(fn)
    var = node.args.args[1].arg
    body = _body(node)
    if len(body) != 1 or not isinstance(body[0], ast.If):
        raise Unsupported("%s: body is not one if/elif chain" % _where(fn))
    first = body[0]

    def tuple_list(n):
        if not isinstance(n, ast.Tuple):
            return False
        return sorted(e.id for e in n.elts if isinstance(e, ast.Name)) == ["list", "tuple"] and len(n.elts) == 2
    if not _is_isinstance_call(first.test, var, tuple_list):
        raise Unsupported("%s: first branch is not isinstance(value, (tuple, list))" % _where(fn, first))
    b = first.body
    if not (len(b) == 1 and isinstance(b[0], ast.Assign) and isinstance(b[0].targets[0], ast.Tuple)
            and [t.attr if _self_attr(t, getattr(t, "attr", "")) else None for t in b[0].targets[0].elts] == ["md5", "sha1", "sha256"]
            and _is_name(b[0].value, var)):
        raise Unsupported("%s: sequence branch is not `self.md5, self.sha1, self.sha256 = value`" % _where(fn, first))
    if len(first.orelse) != 1 or not isinstance(first.orelse[0], ast.If):
        raise Unsupported("%s: no dict branch" % _where(fn, first))
    second = first.orelse[0]
    if not _is_isinstance_call(second.test, var, lambda n: _is_name(n, "dict")):
        raise Unsupported("%s: second branch is not isinstance(value, dict)" % _where(fn, second))
    names = []
    for st in second.body:
        ok = (isinstance(st, ast.Assign) and len(st.targets) == 1 and isinstance(st.targets[0], ast.Attribute)
              and _is_name(st.targets[0].value, "self") and isinstance(st.value, ast.Call)
              and isinstance(st.value.func, ast.Attribute) and st.value.func.attr == "get" and _is_name(st.value.func.value, var)
              and len(st.value.args) == 2 and isinstance(st.value.args[0], ast.Constant)
              and st.value.args[0].value == st.targets[0].attr and _self_attr(st.value.args[1], st.targets[0].attr))
        if not ok:
            raise Unsupported("%s: dict branch statement `%s`" % (_where(fn, st), ast.unparse(st)))
        names.append(st.targets[0].attr)
    if names != ["md5", "sha1", "sha256"]:
        raise Unsupported("%s: dict branch sets %r" % (_where(fn, second), names))
    if not second.orelse:
        else_empty = True
    elif (len(second.orelse) == 1 and isinstance(second.orelse[0], ast.If) and not second.orelse[0].orelse
          and _unconditional_raise(second.orelse[0].body) and isinstance(second.orelse[0].test, ast.Compare)
          and len(second.orelse[0].test.ops) == 1 and isinstance(second.orelse[0].test.ops[0], ast.IsNot)
          and _is_name(second.orelse[0].test.left, var) and isinstance(second.orelse[0].test.comparators[0], ast.Constant)
          and second.orelse[0].test.comparators[0].value is None):
        else_empty = False          # elif value is not None: raise ...   (None still gives the empty digest: default())
    else:
        raise Unsupported("%s: unrecognised branch after the dict branch" % _where(fn, second))
    # the setters
    lens = []
    for name in ("md5", "sha1", "sha256"):
        prop = cls.__dict__.get(name)
        if not isinstance(prop, property) or prop.fset is None:
            raise Unsupported("digest.%s is not a property with a setter" % name)
        sn = _fn(prop.fset)
        val = sn.args.args[1].arg
        sb = _body(sn)
        # if val is None: ...; return
        if not (len(sb) == 2 and isinstance(sb[0], ast.If) and isinstance(sb[0].test, ast.Compare)
                and _is_name(sb[0].test.left, val) and isinstance(sb[0].test.ops[0], ast.Is)
                and isinstance(sb[0].test.comparators[0], ast.Constant) and sb[0].test.comparators[0].value is None
                and isinstance(sb[0].body[-1], ast.Return) and isinstance(sb[1], ast.Try)):
            raise Unsupported("%s: not `if val is None: ...; return` + try" % _where(prop.fset))
        tr = sb[1]
        bin_name = None
        n = None
        for st in tr.body:
            if (isinstance(st, ast.Assign) and isinstance(st.value, ast.Call) and _is_name(st.value.func, "a2b_hex")
                    and len(st.value.args) == 1 and _is_name(st.value.args[0], val) and isinstance(st.targets[0], ast.Attribute)):
                bin_name = st.targets[0].attr
            elif isinstance(st, ast.If):
                t = st.test
                if (bin_name and isinstance(t, ast.Compare) and len(t.ops) == 1 and isinstance(t.ops[0], ast.NotEq)
                        and isinstance(t.left, ast.Call) and _is_name(t.left.func, "len") and len(t.left.args) == 1
                        and isinstance(t.left.args[0], ast.Attribute) and t.left.args[0].attr == bin_name
                        and _int_const(t.comparators[0]) is not None and _unconditional_raise(st.body) and not st.orelse):
                    n = _int_const(t.comparators[0])
                else:
                    raise Unsupported("%s: unrecognised test `%s`" % (_where(prop.fset, st), ast.unparse(t)))
            elif isinstance(st, ast.Assign):
                continue
            else:
                raise Unsupported("%s: unrecognised statement in try" % _where(prop.fset, st))
        if bin_name is None:
            raise Unsupported("%s: no a2b_hex(val)" % _where(prop.fset))
        if n is None:
            raise Unsupported("%s: the setter does not check the length of the decoded digest" % _where(prop.fset))
        for h in tr.handlers:
            if not _unconditional_raise(h.body):
                raise Unsupported("%s: an except clause swallows the error" % _where(prop.fset, h))
        lens.append(n)
    import binascii
    if ft.a2b_hex is not binascii.a2b_hex:
        raise Unsupported("a2b_hex is not binascii.a2b_hex")
    return else_empty, tuple(lens)


def setattr_facts(base):
    fn = base.Record.__setattr__
    node = _fn(fn)
    if [a.arg for a in node.args.args] != ["self", "k", "v"]:
        raise Unsupported("%s: signature" % _where(fn))
    body = _body(node)

    def is_store(st):
        return (isinstance(st, ast.Expr) and isinstance(st.value, ast.Call) and isinstance(st.value.func, ast.Attribute)
                and st.value.func.attr == "__setattr__" and len(st.value.args) == 2
                and _is_name(st.value.args[0], "k") and _is_name(st.value.args[1], "v")
                and ((isinstance(st.value.func.value, ast.Call) and _is_name(st.value.func.value.func, "super")
                      and not st.value.func.value.args)))

    def is_ft_assign(st):
        return (isinstance(st, ast.Assign) and _is_name(st.targets[0], "field_type") and isinstance(st.value, ast.Call)
                and isinstance(st.value.func, ast.Attribute) and st.value.func.attr == "get"
                and _self_attr(st.value.func.value, "_field_types") and len(st.value.args) == 1 and _is_name(st.value.args[0], "k"))

    def convert_stmt(st):
        # v = field_type(v)
        return (isinstance(st, ast.Assign) and _is_name(st.targets[0], "v") and isinstance(st.value, ast.Call)
                and _is_name(st.value.func, "field_type") and len(st.value.args) == 1 and _is_name(st.value.args[0], "v")
                and not st.value.keywords)

    def guard(st):
        """the if statement -> set of conjunct names, or None"""
        if not (isinstance(st, ast.If) and not st.orelse):
            return None
        conj = st.test.values if isinstance(st.test, ast.BoolOp) and isinstance(st.test.op, ast.And) else [st.test]
        names = set()
        for c in conj:
            if (isinstance(c, ast.Compare) and len(c.ops) == 1 and isinstance(c.ops[0], ast.IsNot) and _is_name(c.left, "v")
                    and isinstance(c.comparators[0], ast.Constant) and c.comparators[0].value is None):
                names.add("none")
            elif (isinstance(c, ast.Compare) and len(c.ops) == 1 and isinstance(c.ops[0], ast.In) and _is_name(c.left, "k")
                  and _self_attr(c.comparators[0], "__slots__")):
                names.add("slots")
            elif _is_name(c, "field_type"):
                names.add("ftype")
            elif (isinstance(c, ast.UnaryOp) and isinstance(c.op, ast.Not)
                  and _is_isinstance_call(c.operand, "v", lambda n: _is_name(n, "field_type"))):
                names.add("isinstance")        # the isinstance test merged into the guard
            else:
                raise Unsupported("%s: unrecognised conjunct `%s` in the guard" % (_where(fn, c), ast.unparse(c)))
        inner = st.body
        if len(inner) == 1 and isinstance(inner[0], ast.If) and not inner[0].orelse:
            t = inner[0].test
            if (isinstance(t, ast.UnaryOp) and isinstance(t.op, ast.Not)
                    and _is_isinstance_call(t.operand, "v", lambda n: _is_name(n, "field_type"))
                    and len(inner[0].body) == 1 and convert_stmt(inner[0].body[0])):
                names.add("isinstance")
                return names
            raise Unsupported("%s: unrecognised inner test `%s`" % (_where(fn, inner[0]), ast.unparse(t)))
        if len(inner) == 1 and convert_stmt(inner[0]):
            return names
        raise Unsupported("%s: the guarded block is not `[if not isinstance(v, field_type):] v = field_type(v)`" % _where(fn, st))

    if not body or not is_ft_assign(body[0]):
        raise Unsupported("%s: does not start with field_type = self._field_types.get(k)" % _where(fn))
    rest = body[1:]
    kinds = []
    gnames = None
    for st in rest:
        if is_store(st):
            kinds.append("store")
        else:
            g = guard(st)
            if g is None:
                raise Unsupported("%s: unrecognised statement `%s`" % (_where(fn, st), ast.unparse(st)[:60]))
            gnames = g
            kinds.append("guard")
    if kinds == ["guard", "store"]:
        before = True
    elif kinds in (["store", "guard", "store"], ["store", "guard"]):
        before = False
    else:
        raise Unsupported("%s: statements are %r, expected the guarded conversion followed by one store" % (_where(fn), kinds))
    if not {"slots", "ftype", "isinstance"} <= gnames:
        raise Unsupported("%s: the guard lacks one of `k in self.__slots__`, `field_type`, `not isinstance(v, field_type)`: %r"
                          % (_where(fn), sorted(gnames)))
    # the store must reach object.__setattr__ (no __setattr__ between Record and object)
    if base.Record.__mro__[1:] != (object,):
        raise Unsupported("Record has base classes other than object")
    return ("none" in gnames), before


def grouped_facts(base):
    """GroupedRecord.__setattr__: a name that belongs to a member record is handed to setattr(member, attr, val)
    (-> Record.__setattr__, True) or stored with object.__setattr__(member, attr, val) (False)"""
    fn = base.GroupedRecord.__setattr__
    node = _fn(fn)
    names = [a.arg for a in node.args.args]
    if len(names) != 3:
        raise Unsupported("%s: signature" % _where(fn))
    attr, val = names[1], names[2]
    body = _body(node)
    if len(body) != 2 or not isinstance(body[0], ast.If) or body[0].orelse:
        raise Unsupported("%s: body is not `if <member field>: ...` + the group's own attributes" % _where(fn))
    t = body[0].test
    if not (isinstance(t, ast.Compare) and len(t.ops) == 1 and isinstance(t.ops[0], ast.In) and _is_name(t.left, attr)
            and "fieldname_to_record" in ast.unparse(t.comparators[0])):
        raise Unsupported("%s: test is not `attr in <fieldname_to_record>`" % _where(fn, t))
    inner = body[0].body
    member = None
    delegates = None
    for st in inner:
        if (isinstance(st, ast.Assign) and len(st.targets) == 1 and isinstance(st.targets[0], ast.Name)
                and isinstance(st.value, (ast.Call, ast.Subscript)) and "fieldname_to_record" in ast.unparse(st.value)
                and attr in ast.unparse(st.value)):
            member = st.targets[0].id
            continue
        call = st.value if isinstance(st, (ast.Return, ast.Expr)) else None
        if member and isinstance(call, ast.Call) and len(call.args) == 3 and not call.keywords \
                and _is_name(call.args[0], member) and _is_name(call.args[1], attr) and _is_name(call.args[2], val):
            if _is_name(call.func, "setattr"):
                delegates = True
                continue
            if (isinstance(call.func, ast.Attribute) and call.func.attr == "__setattr__" and _is_name(call.func.value, "object")):
                delegates = False
                continue
        raise Unsupported("%s: unrecognised statement `%s`" % (_where(fn, st), ast.unparse(st)[:70]))
    if delegates is None:
        raise Unsupported("%s: the member's field is not assigned" % _where(fn))
    own = body[1]
    call = own.value if isinstance(own, (ast.Return, ast.Expr)) else None
    if not (isinstance(call, ast.Call) and isinstance(call.func, ast.Attribute) and call.func.attr == "__setattr__"
            and _is_name(call.func.value, "object") and len(call.args) == 3 and _is_name(call.args[0], "self")):
        raise Unsupported("%s: the group's own attributes are not stored with object.__setattr__(self, ...)" % _where(fn, own))
    # a member is a plain Record: its class must not override __setattr__ (generated classes do not)
    d = base.RecordDescriptor("c05/probe", [("string", "a")])
    if "__setattr__" in d.recordType.__dict__:
        raise Unsupported("generated record classes define __setattr__")
    return delegates


LIST_CLASS_PROBE = r"""
import json, sys, warnings
warnings.simplefilter("ignore")
from flow.record.whitelist import WHITELIST
from flow.record.base import fieldtype
names = list(WHITELIST)
if sys.argv[1] == "reverse":
    names.reverse()
lists = {}
for n in names:
    try:
        lists[n] = fieldtype(n + "[]")
    except Exception:
        lists[n] = None
out = {}
for n in names:
    l = lists[n]
    out[n] = bool(l is not None and isinstance(l, type) and issubclass(l, list) and l.__type__ is fieldtype(n)
                  and all(l is not m for k, m in lists.items() if k != n and m is not None and fieldtype(k) is not fieldtype(n)))
print("@@" + json.dumps(out))
"""


def list_class_table():
    """behavioural fact: after resolving every whitelisted list type (forward / reverse order, each in a fresh
    interpreter) fieldtype(T + '[]') is a list class of its own whose element class is fieldtype(T)"""
    import json
    import subprocess
    import sys
    from flow.record.whitelist import WHITELIST
    table = {}
    for order in ("forward", "reverse"):
        p = subprocess.run([sys.executable, "-c", LIST_CLASS_PROBE, order], stdout=subprocess.PIPE, stderr=subprocess.STDOUT,
                           text=True, timeout=120)
        res = None
        for ln in p.stdout.splitlines():
            if ln.startswith("@@"):
                res = json.loads(ln[2:])
        if res is None:
            raise Unsupported("the list-class probe did not run (%s order): %s" % (order, p.stdout[-300:]))
        table[order] = res
    return [(n, table["forward"].get(n, False), table["reverse"].get(n, False)) for n in WHITELIST]


def typedlist_facts(ft):
    cls = ft.typedlist
    fn = cls._convert
    node = _fn(fn)
    var = node.args.args[1].arg
    body = _body(node)
    aliases = set()
    while len(body) > 1 and isinstance(body[0], ast.Assign) and len(body[0].targets) == 1 and isinstance(body[0].targets[0], ast.Name) \
            and isinstance(body[0].value, ast.Attribute) and body[0].value.attr == "__type__" and _is_name(body[0].value.value, "self"):
        aliases.add(body[0].targets[0].id)       # element_type = self.__type__
        body = body[1:]
    if not (len(body) == 1 and isinstance(body[0], ast.Return)):
        raise Unsupported("%s: body is not one return" % _where(fn))
    e = body[0].value
    convert = None

    def is_type(n):
        return (isinstance(n, ast.Attribute) and n.attr == "__type__" and _is_name(n.value, "self")) or \
            (isinstance(n, ast.Name) and n.id in aliases)
    if isinstance(e, ast.ListComp) and len(e.generators) == 1 and not e.generators[0].ifs and _is_name(e.generators[0].iter, var) \
            and isinstance(e.generators[0].target, ast.Name):
        f = e.generators[0].target.id
        el = e.elt
        call_ok = lambda n: isinstance(n, ast.Call) and is_type(n.func) and len(n.args) == 1 and _is_name(n.args[0], f) and not n.keywords  # noqa: E731
        inst = lambda n: _is_isinstance_call(n, f, is_type)  # noqa: E731
        if isinstance(el, ast.IfExp):
            if (isinstance(el.test, ast.UnaryOp) and isinstance(el.test.op, ast.Not) and inst(el.test.operand)
                    and call_ok(el.body) and _is_name(el.orelse, f)):
                convert = True
            elif inst(el.test) and _is_name(el.body, f) and call_ok(el.orelse):
                convert = True
        elif _is_name(el, f):
            convert = False
    elif (isinstance(e, ast.Call) and _is_name(e.func, "list") and len(e.args) == 1 and _is_name(e.args[0], var)) or _is_name(e, var):
        convert = False
    if convert is None:
        raise Unsupported("%s: unrecognised element rule `%s`" % (_where(fn), ast.unparse(e)))
    fn2 = cls.__init__
    n2 = _fn(fn2)
    v2 = n2.args.args[1].arg
    b2 = _body(n2)

    def is_super_init(st):
        if not (isinstance(st, ast.Expr) and isinstance(st.value, ast.Call) and isinstance(st.value.func, ast.Attribute)
                and st.value.func.attr == "__init__" and len(st.value.args) == 1):
            return False
        a = st.value.args[0]
        return (isinstance(a, ast.Call) and isinstance(a.func, ast.Attribute) and a.func.attr == "_convert"
                and _is_name(a.func.value, "self") and len(a.args) == 1 and _is_name(a.args[0], v2))
    falsy = None
    if len(b2) == 1 and is_super_init(b2[0]):
        falsy = False
    elif len(b2) == 2 and is_super_init(b2[1]) and isinstance(b2[0], ast.If) and not b2[0].orelse:
        t = b2[0].test
        bb = b2[0].body
        sets_empty = (len(bb) == 1 and isinstance(bb[0], ast.Assign) and _is_name(bb[0].targets[0], v2)
                      and isinstance(bb[0].value, ast.List) and not bb[0].value.elts)
        if sets_empty and isinstance(t, ast.UnaryOp) and isinstance(t.op, ast.Not) and _is_name(t.operand, v2):
            falsy = True
    if falsy is None:
        raise Unsupported("%s: not `[if not values: values = []]; super().__init__(self._convert(values))`" % _where(fn2))
    if cls.__bases__[0] is not list or "__new__" in cls.__dict__:
        raise Unsupported("typedlist is not a list subclass")
    # default(): an empty instance
    d = _body(_fn(cls.default.__func__))
    if not (len(d) == 1 and isinstance(d[0], ast.Return) and isinstance(d[0].value, ast.Call) and _is_name(d[0].value.func, "cls")
            and not d[0].value.args and not d[0].value.keywords):
        raise Unsupported("typedlist.default is not `return cls()`")
    return convert, falsy


def datetime_facts(ft):
    import datetime as _pydt
    fn = ft.datetime.__new__
    node = _fn(fn)
    if ft.UTC is not _pydt.timezone.utc:
        raise Unsupported("fieldtypes.UTC is not datetime.timezone.utc")
    body = _body(node)
    # the last two statements: [if obj.tzinfo is None: obj = obj.replace(tzinfo=UTC)]; return obj
    if not (body and isinstance(body[-1], ast.Return) and _is_name(body[-1].value, "obj")):
        raise Unsupported("%s: does not end with `return obj`" % _where(fn))
    final = False
    rest = body[:-1]
    if rest and isinstance(rest[-1], ast.If) and isinstance(rest[-1].test, ast.Compare) \
            and isinstance(rest[-1].test.left, ast.Attribute) and rest[-1].test.left.attr == "tzinfo" \
            and _is_name(rest[-1].test.left.value, "obj"):
        st = rest[-1]
        t = st.test
        ok = (len(t.ops) == 1 and isinstance(t.ops[0], ast.Is) and isinstance(t.comparators[0], ast.Constant)
              and t.comparators[0].value is None and not st.orelse and len(st.body) == 1 and isinstance(st.body[0], ast.Assign)
              and _is_name(st.body[0].targets[0], "obj") and isinstance(st.body[0].value, ast.Call)
              and isinstance(st.body[0].value.func, ast.Attribute) and st.body[0].value.func.attr == "replace"
              and _is_name(st.body[0].value.func.value, "obj") and not st.body[0].value.args
              and [(k.arg, _is_name(k.value, "UTC")) for k in st.body[0].value.keywords] == [("tzinfo", True)])
        if not ok:
            raise Unsupported("%s: unrecognised final tzinfo fix-up" % _where(fn, st))
        final = True
        rest = rest[:-1]
    if len(rest) != 1 or not isinstance(rest[0], ast.If):
        raise Unsupported("%s: unexpected statements before the final fix-up" % _where(fn))
    # inside: the assignment to `tzinfo` in the branch for datetime arguments, and the calls the other branches make
    arg_utc = None
    calls = set()
    for n in ast.walk(rest[0]):
        if isinstance(n, ast.Assign) and len(n.targets) == 1 and _is_name(n.targets[0], "tzinfo"):
            v = n.value
            if (isinstance(v, ast.BoolOp) and isinstance(v.op, ast.Or) and len(v.values) == 2
                    and isinstance(v.values[0], ast.Attribute) and v.values[0].attr == "tzinfo" and _is_name(v.values[1], "UTC")):
                arg_utc = True
            elif isinstance(v, ast.Attribute) and v.attr == "tzinfo":
                arg_utc = False
            else:
                raise Unsupported("%s: unrecognised `tzinfo = %s`" % (_where(fn, n), ast.unparse(v)))
        if isinstance(n, ast.Call) and isinstance(n.func, ast.Attribute) and _is_name(n.func.value, "cls"):
            if n.func.attr == "fromtimestamp":
                if not (len(n.args) == 2 and _is_name(n.args[1], "UTC")):
                    raise Unsupported("%s: fromtimestamp is not called with UTC" % _where(fn, n))
            calls.add(n.func.attr)
    if arg_utc is None:
        raise Unsupported("%s: no assignment to tzinfo in the datetime branch" % _where(fn))
    if not {"fromisoformat", "fromtimestamp"} <= calls:
        raise Unsupported("%s: the text / number branches do not call fromisoformat / fromtimestamp" % _where(fn))
    return arg_utc, final


def ip_facts(ip):
    import ipaddress as _ipa
    for cls, fname, lib in ((ip.ipaddress, "ip_address", _ipa.ip_address), (ip.ipnetwork, "ip_network", _ipa.ip_network)):
        fn = cls.__init__
        node = _fn(fn)
        var = node.args.args[1].arg
        body = _body(node)
        ok = (len(body) == 1 and isinstance(body[0], ast.Assign) and _self_attr(body[0].targets[0], "val")
              and isinstance(body[0].value, ast.Call) and _is_name(body[0].value.func, fname)
              and len(body[0].value.args) == 1 and _is_name(body[0].value.args[0], var) and not body[0].value.keywords)
        if not ok:
            raise Unsupported("%s: body is not `self.val = %s(addr)`" % (_where(fn), fname))
        if getattr(ip, fname) is not lib:
            raise Unsupported("%s is not ipaddress.%s" % (fname, fname))
        if "__new__" in cls.__dict__:
            raise Unsupported("%s defines __new__" % cls.__name__)


# ------------------------------------------------------------------------------------------
# observed behaviour (the facts are derived from these; the recognisers above are cross-checks)

def _try(f, *a):
    try:
        return True, f(*a)
    except Exception as e:  # noqa: the refusal is the observation
        return False, e


def observe_range(cls, name):
    """the accepted integers are an interval [lo, hi] (bisection + a dense check around the ends and at all powers
    of two); how the ends treat non-integral values; whether a non-integral value inside is refused; what .value is"""
    acc = lambda z: _try(cls, z)[0]  # noqa: E731
    seeds = [z for z in (0, 1, 2, 255, 65535, 2 ** 31, 2 ** 32 - 1, -1) if acc(z)]
    if not seeds:
        raise Unsupported("%s accepts none of the probe integers" % name)
    a = seeds[0]
    far = 2 ** 80
    if acc(-far) or acc(far):
        raise Unsupported("%s accepts integers of magnitude 2**80" % name)
    lo_rej, lo_acc = -far, a
    while lo_acc - lo_rej > 1:
        m = (lo_rej + lo_acc) // 2
        if acc(m):
            lo_acc = m
        else:
            lo_rej = m
    hi_acc, hi_rej = a, far
    while hi_rej - hi_acc > 1:
        m = (hi_acc + hi_rej) // 2
        if acc(m):
            hi_acc = m
        else:
            hi_rej = m
    lo, hi = lo_acc, hi_acc
    check = set(range(lo - 300, lo + 300)) | set(range(hi - 300, hi + 300)) | {s * 2 ** k + d for k in range(72) for d in (-1, 0, 1) for s in (1, -1)}
    for z in sorted(check):
        if acc(z) != (lo <= z <= hi):
            raise Unsupported("%s: the accepted integers are not the interval [%d, %d]: %d is %s" % (
                name, lo, hi, z, "accepted" if acc(z) else "refused"))
    for b in (False, True):
        if acc(b) != (lo <= int(b) <= hi):
            raise Unsupported("%s treats %r unlike the integer %d" % (name, b, int(b)))
    if hi <= lo:
        raise Unsupported("%s accepts a single integer" % name)
    integral = not acc(lo + 0.5)
    if integral:
        # every non-integral value is refused, so `value < lo` and `value <= lo - 1` cannot be told apart: canonical form
        lo_fact, hi_fact = (lo, "LoLt"), (hi, "HiGt")
        for f in (float(lo), float(hi), float(lo + 1)):
            if not acc(f):
                raise Unsupported("%s refuses the integral float %r inside its range" % (name, f))
    else:
        lo_fact = (lo - 1, "LoLe") if acc(lo - 0.5) else (lo, "LoLt")
        hi_fact = (hi + 1, "HiGe") if acc(hi + 0.5) else (hi, "HiGt")
    one = cls(lo + 1)
    if int(one) != lo + 1 or one.value != lo + 1:
        raise Unsupported("%s(%d) is stored as %r / %r" % (name, lo + 1, int(one), one.value))
    return (lo_fact[0], lo_fact[1], hi_fact[0], hi_fact[1]), integral


def observe_uint_keeps(cls, name, integral):
    kinds = {type(cls(True).value)}
    if not integral:
        kinds.add(type(cls(1.5).value) if _try(cls, 1.5)[0] else None)
    kinds.add(type(cls(1.0).value))
    if kinds == {int}:
        return False
    if int not in kinds and None not in kinds:
        return True          # bool stays bool, float stays float: the argument itself is kept
    raise Unsupported("%s keeps %r as packed values for True / 1.0 / 1.5" % (name, sorted(map(str, kinds))))


def observe_bytes(ft):
    ok, _ = _try(ft.bytes, b"x")
    if not ok:
        raise Unsupported("fieldtypes.bytes refuses bytes")
    refused = [not _try(ft.bytes, v)[0] for v in (bytearray(b"x"), 3, [1, 2], memoryview(b"ab"))]
    if all(refused):
        return True
    if not any(refused):
        return False
    raise Unsupported("fieldtypes.bytes refuses some non-bytes values and accepts others")


def observe_string(ft):
    v = ft.string(b"a\xff")
    if v == "a\udcff":
        return True
    if v == str(b"a\xff"):
        return False
    raise Unsupported("string(b'a\\xff') is %r" % (v,))


def observe_digest(ft):
    lens = []
    for pos in range(3):
        accepted = []
        for n in range(0, 41):
            t = [None, None, None]
            t[pos] = "ab" * n
            if _try(ft.digest, tuple(t))[0]:
                accepted.append(n)
        if len(accepted) != 1:
            raise Unsupported("digest accepts hex text of %r bytes in position %d" % (accepted, pos))
        lens.append(accepted[0])
    ok_none, d = _try(ft.digest, None)
    if not ok_none or d._pack() != (None, None, None):
        raise Unsupported("digest(None) is not the empty digest")
    answers = set()
    for v in ("ab" * 16, b"ab" * 16, 5, 1.5, object()):
        ok, d = _try(ft.digest, v)
        answers.add("empty" if ok and d._pack() == (None, None, None) else ("raise" if not ok else "other"))
    if answers == {"empty"}:
        return True, tuple(lens)
    if answers == {"raise"}:
        return False, tuple(lens)
    raise Unsupported("digest(<not a tuple/list/dict>) behaves inconsistently: %r" % sorted(answers))


def observe_setattr(base, ft):
    import datetime as _pydt
    t0 = _pydt.datetime(2020, 1, 1, tzinfo=_pydt.timezone.utc)
    d = base.RecordDescriptor("c05/probe", [("varint", "n"), ("string", "s"), ("uint16", "u"), ("bytes", "b")])
    r = d.recordType(n=1, s="a", u=5, b=b"x", _generated=t0)
    # the coercion funnel: every kind of value ends up as an instance of the declared class
    for field, value, cls in (("n", "7", ft.varint), ("n", 7.9, ft.varint), ("s", b"x", ft.string), ("s", 5, ft.string),
                              ("u", 7, ft.uint16), ("u", True, ft.uint16), ("_source", b"src", ft.string)):
        setattr(r, field, value)
        if not isinstance(getattr(r, field), cls):
            raise Unsupported("Record.__setattr__ stored %r in the %s field as a %s" % (value, field, type(getattr(r, field)).__name__))
    inst = ft.varint(9)
    r.n = inst
    if r.n is not inst:
        raise Unsupported("Record.__setattr__ does not keep a value that is an instance of the field type")
    r.s = None
    if r.s is None:
        guard_none = True
    elif r.s == "None":
        guard_none = False
    else:
        raise Unsupported("assigning None stored %r" % (r.s,))
    r.u = 5
    ok, e = _try(setattr, r, "u", "not-a-number")
    if ok:
        raise Unsupported("assigning 'not-a-number' to a uint16 field is accepted")
    if isinstance(r.u, ft.uint16) and r.u == 5:
        before = True
    elif r.u == "not-a-number":
        before = False
    else:
        raise Unsupported("after a failed assignment the slot holds %r" % (r.u,))
    ok, e = _try(setattr, r, "no_such_field", 1)
    if ok or not isinstance(e, AttributeError):
        raise Unsupported("assigning an attribute that is not a field does not raise AttributeError")
    return guard_none, before


def observe_grouped(base, ft):
    import datetime as _pydt
    t0 = _pydt.datetime(2020, 1, 1, tzinfo=_pydt.timezone.utc)
    a = base.RecordDescriptor("c05/ga", [("varint", "n"), ("uint16", "u")]).recordType(n=1, u=5, _generated=t0)
    b = base.RecordDescriptor("c05/gb", [("string", "s")]).recordType(s="x", _generated=t0)
    g = base.GroupedRecord("c05/g", [a, b])
    g.n = "7"
    g.s = b"y"
    conv = isinstance(a.n, ft.varint) and a.n == 7 and isinstance(b.s, ft.string) and b.s == "y"
    raw = a.n == "7" and b.s == b"y"
    refused = not _try(setattr, g, "u", 70000)[0]
    if conv and refused and a.u == 5:
        return True
    if raw and not refused and a.u == 70000:
        return False
    raise Unsupported("assignment through a GroupedRecord: n=%r s=%r u=%r" % (a.n, b.s, a.u))


def observe_typedlist(base, ft):
    u16 = base.fieldtype("uint16[]")
    s_l = base.fieldtype("string[]")
    v_l = base.fieldtype("varint[]")
    plain = u16([1, 2])
    kinds = {type(x) for x in plain}
    if kinds == {ft.uint16}:
        convert = True
    elif kinds == {int}:
        convert = False
    else:
        raise Unsupported("uint16[]([1, 2]) holds %r" % kinds)
    inst = ft.uint16(3)
    if u16([inst])[0] is not inst:
        raise Unsupported("typedlist does not keep an element that is an instance of the element type")
    if convert:
        # EVERY element that is not an instance of the element type is converted: other field types, None, members of
        # another flow.record list, of a tuple, of a generator
        probes = [("a varint", u16, [ft.varint(4)], ft.uint16), ("a string", u16, [ft.string("5")], None), ("None", s_l, [None], ft.string),
                  ("a varint[] list", u16, v_l([5, 6]), ft.uint16), ("a tuple", u16, (7,), ft.uint16),
                  ("a stringlist", s_l, ft.stringlist([b"x"]), ft.string), ("a generator", u16, (x for x in [8]), ft.uint16)]
        for what, lst, values, cls in probes:
            ok, res = _try(lst, values)
            if cls is None:
                if ok:
                    raise Unsupported("uint16[] keeps %s unconverted" % what)
                continue
            if not ok or not res or not all(type(x) is cls for x in res):
                raise Unsupported("typedlist given %s: %r" % (what, res if ok else type(res).__name__))
        # mixed lists: an element that is typed already does not excuse the others
        for what, lst, values, cls in (("a typed element followed by raw ones", u16, [ft.uint16(3), 4, 6], ft.uint16),
                                       ("raw elements followed by a typed one", u16, [4, 6, ft.uint16(3)], ft.uint16),
                                       ("a typed text followed by bytes", s_l, [ft.string("a"), b"x", None], ft.string),
                                       ("bytes followed by a typed text", s_l, [b"x", ft.string("a")], ft.string)):
            ok, res = _try(lst, values)
            if not ok or len(res) != len(values) or not all(type(x) is cls for x in res):
                raise Unsupported("typedlist given %s: %r" % (what, res if ok else type(res).__name__))
        for values in ([ft.uint16(3), 70000], [70000, ft.uint16(3)], [ft.uint16(3), "5"], [ft.uint16(3), 4, -1]):
            if _try(u16, values)[0]:
                raise Unsupported("uint16[] accepts %r" % (values,))
        if _try(u16, [70000])[0] or _try(u16, v_l([70000]))[0]:
            raise Unsupported("uint16[] accepts 70000")
    falsy = {_try(u16, v)[0] for v in (0, "", False, 0.0)}
    if falsy == {True} and list(u16(0)) == []:
        tl_falsy = True
    elif falsy == {False} or (not _try(u16, 0)[0] and u16("") == []):
        tl_falsy = False
    else:
        raise Unsupported("typedlist given falsy values: %r" % falsy)
    if not _try(u16, 5)[0] is False or _try(u16, None)[0] is False or list(u16(None)) != []:
        raise Unsupported("typedlist(5) / typedlist(None) behave unexpectedly")
    if list(u16.default()) != [] or type(u16.default()) is not u16:
        raise Unsupported("typedlist.default() is not an empty list of the class")
    return convert, tl_falsy


def observe_datetime(ft):
    import datetime as _pydt
    naive = _pydt.datetime(2020, 1, 2, 3, 4, 5)
    from_obj = ft.datetime(naive)
    from_text = ft.datetime("2020-01-02T03:04:05")
    from_aware = ft.datetime(naive.replace(tzinfo=_pydt.timezone(_pydt.timedelta(hours=2))))
    wall = lambda d: (d.year, d.month, d.day, d.hour, d.minute, d.second, d.microsecond)  # noqa: E731
    if from_aware.utcoffset() != _pydt.timedelta(hours=2) or wall(from_aware) != wall(naive):
        raise Unsupported("datetime(aware) changes the value")
    if ft.datetime(0).utcoffset() != _pydt.timedelta(0):
        raise Unsupported("datetime(0) is not UTC")
    for d in (from_obj, from_text):
        if wall(d) != wall(naive) or d.utcoffset() not in (None, _pydt.timedelta(0)):
            raise Unsupported("datetime(naive) changes the wall clock or picks another zone: %r" % d)
    obj_utc = from_obj.utcoffset() is not None
    text_utc = from_text.utcoffset() is not None
    # (naive object aware?, naive text aware?) -> (arg rule, final rule); text can only be fixed by the final rule
    if text_utc:
        return None, True            # the argument rule is not observable behind the final fix-up
    return obj_utc, False


def observe_ip(ip):
    good = [(ip.ipaddress, "1.2.3.4"), (ip.ipaddress, "::1"), (ip.ipaddress, 1), (ip.ipaddress, b"\x01\x02\x03\x04"),
            (ip.ipnetwork, "10.0.0.0/8"), (ip.ipnetwork, "::/0")]
    bad = [(ip.ipaddress, "1.2.3"), (ip.ipaddress, -1), (ip.ipaddress, 2 ** 128), (ip.ipaddress, b"abc"), (ip.ipaddress, None),
           (ip.ipnetwork, "10.0.0.1/8"), (ip.ipnetwork, "x"), (ip.ipnetwork, None)]
    import ipaddress as _ipa
    for cls, v in good:
        ok, o = _try(cls, v)
        ref = (_ipa.ip_address if cls is ip.ipaddress else _ipa.ip_network)(v)
        if not ok or o.val != ref or type(o.val) is not type(ref):
            raise Unsupported("%s(%r) is not ipaddress' answer" % (cls.__name__, v))
    for cls, v in bad:
        if _try(cls, v)[0]:
            raise Unsupported("%s(%r) is accepted" % (cls.__name__, v))


def _recognise(f, *a):
    """a shape recogniser as cross-check: its answer, or None when it does not recognise the spelling"""
    try:
        return f(*a), None
    except Unsupported as e:
        return None, str(e)


def _agree(what, observed, recognised, why, notes):
    if recognised is None:
        notes.append("%s: shape not recognised (%s); observed behaviour used" % (what, (why or "").split(" (")[0][:120]))
    elif recognised != observed:
        raise Unsupported("%s: the source reads as %r but the observed behaviour is %r" % (what, recognised, observed))
    return observed


def _int_interval(b):
    return (b[0] if b[1] == "LoLt" else b[0] + 1, b[2] if b[3] == "HiGt" else b[2] - 1)


def gen_coerce():
    global _CONST_MODULE
    import flow.record.base as base
    import flow.record.fieldtypes as ft
    import flow.record.fieldtypes.net.ip as ip
    _CONST_MODULE = ft
    notes = []

    bounds = {}
    keeps = {}
    integral = {}
    for name in ("uint16", "uint32", "boolean"):
        cls = getattr(ft, name)
        _plain_int_class(cls)
        bounds[name], integral[name] = observe_range(cls, name)
        rec, why = _recognise(range_check, cls.__init__)
        if name == "boolean":
            for v in (0, 1, True, False, 1.0):
                if _try(cls, v)[0] and type(cls(v).value) is not bool:
                    raise Unsupported("boolean(%r).value is a %s" % (v, type(cls(v).value).__name__))
        else:
            keeps[name] = observe_uint_keeps(cls, name, integral[name])
        if rec is None:
            notes.append("%s.__init__: shape not recognised (%s); observed behaviour used" % (name, why.split(" (")[0][:120]))
            continue
        rb, rint, assigned, var = rec
        same = (rb == bounds[name]) if not integral[name] else (_int_interval(rb) == _int_interval(bounds[name]))
        if not same or rint != integral[name]:
            raise Unsupported("%s.__init__: the source reads as bounds %r integrality %r but the observed behaviour is %r / %r" % (
                name, rb, rint, bounds[name], integral[name]))
        if name != "boolean":
            if _is_name(assigned, var):
                rk = True
            elif (isinstance(assigned, ast.Call) and _is_name(assigned.func, "int") and len(assigned.args) == 1
                  and (_is_name(assigned.args[0], var) or _is_name(assigned.args[0], "self"))):
                rk = False
            else:
                rk = None
            if rk is not None and rk != keeps[name]:
                raise Unsupported("%s.__init__ reads as keeping %s but .value behaves otherwise" % (name, "the argument" if rk else "int(self)"))
    if keeps["uint16"] != keeps["uint32"] or integral["uint16"] != integral["uint32"]:
        raise Unsupported("uint16 and uint32 differ in their integrality test or in what they keep as .value")
    # the port types are uint16 without changes
    import flow.record.fieldtypes.net.tcp as tcp
    import flow.record.fieldtypes.net.udp as udp
    for m in (tcp, udp):
        if m.Port.__mro__[1] is not ft.uint16 or "__init__" in m.Port.__dict__ or "__new__" in m.Port.__dict__:
            raise Unsupported("%s.Port is not a plain uint16 subclass" % m.__name__)
    for alias, cls in (("wstring", ft.string), ):
        if getattr(ft, alias) is not cls:
            raise Unsupported("%s is not an alias" % alias)
    for sub in (ft.filesize, ft.unix_file_mode):
        if sub.__mro__[1] is not ft.varint or "__init__" in sub.__dict__ or "__new__" in sub.__dict__:
            raise Unsupported("%s is not a plain varint subclass" % sub.__name__)
    if "__init__" in ft.varint.__dict__ or "__new__" in ft.varint.__dict__ or ft.varint.__mro__[1] is not int:
        raise Unsupported("varint is not a plain int subclass")
    if "__init__" in ft.float.__dict__ or "__new__" in ft.float.__dict__ or float not in ft.float.__mro__:
        raise Unsupported("fieldtypes.float is not a plain float subclass")
    if ip.IPAddress is not ip.ipaddress or ip.IPNetwork is not ip.ipnetwork:
        raise Unsupported("net.IPAddress / net.IPNetwork are not aliases")

    bytes_isinstance = _agree("bytes.__init__", observe_bytes(ft), *_recognise(bytes_fact, ft), notes)
    str_decodes = _agree("string.__new__", observe_string(ft), *_recognise(string_fact, ft), notes)
    else_empty, lens = _agree("digest", observe_digest(ft), *_recognise(digest_facts, ft), notes)
    guard_none, before = _agree("Record.__setattr__", observe_setattr(base, ft), *_recognise(setattr_facts, base), notes)
    tl_convert, tl_falsy = _agree("typedlist", observe_typedlist(base, ft), *_recognise(typedlist_facts, ft), notes)
    o_arg, final_utc = observe_datetime(ft)
    rec, why = _recognise(datetime_facts, ft)
    if rec is None:
        notes.append("datetime.__new__: shape not recognised (%s); observed behaviour used" % why.split(" (")[0][:120])
        arg_utc = True if o_arg is None else o_arg     # behind the final fix-up either spelling of the argument rule behaves the same
    else:
        if rec[1] != final_utc or (o_arg is not None and rec[0] != o_arg):
            raise Unsupported("datetime.__new__: the source reads as %r but the observed behaviour is %r" % (rec, (o_arg, final_utc)))
        arg_utc = rec[0]
    observe_ip(ip)
    rec, why = _recognise(ip_facts, ip)
    if why:
        notes.append("ipaddress / ipnetwork __init__: shape not recognised (%s); observed behaviour used" % why.split(" (")[0][:120])
    grouped = _agree("GroupedRecord.__setattr__", observe_grouped(base, ft), *_recognise(grouped_facts, base), notes)
    ltable = list_class_table()

    def cbound(b):
        return "{| b_lo := %s; b_lo_op := %s; b_hi := %s; b_hi_op := %s |}" % (cZ(b[0]), b[1], cZ(b[2]), b[3])

    out = HEADER
    out += "From Coq Require Import List Bool ZArith String.\nImport ListNotations.\nFrom FR Require Import Coerce.\n\n"
    out += "(* flow/record/fieldtypes/__init__.py, flow/record/base.py: every field is OBSERVED on probe values (tools/vf/factgen/c05.py);\n"
    out += "   the source shapes are read as a cross-check *)\n"
    for n in notes:
        out += "(* note: %s *)\n" % n.replace("*)", "* )").replace("(*", "( *").replace('"', "'")
    out += "Definition gen_facts : facts :=\n  {| f_uint16 := %s;\n     f_uint32 := %s;\n     f_boolean := %s;\n" % (
        cbound(bounds["uint16"]), cbound(bounds["uint32"]), cbound(bounds["boolean"]))
    out += "     f_uint_integral := %s;\n     f_bool_integral := %s;\n" % (cbool(integral["uint16"]), cbool(integral["boolean"]))
    out += "     f_uint_keeps_arg := %s;\n     f_bytes_isinstance := %s;\n     f_str_decodes_bytes := %s;\n" % (
        cbool(keeps["uint16"]), cbool(bytes_isinstance), cbool(str_decodes))
    out += "     f_digest_len := (%s, %s, %s);\n     f_digest_else_empty := %s;\n" % (cZ(lens[0]), cZ(lens[1]), cZ(lens[2]), cbool(else_empty))
    out += "     f_sa_guard_none := %s;\n     f_sa_convert_before_store := %s;\n" % (cbool(guard_none), cbool(before))
    out += "     f_tl_convert := %s;\n     f_tl_falsy_empty := %s;\n" % (cbool(tl_convert), cbool(tl_falsy))
    out += "     f_dt_arg_utc := %s;\n     f_dt_final_utc := %s;\n     f_tl_elem_class := %s;\n     f_grouped_delegates := %s |}.\n" % (
        cbool(arg_utc), cbool(final_utc), cbool(all(f and r for _, f, r in ltable)), cbool(grouped))
    out += "\n(* base.fieldtype, observed: whitelist entry T, `fieldtype(T + \"[]\").__type__ is fieldtype(T)` (and the list class is\n"
    out += "   not shared with another element class) after resolving all entries in forward / in reverse order *)\n"
    out += "Definition gen_list_class_table : list (string * bool * bool) :=\n  [%s].\n" % ";\n   ".join(
        "(%s%%string, %s, %s)" % (cstr(n), cbool(f), cbool(r)) for n, f, r in ltable)
    write_if_changed(GEN / "Gen_coerce.v", out)


GENERATORS = [gen_coerce]
