"""Facts for C17 (writers lose nothing) -> coq/gen/Gen_writers.v.

Constants are read from the imported modules; the *shape* facts (which methods a method body calls, in which
order; the roll-over test of SplitWriter.write; the rotation stamp format) are read from the source with `ast`.
Fail closed: any statement the small recognisers below do not know makes the generator raise Unsupported.
"""
from __future__ import annotations

import ast
import inspect
import os
import textwrap

from vf.coqlit import cbool, clist, cN, cstr
from vf.factlib import GEN, HEADER, Unsupported, write_if_changed

WRITER_CLASSES = [
    ("flow.record.adapter.stream", "StreamWriter"), ("flow.record.adapter.jsonfile", "JsonfileWriter"),
    ("flow.record.adapter.avro", "AvroWriter"), ("flow.record.adapter.sqlite", "SqliteWriter"),
    ("flow.record.adapter.split", "SplitWriter"), ("flow.record.adapter.csvfile", "CsvfileWriter"),
    ("flow.record.adapter.line", "LineWriter"), ("flow.record.adapter.text", "TextWriter"),
    ("flow.record.adapter.archive", "ArchiveWriter"),
]


def _fdef(fn):
    src = textwrap.dedent(inspect.getsource(fn))
    node = ast.parse(src).body[0]
    if not isinstance(node, ast.FunctionDef):
        raise Unsupported("not a def: %r" % (fn,))
    return node


def _where(fn, node):
    return "%s line %d" % (fn.__qualname__, fn.__code__.co_firstlineno + getattr(node, "lineno", 1) - 1)


def _strip_doc(body):
    body = list(body)
    if body and isinstance(body[0], ast.Expr) and isinstance(body[0].value, ast.Constant) and isinstance(body[0].value.value, str):
        body = body[1:]
    return body


def _self_attr(node):
    """self.x -> 'x'"""
    if isinstance(node, ast.Attribute) and isinstance(node.value, ast.Name) and node.value.id == "self":
        return node.attr
    return None


def _is_guard(test):
    """a truthiness test built from self.<attr>, not, and/or, is_stdout(self.x), hasattr(self.x, "..."),
    `self.x is not None`"""
    if _self_attr(test):
        return True
    if isinstance(test, ast.BoolOp):
        return all(_is_guard(v) for v in test.values)
    if isinstance(test, ast.UnaryOp) and isinstance(test.op, ast.Not):
        return _is_guard(test.operand)
    if isinstance(test, ast.Call) and isinstance(test.func, ast.Name) and test.func.id in ("is_stdout", "hasattr") \
            and test.args and _self_attr(test.args[0]) and all(isinstance(a, ast.Constant) for a in test.args[1:]) and not test.keywords:
        return True
    if isinstance(test, ast.Compare) and len(test.ops) == 1 and isinstance(test.ops[0], (ast.Is, ast.IsNot)) \
            and _self_attr(test.left) and isinstance(test.comparators[0], ast.Constant) and test.comparators[0].value is None:
        return True
    return False


def _is_writer_install(st):
    """self.writer = <...>.Writer(self.fp, ...)  (a fastavro writer created on the spot)"""
    if not (isinstance(st, ast.Assign) and len(st.targets) == 1 and _self_attr(st.targets[0]) == "writer"
            and isinstance(st.value, ast.Call)):
        return False
    f = st.value.func
    name = f.attr if isinstance(f, ast.Attribute) else (f.id if isinstance(f, ast.Name) else None)
    return name == "Writer" and bool(st.value.args) and _self_attr(st.value.args[0]) == "fp"


def avro_flush_shape(AvroWriter):
    """AvroWriter.flush: True  = `if not self.writer: self.writer = Writer(...)`; `self.writer.flush()`
                         False = `if self.writer: self.writer.flush()`"""
    fn = AvroWriter.flush
    body = _strip_doc(_fdef(fn).body)

    def is_writer_flush(st):
        return (isinstance(st, ast.Expr) and isinstance(st.value, ast.Call) and not st.value.args and not st.value.keywords
                and isinstance(st.value.func, ast.Attribute) and st.value.func.attr == "flush"
                and _self_attr(st.value.func.value) == "writer")

    def is_writer_truth(t):
        return _self_attr(t) == "writer" or (
            isinstance(t, ast.Compare) and len(t.ops) == 1 and isinstance(t.ops[0], ast.IsNot) and _self_attr(t.left) == "writer"
            and isinstance(t.comparators[0], ast.Constant) and t.comparators[0].value is None)

    def is_writer_false(t):
        return (isinstance(t, ast.UnaryOp) and isinstance(t.op, ast.Not) and _self_attr(t.operand) == "writer") or (
            isinstance(t, ast.Compare) and len(t.ops) == 1 and isinstance(t.ops[0], ast.Is) and _self_attr(t.left) == "writer"
            and isinstance(t.comparators[0], ast.Constant) and t.comparators[0].value is None)

    if len(body) == 1 and isinstance(body[0], ast.If) and not body[0].orelse and is_writer_truth(body[0].test) \
            and len(body[0].body) == 1 and is_writer_flush(body[0].body[0]):
        return False
    if len(body) == 2 and isinstance(body[0], ast.If) and not body[0].orelse and is_writer_false(body[0].test) \
            and len(body[0].body) == 1 and _is_writer_install(body[0].body[0]) and is_writer_flush(body[1]):
        return True
    raise Unsupported("AvroWriter.flush has neither of the two known shapes (%s)" % _where(fn, body[0] if body else _fdef(fn)))


def call_events(fn):
    """The calls a simple method body makes, in source order, as ('self', m) for self.m() and (attr, m) for
    self.attr.m(); guarded blocks (`if <truthiness of self attributes>:` without else) are flattened; assignments
    `self.x = None` and `pass` are ignored.  Anything else: Unsupported."""
    node = _fdef(fn)
    events = []

    def walk(stmts):
        for st in stmts:
            if isinstance(st, ast.Pass):
                continue
            if isinstance(st, ast.Expr) and isinstance(st.value, ast.Call) and not st.value.args and not st.value.keywords:
                f = st.value.func
                if isinstance(f, ast.Attribute):
                    if isinstance(f.value, ast.Name) and f.value.id == "self":
                        events.append(("self", f.attr))
                        continue
                    a = _self_attr(f.value)
                    if a:
                        events.append((a, f.attr))
                        continue
            if isinstance(st, ast.If) and not st.orelse and _is_guard(st.test):
                walk(st.body)
                continue
            if isinstance(st, ast.Assign) and len(st.targets) == 1 and _self_attr(st.targets[0]) \
                    and isinstance(st.value, ast.Constant) and st.value.value is None:
                continue
            if _is_writer_install(st):
                events.append(("writer", "install"))
                continue
            raise Unsupported("unrecognised statement in %s" % _where(fn, st))

    walk(_strip_doc(node.body))
    return events


def method_calls(fn):
    """a body that is only a sequence of self.flush() / self.close() calls -> ['MFlush', 'MClose', ...]"""
    out = []
    for who, m in call_events(fn):
        if who == "self" and m == "flush":
            out.append("MFlush")
        elif who == "self" and m == "close":
            out.append("MClose")
        else:
            raise Unsupported("%s calls %s.%s()" % (fn.__qualname__, who, m))
    return out


def _before(events, a, bs):
    """does event a occur before the first of the events bs (which must occur)?"""
    idx_b = [i for i, e in enumerate(events) if e in bs]
    if not idx_b:
        return None
    idx_a = [i for i, e in enumerate(events) if e == a]
    return bool(idx_a) and idx_a[0] < idx_b[0]


def split_write_shape(SplitWriter):
    fn = SplitWriter.write
    node = _fdef(fn)
    body = _strip_doc(node.body)
    argname = node.args.args[1].arg if len(node.args.args) == 2 else None
    if argname is None:
        raise Unsupported("SplitWriter.write signature")

    def is_inner_write(st):
        return (isinstance(st, ast.Expr) and isinstance(st.value, ast.Call) and isinstance(st.value.func, ast.Attribute)
                and st.value.func.attr == "write" and _self_attr(st.value.func.value) == "writer"
                and len(st.value.args) == 1 and isinstance(st.value.args[0], ast.Name) and st.value.args[0].id == argname)

    def is_stdout_return(st):
        return (isinstance(st, ast.If) and not st.orelse and _self_attr(st.test) == "is_stdout" and len(st.body) == 1
                and isinstance(st.body[0], ast.Return) and st.body[0].value is None)

    def is_incr(st):
        return (isinstance(st, ast.AugAssign) and isinstance(st.op, ast.Add) and _self_attr(st.target) == "written"
                and isinstance(st.value, ast.Constant) and st.value.value == 1)

    if len(body) != 4 or not is_inner_write(body[0]) or not is_stdout_return(body[1]) or not is_incr(body[2]) \
            or not isinstance(body[3], ast.If) or body[3].orelse:
        raise Unsupported("SplitWriter.write is not `self.writer.write(r); if self.is_stdout: return; "
                          "self.written += 1; if <roll-over test>: ...` (%s)" % _where(fn, node))
    test = body[3].test
    if not (isinstance(test, ast.Compare) and len(test.ops) == 1 and _self_attr(test.left) == "written"
            and _self_attr(test.comparators[0]) == "count" and isinstance(test.ops[0], (ast.GtE, ast.Gt))):
        raise Unsupported("SplitWriter.write roll-over test is not `self.written >= self.count` / `>` (%s)" % _where(fn, test))
    ge = isinstance(test.ops[0], ast.GtE)
    steps = []
    for st in body[3].body:
        if isinstance(st, ast.Expr) and isinstance(st.value, ast.Call) and not st.value.args and not st.value.keywords \
                and isinstance(st.value.func, ast.Attribute) and isinstance(st.value.func.value, ast.Name) \
                and st.value.func.value.id == "self" and st.value.func.attr in ("flush", "close"):
            steps.append("RFlush" if st.value.func.attr == "flush" else "RClose")
            continue
        if isinstance(st, ast.Assign) and len(st.targets) == 1 and _self_attr(st.targets[0]) == "written" \
                and isinstance(st.value, ast.Constant) and st.value.value == 0:
            steps.append("RReset")
            continue
        if isinstance(st, ast.Assign) and len(st.targets) == 1 and _self_attr(st.targets[0]) == "writer" \
                and isinstance(st.value, ast.Call) and isinstance(st.value.func, ast.Name) and st.value.func.id == "RecordWriter" \
                and len(st.value.args) == 1 and isinstance(st.value.args[0], ast.Call) and not st.value.args[0].args \
                and isinstance(st.value.args[0].func, ast.Attribute) and st.value.args[0].func.attr == "_next_path" \
                and isinstance(st.value.args[0].func.value, ast.Name) and st.value.args[0].func.value.id == "self" \
                and len(st.value.keywords) == 1 and st.value.keywords[0].arg is None and _self_attr(st.value.keywords[0].value) == "kwargs":
            steps.append("RNew")
            continue
        raise Unsupported("unrecognised statement in the roll-over block of %s" % _where(fn, st))
    return ge, steps


def split_stdout_shape(SplitWriter):
    """SplitWriter.__init__: `parsed = urlparse(self.path)`; `self.is_stdout = <conjunction of tests on parsed.netloc /
    parsed.path>`, each test `parsed.X in (<string constants>)` or `parsed.X == <string constant>`.
    -> (netloc values or None, path values or None)"""
    fn = SplitWriter.__init__
    node = _fdef(fn)
    parsed_ok = False
    expr = None
    for st in ast.walk(node):
        if isinstance(st, ast.Assign) and len(st.targets) == 1:
            t = st.targets[0]
            if isinstance(t, ast.Name) and t.id == "parsed":
                v = st.value
                if not (isinstance(v, ast.Call) and isinstance(v.func, ast.Name) and v.func.id == "urlparse" and len(v.args) == 1
                        and _self_attr(v.args[0]) == "path" and not v.keywords):
                    raise Unsupported("`parsed` is not urlparse(self.path) (%s)" % _where(fn, st))
                parsed_ok = True
            if _self_attr(t) == "is_stdout":
                if expr is not None:
                    raise Unsupported("self.is_stdout is assigned more than once in SplitWriter.__init__")
                expr = st.value
    if not parsed_ok or expr is None:
        raise Unsupported("SplitWriter.__init__ does not compute self.is_stdout from urlparse(self.path)")
    tests = expr.values if isinstance(expr, ast.BoolOp) and isinstance(expr.op, ast.And) else [expr]
    out = {"netloc": None, "path": None}
    for t in tests:
        if not (isinstance(t, ast.Compare) and len(t.ops) == 1 and isinstance(t.left, ast.Attribute)
                and isinstance(t.left.value, ast.Name) and t.left.value.id == "parsed" and t.left.attr in out):
            raise Unsupported("unrecognised test in self.is_stdout (%s)" % _where(fn, t))
        c = t.comparators[0]
        if isinstance(t.ops[0], ast.In) and isinstance(c, (ast.Tuple, ast.List, ast.Set)) \
                and all(isinstance(e, ast.Constant) and isinstance(e.value, str) for e in c.elts):
            vals = [e.value for e in c.elts]
        elif isinstance(t.ops[0], ast.Eq) and isinstance(c, ast.Constant) and isinstance(c.value, str):
            vals = [c.value]
        else:
            raise Unsupported("unrecognised test in self.is_stdout (%s)" % _where(fn, t))
        if out[t.left.attr] is not None:
            # two tests on the same part: both must hold -> intersection
            vals = [v for v in vals if v in out[t.left.attr]]
        out[t.left.attr] = vals
    for vals in out.values():
        if vals is not None and not all(all(32 <= ord(ch) < 127 for ch in v) for v in vals):
            raise Unsupported("non-ASCII value in self.is_stdout test")
    return out["netloc"], out["path"]


def rotation_formats(PathTemplateWriter, stamp_only=False):
    """(strftime spec of the rotation stamp, format of the rotated file name, format with a counter or None)
    from rotate_existing_file.  The counter format is reported only for the exact loop
        counter = 0
        while os.path.exists(dst): counter += 1; dst = os.path.join(src_dir, "<...{counter}...>".format(**locals()))
    placed before the os.rename call.  stamp_only: do not look at the loop (used by the check's harness, which only
    needs the stamp spec to render its patched clock)."""
    fn = PathTemplateWriter.rotate_existing_file
    node = _fdef(fn)
    stamp_spec = None
    name_fmt = None
    for st in ast.walk(node):
        if isinstance(st, ast.Assign) and len(st.targets) == 1 and isinstance(st.targets[0], ast.Name) and st.targets[0].id == "stamp":
            v = st.value
            # "{now:<spec>}".format(now=now)
            if isinstance(v, ast.Call) and isinstance(v.func, ast.Attribute) and v.func.attr == "format" \
                    and isinstance(v.func.value, ast.Constant) and isinstance(v.func.value.value, str) and not v.args \
                    and len(v.keywords) == 1 and v.keywords[0].arg == "now" and isinstance(v.keywords[0].value, ast.Name) \
                    and v.keywords[0].value.id == "now":
                text = v.func.value.value
                if text.startswith("{now:") and text.endswith("}") and text.count("{") == 1:
                    stamp_spec = text[len("{now:"):-1]
            # f"{now:<spec>}"
            elif isinstance(v, ast.JoinedStr) and len(v.values) == 1 and isinstance(v.values[0], ast.FormattedValue) \
                    and isinstance(v.values[0].value, ast.Name) and v.values[0].value.id == "now" \
                    and isinstance(v.values[0].format_spec, ast.JoinedStr) and len(v.values[0].format_spec.values) == 1 \
                    and isinstance(v.values[0].format_spec.values[0], ast.Constant):
                stamp_spec = v.values[0].format_spec.values[0].value
            # now.strftime("<spec>")
            elif isinstance(v, ast.Call) and isinstance(v.func, ast.Attribute) and v.func.attr == "strftime" \
                    and isinstance(v.func.value, ast.Name) and v.func.value.id == "now" and len(v.args) == 1 \
                    and isinstance(v.args[0], ast.Constant) and isinstance(v.args[0].value, str):
                stamp_spec = v.args[0].value
            if stamp_spec is None:
                raise Unsupported("rotation stamp is not built by formatting `now` with a literal spec (%s)" % _where(fn, st))
        if isinstance(st, ast.Constant) and isinstance(st.value, str) and "{stamp}" in st.value and "{counter}" not in st.value:
            name_fmt = st.value
    if stamp_spec is None:
        raise Unsupported("no `stamp = ...` assignment in %s" % fn.__qualname__)
    if name_fmt is None:
        raise Unsupported("no rotated-name format mentioning {stamp} in %s" % fn.__qualname__)
    if stamp_only:
        return stamp_spec, name_fmt, None

    def is_exists_dst(t):
        return (isinstance(t, ast.Call) and len(t.args) == 1 and isinstance(t.args[0], ast.Name) and t.args[0].id == "dst"
                and not t.keywords and isinstance(t.func, ast.Attribute) and t.func.attr == "exists"
                and isinstance(t.func.value, ast.Attribute) and t.func.value.attr == "path"
                and isinstance(t.func.value.value, ast.Name) and t.func.value.value.id == "os")

    def dst_counter_format(st):
        """dst = os.path.join(src_dir, "<fmt>".format(**locals())) -> fmt"""
        if not (isinstance(st, ast.Assign) and len(st.targets) == 1 and isinstance(st.targets[0], ast.Name) and st.targets[0].id == "dst"):
            return None
        v = st.value
        if not (isinstance(v, ast.Call) and isinstance(v.func, ast.Attribute) and v.func.attr == "join" and len(v.args) == 2
                and isinstance(v.args[0], ast.Name) and v.args[0].id == "src_dir"):
            return None
        f = v.args[1]
        if isinstance(f, ast.Call) and isinstance(f.func, ast.Attribute) and f.func.attr == "format" \
                and isinstance(f.func.value, ast.Constant) and isinstance(f.func.value.value, str):
            return f.func.value.value
        return None

    counter_fmt = None
    loops = [n for n in ast.walk(node) if isinstance(n, (ast.While, ast.For))]
    renames = [n for n in ast.walk(node) if isinstance(n, ast.Call) and isinstance(n.func, ast.Attribute) and n.func.attr == "rename"
               and isinstance(n.func.value, ast.Name) and n.func.value.id == "os"]
    if len(renames) != 1:
        raise Unsupported("rotate_existing_file does not call os.rename exactly once")
    if loops:
        if len(loops) != 1 or not isinstance(loops[0], ast.While) or loops[0].orelse or not is_exists_dst(loops[0].test):
            raise Unsupported("unrecognised loop in %s" % _where(fn, loops[0]))
        lp = loops[0]
        body = lp.body
        ok = (len(body) == 2 and isinstance(body[0], ast.AugAssign) and isinstance(body[0].op, ast.Add)
              and isinstance(body[0].target, ast.Name) and body[0].target.id == "counter"
              and isinstance(body[0].value, ast.Constant) and body[0].value.value == 1)
        fmt = dst_counter_format(body[1]) if ok else None
        if not fmt or "{counter}" not in fmt or fmt.replace("-{counter}", "") != name_fmt:
            raise Unsupported("the free-name loop of rotate_existing_file is not `counter += 1; dst = join(src_dir, "
                              "\"{fname}.{stamp}-{counter}.{ext}\".format(**locals()))` (%s)" % _where(fn, lp))
        # counter = 0 right before the loop, the loop before the rename
        inits = [n for n in ast.walk(node) if isinstance(n, ast.Assign) and len(n.targets) == 1 and isinstance(n.targets[0], ast.Name)
                 and n.targets[0].id == "counter"]
        if len(inits) != 1 or not (isinstance(inits[0].value, ast.Constant) and inits[0].value.value == 0) \
                or not (inits[0].lineno < lp.lineno < renames[0].lineno):
            raise Unsupported("the free-name loop of rotate_existing_file is not initialised with counter = 0 before os.rename")
        counter_fmt = fmt
    return stamp_spec, name_fmt, counter_fmt


# ------------------------------------------------------------------------------------------------------
# OBSERVED facts: the real methods are run on purpose-built probes that log what is done to them.  The ast recognisers
# above are cross-checks only: recognised-and-contradicting -> Unsupported; not recognised -> the observation is used
# and a note is written into the generated file.

def _scratch():
    import tempfile
    root = "/verif/.work"
    os.makedirs(root, exist_ok=True)
    return tempfile.mkdtemp(prefix="c17facts.", dir=root)


def observe_exit_del():
    """which of flush()/close() AbstractWriter.__exit__ calls on self, in order -- when the with-block is left normally
    and when it is left by an exception (Exception subclass, KeyboardInterrupt) -- and what __del__ calls.
    -> (normal exit, exceptional exit, del)"""
    from flow.record.adapter import AbstractWriter
    log = []

    class Probe(AbstractWriter):
        def write(self, rec):
            log.append("write")

        def flush(self):
            log.append("MFlush")

        def close(self):
            log.append("MClose")

    class _Boom(Exception):
        pass

    p = Probe()
    del log[:]
    AbstractWriter.__exit__(p, None, None, None)
    ex = list(log)
    del log[:]
    AbstractWriter.__del__(p)
    de = list(log)
    for name, calls in (("__exit__", ex), ("__del__", de)):
        if any(c not in ("MFlush", "MClose") for c in calls):
            raise Unsupported("AbstractWriter.%s calls %s on the writer" % (name, calls))
    # through a real with-block, too
    q = Probe()
    del log[:]
    with q:
        pass
    if log != ex:
        raise Unsupported("leaving a with-block does %s, AbstractWriter.__exit__ does %s" % (log, ex))
    # ... and when the block is left by an exception
    exc_logs = []
    for exc in (_Boom("x"), ValueError("x"), KeyboardInterrupt(), SystemExit(1), GeneratorExit()):
        q = Probe()
        del log[:]
        swallowed = True
        try:
            with q:
                raise exc
        except BaseException as e:  # noqa
            swallowed = e is not exc
        if swallowed:
            raise Unsupported("AbstractWriter.__exit__ swallows or replaces %r" % (exc,))
        exc_logs.append(list(log))
        if any(c not in ("MFlush", "MClose") for c in log):
            raise Unsupported("AbstractWriter.__exit__ (exception in flight) calls %s on the writer" % (log,))
    if any(l != exc_logs[0] for l in exc_logs):
        raise Unsupported("AbstractWriter.__exit__ treats exceptions differently: %s" % exc_logs)
    return ex, exc_logs[0], de


def observe_avro(tmp):
    """-> (flush installs the placeholder writer, close installs it before flushing, close flushes before closing fp)"""
    import flow.record.adapter.avro as avro_mod
    real = avro_mod.fastavro
    events = []
    state = {"in_flush": 0}

    class _WriteNS:
        def __getattr__(self, name):
            return getattr(real.write, name)

        @staticmethod
        def Writer(*a, **kw):
            events.append(("install", state["in_flush"] > 0))
            return real.write.Writer(*a, **kw)

    class _Shim:
        write = _WriteNS()

        def __getattr__(self, name):
            return getattr(real, name)

    avro_mod.fastavro = _Shim()
    try:
        # 1. flush() on a fresh writer
        w = avro_mod.AvroWriter(os.path.join(tmp, "f1.avro"))
        del events[:]
        w.flush()
        flush_installs = any(e[0] == "install" for e in events) and w.writer is not None
        if any(e[0] == "install" for e in events) != (w.writer is not None):
            raise Unsupported("AvroWriter.flush creates a fastavro writer without keeping it")
        w.close()
        # 2. close() on a fresh writer, flush() wrapped on the instance
        w = avro_mod.AvroWriter(os.path.join(tmp, "f2.avro"))
        orig_flush = w.flush

        def logged_flush():
            fp = w.fp
            events.append(("flush", w.writer is not None, bool(fp is None or getattr(fp, "closed", False))))
            state["in_flush"] += 1
            try:
                return orig_flush()
            finally:
                state["in_flush"] -= 1

        w.flush = logged_flush
        del events[:]
        w.close()
        del w.flush
        ev = list(events)
    finally:
        avro_mod.fastavro = real
    flush_calls = [e for e in ev if e[0] == "flush"]
    close_flushes = bool(flush_calls) and not flush_calls[0][2]
    first_flush = ev.index(flush_calls[0]) if flush_calls else len(ev)
    close_installs = any(e[0] == "install" and not e[1] for e in ev[:first_flush])
    if any(e[0] == "install" and not e[1] for e in ev[first_flush:]):
        raise Unsupported("AvroWriter.close installs a writer after its flush")
    return flush_installs, close_installs, close_flushes


def observe_stream_close(tmp):
    """does StreamWriter.close() on a writer that wrote nothing leave the stream header (= does it flush)?"""
    from flow.record.adapter.stream import StreamWriter
    p = os.path.join(tmp, "s.records")
    w = StreamWriter(p)
    w.close()
    return os.path.getsize(p) > 0


class _InnerProbe:
    """stands in for RecordWriter inside SplitWriter: logs what is done to it"""

    def __init__(self, log, idx, path):
        self.log, self.idx, self.path = log, idx, path
        log.append(("new", idx, path))

    def write(self, r):
        self.log.append(("write", self.idx))

    def flush(self):
        self.log.append(("flush", self.idx))

    def close(self):
        self.log.append(("close", self.idx))


def _split_probe(path, **kwargs):
    """a SplitWriter whose inner writers are probes -> (writer, event log)"""
    import flow.record.adapter.split as split_mod
    log = []
    n = [0]

    def factory(p, **kw):
        n[0] += 1
        return _InnerProbe(log, n[0] - 1, p)

    saved = split_mod.RecordWriter
    split_mod.RecordWriter = factory
    try:
        w = split_mod.SplitWriter(path, **kwargs)
    except Exception:
        split_mod.RecordWriter = saved
        raise
    return w, log, (lambda: setattr(split_mod, "RecordWriter", saved))


def observe_split_roll():
    """-> (roll-over when written >= count (True) / > count (False), the roll-over steps in canonical order)"""
    results = set()
    for count in (1, 2, 3):
        w, log, restore = _split_probe("/nonexistent/x.records", count=count)
        try:
            for i in range(3 * count + 3):
                w.write(object())
            written_after = w.written
        finally:
            restore()
        # writes that went to the first inner writer
        first = sum(1 for e in log if e == ("write", 0))
        if first == count:
            ge = True
        elif first == count + 1:
            ge = False
        else:
            raise Unsupported("SplitWriter(count=%d) put %d records into the first part" % (count, first))
        # the events between the last write to part 0 and the first write to part 1
        i0 = max(i for i, e in enumerate(log) if e == ("write", 0))
        i1 = min(i for i, e in enumerate(log) if e == ("write", 1))
        steps = []
        for e in log[i0 + 1:i1]:
            if e == ("flush", 0):
                steps.append("RFlush")
            elif e == ("close", 0):
                steps.append("RClose")
            elif e[0] == "new" and e[1] == 1:
                steps.append("RNew")
            else:
                raise Unsupported("SplitWriter.write does %r while rolling over" % (e,))
        # `written` is reset iff every later part holds the same number of records as the first
        sizes = {}
        for e in log:
            if e[0] == "write":
                sizes[e[1]] = sizes.get(e[1], 0) + 1
        full = [sizes[k] for k in sorted(sizes)][:-1]
        if full and all(x == first for x in full):
            reset = True
        elif len(full) > 1 and all(x == 1 for x in full[1:]):
            reset = False
        else:
            raise Unsupported("SplitWriter(count=%d) part sizes %s fit neither a reset nor a missing reset" % (count, full))
        if reset:   # its position among the steps is not observable (and irrelevant): canonically before the new writer
            k = steps.index("RNew") if "RNew" in steps else len(steps)
            steps.insert(k, "RReset")
        results.add((ge, tuple(steps)))
    if len(results) != 1:
        raise Unsupported("SplitWriter rolls over differently for different counts: %s" % sorted(results))
    ge, steps = results.pop()
    return ge, list(steps)


def observe_split_stdout(extra_strings=()):
    """The (netloc, path) pairs of urlparse(self.path) that SplitWriter takes for stdout, fitted to
    `netloc in N and path in P` (None = that part is not tested).  Probed over a grid that includes every string
    literal of the module."""
    from urllib.parse import urlparse
    netlocs = {"", "-", "bare.json", "host", "x"} | {x for x in extra_strings if "/" not in x and ":" not in x and "?" not in x and "#" not in x}
    paths = {"", "-", "out.records", "/abs/out.records", "/-", "/", "dir/out.json"} | {x for x in extra_strings if ":" not in x and "?" not in x and "#" not in x}
    table = {}
    for n in sorted(netlocs):
        for p in sorted(paths):
            if n:
                if p and not p.startswith("/"):
                    continue
                uri = "probe://" + n + p
            else:
                if p.startswith("//"):
                    continue
                uri = p
            u = urlparse(uri)
            if (u.netloc, u.path) != (n, p):
                continue
            try:
                w, log, restore = _split_probe(uri)
            except ValueError:
                # pathlib refused to put a suffix on this name: it was not taken for stdout (stdout keeps the path as it is)
                table[(n, p)] = False
                continue
            try:
                table[(n, p)] = bool(w.is_stdout)
                # the flag decides whether the next path gets a suffix
                if bool(w.is_stdout) != (log[0][2] == uri):
                    raise Unsupported("SplitWriter(%r): is_stdout=%r but the first path is %r" % (uri, w.is_stdout, log[0][2]))
            finally:
                restore()
    N = sorted({n for (n, p), v in table.items() if v})
    P = sorted({p for (n, p), v in table.items() if v})
    for (n, p), v in table.items():
        # (pairs that cannot be spelled -- a relative path behind a netloc -- are not in the table)
        if v != (n in N and p in P):
            raise Unsupported("SplitWriter.is_stdout is not of the form `netloc in N and path in P`: %r -> %r" % ((n, p), v))
    all_n = sorted({n for (n, p) in table})
    all_p = sorted({p for (n, p) in table})
    # a part every probed value of which is accepted (with some value of the other part) is not tested
    netloc_vals = None if N == all_n else N
    path_vals = None if P == all_p else P
    if not N and not P:
        netloc_vals, path_vals = [], []
    return netloc_vals, path_vals


class _FrozenNow:
    def __init__(self, value):
        self.value = value
        self.calls = 0

    def now(self, tz=None):
        self.calls += 1
        return self.value


class _FakeDatetime:
    def __init__(self, value):
        import datetime as real
        self.datetime = _FrozenNow(value)
        self.timezone = real.timezone
        self.timedelta = real.timedelta


def _rotate_once(tmp, fname, when, content=b"x"):
    """create tmp/fname, run rotate_existing_file on it with the clock frozen at `when` -> the new names in tmp"""
    import flow.record.stream as S
    p = os.path.join(tmp, fname)
    before = set(os.listdir(tmp))
    with open(p, "wb") as f:
        f.write(content)
    saved = S.datetime
    S.datetime = _FakeDatetime(when)
    try:
        S.PathTemplateWriter().rotate_existing_file(p)
    finally:
        S.datetime = saved
    after = set(os.listdir(tmp))
    if fname in after:
        raise Unsupported("rotate_existing_file left %s in place" % fname)
    return sorted(after - before)


_STAMP_CACHE = {}


def rotation_stamp(when):
    """the stamp rotate_existing_file puts into a rotated name for the instant `when` (observed on a scratch file)"""
    key = when.isoformat()
    if key not in _STAMP_CACHE:
        import shutil
        tmp = _scratch()
        try:
            new = _rotate_once(tmp, "probe.records.gz", when)
            if len(new) != 1 or not (new[0].startswith("probe.") and new[0].endswith(".records.gz")):
                raise Unsupported("rotate_existing_file renamed probe.records.gz to %s" % new)
            _STAMP_CACHE[key] = new[0][len("probe."):-len(".records.gz")]
        finally:
            shutil.rmtree(tmp, ignore_errors=True)
    return _STAMP_CACHE[key]


def observe_rotation(tmp):
    """-> dict(stamp_spec, name_format, counter (bool), counter_format)"""
    import datetime as real
    when = real.datetime(2021, 5, 6, 7, 8, 9, 123456, tzinfo=real.timezone.utc)
    stamp = rotation_stamp(when)
    spec = stamp
    for text, directive in (("123456", "%f"), ("2021", "%Y"), ("05", "%m"), ("06", "%d"), ("07", "%H"), ("08", "%M"), ("09", "%S")):
        spec = spec.replace(text, directive)
    if any(ch.isdigit() for ch in spec):
        raise Unsupported("cannot read a strftime spec off the rotation stamp %r" % stamp)
    other = real.datetime(1999, 12, 31, 23, 59, 58, 7, tzinfo=real.timezone.utc)
    if rotation_stamp(other) != other.strftime(spec):
        raise Unsupported("the rotation stamp is not strftime(%r): %r" % (spec, rotation_stamp(other)))
    # name format, on both naming conventions
    d1 = os.path.join(tmp, "r1")
    os.makedirs(d1)
    n_gz = _rotate_once(d1, "alpha.records.gz", when, b"first")
    n_other = _rotate_once(d1, "beta.json", when)
    if n_gz != ["alpha.%s.records.gz" % stamp]:
        raise Unsupported("alpha.records.gz was rotated to %s" % n_gz)
    name_format = "{fname}.{stamp}.{ext}"
    if n_other != [name_format.format(fname="beta", stamp=stamp, ext=".json")]:
        raise Unsupported("beta.json was rotated to %s" % n_other)
    # a second and third rotation within the same second
    n2 = _rotate_once(d1, "alpha.records.gz", when, b"second")
    first_kept = open(os.path.join(d1, n_gz[0]), "rb").read() == b"first"
    if not n2:
        if first_kept:
            raise Unsupported("the second rotation created no new name but the first rotated file is intact")
        return dict(stamp_spec=spec, name_format=name_format, counter=False, counter_format="")
    if not first_kept:
        raise Unsupported("the second rotation created %s and changed the first rotated file" % n2)
    n3 = _rotate_once(d1, "alpha.records.gz", when, b"third")
    counter_format = "{fname}.{stamp}-{counter}.{ext}"
    want = [counter_format.format(fname="alpha", stamp=stamp, counter=i, ext="records.gz") for i in (1, 2)]
    if n2 + n3 != want:
        raise Unsupported("rotations of one path within a second gave %s, the model names them %s" % (n2 + n3, want))
    return dict(stamp_spec=spec, name_format=name_format, counter=True, counter_format=counter_format)


# ---- the stdout target: sys.stdout replaced by a buffered file object over a real file (or a pseudo terminal) ----

STDOUT_KINDS = [   # (model kind, uri, stdout is a terminal)
    ("OStream", "-", False), ("OPrinter", "-", True), ("OJson", "jsonfile://-", False), ("OCsv", "csvfile://-", False),
    ("OLine", "line://-", False), ("OText", "text://-", False), ("OAvro", "avro://-", False),
]
_PROBE_MARK = None


class FakeStdout:
    """context manager: sys.stdout = TextIOWrapper(BufferedWriter(<file or pty slave>)) with a large buffer that is
    never flushed by us; .snapshot() = the bytes that have left the buffer so far"""

    def __init__(self, tmp, tty=False):
        self.tmp, self.tty = tmp, tty
        self.got = b""

    def __enter__(self):
        import io
        import sys
        self.real = sys.stdout
        if self.tty:
            import pty
            self.master, self.slave = pty.openpty()
            raw = io.FileIO(self.slave, "wb", closefd=False)
        else:
            self.path = os.path.join(self.tmp, "stdout.%d.bin" % os.getpid())
            raw = io.FileIO(self.path, "wb")
        self.fake = io.TextIOWrapper(io.BufferedWriter(raw, buffer_size=1 << 20), encoding="utf-8", errors="surrogateescape",
                                     write_through=False)
        sys.stdout = self.fake
        return self

    def snapshot(self):
        if self.tty:
            import select
            while select.select([self.master], [], [], 0.02)[0]:
                chunk = os.read(self.master, 1 << 16)
                if not chunk:
                    break
                self.got += chunk
            return self.got
        with open(self.path, "rb") as f:
            return f.read()

    def __exit__(self, *a):
        import sys
        sys.stdout = self.real
        self.stdout_closed = bool(self.fake.closed or self.fake.buffer.closed)
        try:
            self.fake.detach().detach().close()     # drop the buffers unflushed
        except Exception:
            pass
        if self.tty:
            for fd in (self.master, self.slave):
                try:
                    os.close(fd)
                except OSError:
                    pass


def delivered_marks(kind, data):
    """the (letter, id) markers of the records found in the bytes delivered so far"""
    import re
    mark = re.compile(rb"rec-([AB])-(\d+)-x")
    if kind == "OAvro":
        if not data:
            return []
        import io
        import fastavro
        try:
            return [tuple((m.group(1).decode(), int(m.group(2))) for m in [mark.fullmatch((d.get("s") or "").encode())] if m)[0]
                    for d in fastavro.reader(io.BytesIO(data))]
        except Exception as e:  # noqa
            raise Unsupported("the bytes an Avro writer delivered to stdout are not readable: %r" % (e,))
    return [(a.decode(), int(b)) for a, b in mark.findall(data)]


def _stdout_probe_record(i):
    from flow.record import RecordDescriptor
    import datetime as real
    global _PROBE_MARK
    if _PROBE_MARK is None:
        _PROBE_MARK = RecordDescriptor("c17/a", [("varint", "n"), ("string", "s")])
    return _PROBE_MARK(n=i, s="rec-A-%d-x" % i, _generated=real.datetime(2020, 1, 1, tzinfo=real.timezone.utc))


def observe_stdout(tmp):
    """kind -> (write delivers, flush delivers, close delivers), each observed on the real writer"""
    from flow.record import RecordWriter
    out = {}
    for kind, uri, tty in STDOUT_KINDS:
        res = {}
        after_close = None
        for name, ops in (("write", "W"), ("flush", "WF"), ("close", "WC"), ("write2", "WW"), ("after_close", "WC!")):
            with FakeStdout(tmp, tty) as fs:
                w = RecordWriter(uri)
                i = 0
                for op in ops:
                    if op == "W":
                        w.write(_stdout_probe_record(i))
                        i += 1
                    elif op == "F":
                        w.flush()
                    elif op == "!":       # write() on the closed writer: refused, or accepted into stdout's buffer?
                        try:
                            w.write(_stdout_probe_record(i))
                            after_close = True
                        except Exception:
                            after_close = False
                    else:
                        w.close()
                res[name] = len(delivered_marks(kind, fs.snapshot()))
                del w
            if fs.stdout_closed:
                raise Unsupported("the %s writer on %r closed sys.stdout" % (kind, uri))
        wd = res["write"] == 1
        if res["write"] not in (0, 1) or res["write2"] != (2 if wd else 0):
            raise Unsupported("%s on stdout: %d of 1 / %d of 2 records delivered right after write()" % (kind, res["write"], res["write2"]))
        out[kind] = (wd, res["flush"] == 1, res["close"] == 1, bool(after_close))
    return out


WRITER_PROBES = [   # (class, uri template)
    ("StreamWriter", "{p}.records"), ("JsonfileWriter", "jsonfile://{p}.json"), ("CsvfileWriter", "csvfile://{p}.csv"),
    ("LineWriter", "line://{p}.txt"), ("TextWriter", "text://{p}.txt"), ("AvroWriter", "avro://{p}.avro"),
    ("SqliteWriter", "sqlite://{p}.sqlite"),
]


def observe_writer_table(tmp):
    """which model adapter each writer class is an instance of, by what it leaves on disk"""
    from flow.record import RecordWriter
    table = []
    for cls, tmpl in WRITER_PROBES:
        p = os.path.join(tmp, "wt_" + cls)
        uri = tmpl.format(p=p)
        path = uri.split("://", 1)[1] if "://" in uri else uri
        with RecordWriter(uri) as w:
            if type(w).__name__ != cls:
                raise Unsupported("%r is served by %s, not %s" % (uri, type(w).__name__, cls))
            w.write(_stdout_probe_record(0))
        data = open(path, "rb").read()
        if data.startswith(b"\x00\x00\x00\x0f\xc4\rRECORDSTREAM\n"):
            k = "AStream"
        elif data.startswith(b"Obj\x01"):
            k = "AAvro"
        elif data.startswith(b"SQLite format 3"):
            k = "ASqlite"
        elif b"rec-A-0-x" in data:
            os.remove(path)
            with RecordWriter(uri):
                pass
            if os.path.getsize(path) != 0:
                raise Unsupported("%s leaves %d bytes for an empty output" % (cls, os.path.getsize(path)))
            k = "APlain"
        else:
            raise Unsupported("cannot classify what %s writes: %r" % (cls, data[:40]))
        table.append((cls, k))
    return table


# ---- writers constructed on a CALLER-SUPPLIED file object (the caller keeps its reference) ----

GIVEN_FP_CLASSES = [   # (name, module, attribute, file object kinds it is probed with)
    ("RecordStreamWriter", "flow.record", "RecordStreamWriter", ("plain", "gzip", "buffered")),
    ("RecordOutput", "flow.record", "RecordOutput", ("plain", "gzip", "buffered")),
    ("RecordPrinter", "flow.record", "RecordPrinter", ("plain", "buffered")),     # close() is a no-op: no gzip trailer
    ("StreamWriter", "flow.record.adapter.stream", "StreamWriter", ("plain", "gzip", "buffered")),
    ("AvroWriter", "flow.record.adapter.avro", "AvroWriter", ("plain", "gzip", "buffered")),
    ("LineWriter", "flow.record.adapter.line", "LineWriter", ("plain", "gzip", "buffered")),
    ("TextWriter", "flow.record.adapter.text", "TextWriter", ("plain", "gzip", "buffered")),
    ("JsonfileWriter", "flow.record.adapter.jsonfile", "JsonfileWriter", ("text",)),
]


def open_given(kind, path):
    import gzip
    import io
    if kind == "plain":
        return open(path, "wb")
    if kind == "gzip":
        return gzip.GzipFile(path, "wb")
    if kind == "buffered":
        return io.BufferedWriter(io.FileIO(path, "wb"), buffer_size=1 << 20)
    if kind == "text":
        return open(path, "w")
    raise ValueError(kind)


def given_class(name):
    import importlib
    for n, mod, attr, kinds in GIVEN_FP_CLASSES:
        if n == name:
            return getattr(importlib.import_module(mod), attr), kinds
    raise KeyError(name)


def observe_given_fp(tmp):
    """class -> (close() closes the given object, the content on disk is complete after close() while the caller still
    holds the object), observed with two records written; must agree over the file object kinds"""
    import gzip
    out = []
    for name, _, _, kinds in GIVEN_FP_CLASSES:
        cls, _ = given_class(name)
        seen = set()
        for kind in kinds:
            p = os.path.join(tmp, "given_%s_%s%s" % (name, kind, ".gz" if kind == "gzip" else ""))
            fp = open_given(kind, p)
            w = cls(fp)
            for i in range(2):
                w.write(_stdout_probe_record(i))
            w.close()
            raw = open(p, "rb").read()
            try:
                data = gzip.decompress(raw) if kind == "gzip" else raw
                if name == "AvroWriter":
                    import io
                    import fastavro
                    n = len(list(fastavro.reader(io.BytesIO(data)))) if data else 0
                else:
                    n = data.count(b"rec-A-")
                complete = n == 2
            except Exception:
                complete = False
            seen.add((bool(fp.closed), complete))
            try:
                fp.close()
            except Exception:
                pass
            del w
        if len(seen) != 1:
            raise Unsupported("%s treats caller-supplied file objects differently: %s" % (name, sorted(seen)))
        out.append((name,) + seen.pop())
    return out


def _cross_check(notes, what, observed, recogniser):
    """recognised and different -> Unsupported; not recognised -> note"""
    try:
        seen = recogniser()
    except Unsupported as e:
        notes.append("%s: shape not recognised (%s); observed behaviour used" % (what, str(e)[:160]))
        return
    if seen != observed:
        raise Unsupported("%s: the source reads as %r but the probe observed %r" % (what, seen, observed))


def _module_strings(mod):
    out = set()
    try:
        tree = ast.parse(inspect.getsource(mod))
    except Exception:
        return out
    for n in ast.walk(tree):
        if isinstance(n, ast.Constant) and isinstance(n.value, str) and len(n.value) <= 12 and all(32 <= ord(c) < 127 for c in n.value) \
                and " " not in n.value and "{" not in n.value and "\n" not in n.value:
            out.add(n.value)
    return out


_SHAPES = {}


def shapes():
    """All shape facts as a dict (also used by the check's harness); `notes` lists cross-checks that did not apply."""
    if _SHAPES:
        return dict(_SHAPES)
    import importlib
    import shutil

    import flow.record.adapter.split as split_mod
    from flow.record.adapter import AbstractWriter
    from flow.record.adapter.avro import AvroWriter
    from flow.record.adapter.split import SplitWriter
    from flow.record.adapter.stream import StreamWriter
    from flow.record.stream import PathTemplateWriter

    for modname, clsname in WRITER_CLASSES:
        cls = getattr(importlib.import_module(modname), clsname)
        if not issubclass(cls, AbstractWriter):
            raise Unsupported("%s is not an AbstractWriter" % clsname)
        for m in ("__exit__", "__del__", "__enter__"):
            for k in cls.__mro__:
                if k is AbstractWriter:
                    break
                if m in k.__dict__:
                    raise Unsupported("%s overrides %s" % (k.__name__, m))
    notes = []
    tmp = _scratch()
    try:
        exit_calls, exit_exc_calls, del_calls = observe_exit_del()
        avro_flush_placeholder, avro_close_placeholder, avro_close_flushes = observe_avro(tmp)
        stream_close_flushes = observe_stream_close(tmp)
        ge, steps = observe_split_roll()
        stdout_netloc, stdout_path = observe_split_stdout(_module_strings(split_mod))
        rot = observe_rotation(tmp)
        stdout_facts = observe_stdout(tmp)
        writer_table = observe_writer_table(tmp)
        given_fp = observe_given_fp(tmp)
    finally:
        shutil.rmtree(tmp, ignore_errors=True)

    # cross-checks against the source text
    _cross_check(notes, "AbstractWriter.__exit__", exit_calls, lambda: method_calls(AbstractWriter.__exit__))
    _cross_check(notes, "AbstractWriter.__del__", del_calls, lambda: method_calls(AbstractWriter.__del__))

    def avro_src():
        ev = call_events(AvroWriter.close)
        fl = _before(ev, ("self", "flush"), [("fp", "close")])
        if fl is None:
            raise Unsupported("AvroWriter.close never closes self.fp")
        return (avro_flush_shape(AvroWriter), bool(_before(ev, ("writer", "install"), [("self", "flush"), ("fp", "close")])), bool(fl))
    _cross_check(notes, "AvroWriter.flush/close", (avro_flush_placeholder, avro_close_placeholder, avro_close_flushes), avro_src)

    def stream_src():
        ev = call_events(StreamWriter.close)
        closers = [("stream", "close"), ("fp", "close")]
        s1 = _before(ev, ("self", "flush"), closers)
        s2 = _before(ev, ("stream", "flush"), closers)
        if s1 is None:
            raise Unsupported("StreamWriter.close closes neither self.stream nor self.fp")
        return bool(s1 or s2)
    _cross_check(notes, "StreamWriter.close", stream_close_flushes, stream_src)
    _cross_check(notes, "SplitWriter.write", (ge, steps), lambda: split_write_shape(SplitWriter))

    def stdout_src():
        n, p = split_stdout_shape(SplitWriter)
        return (None if n is None else sorted(n), None if p is None else sorted(p))
    _cross_check(notes, "SplitWriter.is_stdout", (stdout_netloc, stdout_path), stdout_src)

    def rot_src():
        spec, name_fmt, counter_fmt = rotation_formats(PathTemplateWriter)
        return (spec, name_fmt, counter_fmt is not None, counter_fmt or "")
    _cross_check(notes, "PathTemplateWriter.rotate_existing_file",
                 (rot["stamp_spec"], rot["name_format"], rot["counter"], rot["counter_format"]), rot_src)

    _SHAPES.update(dict(
        exit=exit_calls, exit_exc=exit_exc_calls, del_=del_calls, avro_close_flushes=avro_close_flushes,
        avro_flush_placeholder=avro_flush_placeholder, avro_close_placeholder=avro_close_placeholder,
        split_stdout_netloc=stdout_netloc, split_stdout_path=stdout_path,
        rotate_counter=rot["counter"], rotated_name_counter_format=rot["counter_format"],
        stream_close_flushes=stream_close_flushes, split_ge=ge, split_roll=steps,
        stamp_spec=rot["stamp_spec"], rotated_name_format=rot["name_format"], notes=notes,
        stdout=stdout_facts, writer_table=writer_table, given_fp=given_fp))
    return dict(_SHAPES)


def gen_writers():
    from flow.record.adapter import split as split_mod
    from flow.record.stream import PathTemplateWriter

    sh = shapes()
    count = split_mod.DEFAULT_RECORD_COUNT
    suffix = split_mod.DEFAULT_SUFFIX_LENGTH
    tmpl = PathTemplateWriter.DEFAULT_TEMPLATE
    if not (isinstance(count, int) and not isinstance(count, bool) and count >= 0):
        raise Unsupported("DEFAULT_RECORD_COUNT is %r" % (count,))
    if not (isinstance(suffix, int) and not isinstance(suffix, bool) and suffix >= 0):
        raise Unsupported("DEFAULT_SUFFIX_LENGTH is %r" % (suffix,))
    for name, text in (("DEFAULT_TEMPLATE", tmpl), ("stamp spec", sh["stamp_spec"]), ("rotated name format", sh["rotated_name_format"]),
                       ("rotated name format with counter", sh["rotated_name_counter_format"])):
        if not (isinstance(text, str) and all(32 <= ord(c) < 127 for c in text)):
            raise Unsupported("%s is not printable ASCII text: %r" % (name, text))
    out = HEADER
    out += "From Coq Require Import List Bool String NArith.\nImport ListNotations.\nFrom FR Require Import Writers.\nOpen Scope string_scope.\n\n"
    for note in sh.get("notes", []):
        out += "(* note: %s *)\n" % note.replace("(*", "( *").replace("*)", "* )")
    out += "(* flow/record/adapter/split.py *)\n"
    out += "Definition default_record_count : N := %s.\n" % cN(count)
    out += "Definition default_suffix_length : N := %s.\n\n" % cN(suffix)
    out += "(* flow/record/stream.py PathTemplateWriter *)\n"
    out += "Definition default_template : string := %s.\n" % cstr(tmpl)
    out += "Definition rotation_stamp_format : string := %s.   (* strftime spec of the stamp put into a rotated name *)\n" % cstr(sh["stamp_spec"])
    out += "Definition rotated_name_format : string := %s.\n" % cstr(sh["rotated_name_format"])
    out += "Definition rotated_name_counter_format : string := %s.   (* \"\" = no free-name loop *)\n\n" % cstr(sh["rotated_name_counter_format"])
    out += "(* shapes of AbstractWriter.__exit__ / __del__, AvroWriter.close, StreamWriter.close, SplitWriter.write *)\n"
    out += "Definition writer_shapes : shapes :=\n"
    out += "  {| sh_exit := %s;\n     sh_del := %s;\n     sh_avro_flush_placeholder := %s;\n     sh_avro_close_placeholder := %s;\n" % (
        clist(sh["exit"]), clist(sh["del_"]), cbool(sh["avro_flush_placeholder"]), cbool(sh["avro_close_placeholder"]))
    out += "     sh_avro_close_flushes := %s;\n     sh_stream_close_flushes := %s;\n" % (
        cbool(sh["avro_close_flushes"]), cbool(sh["stream_close_flushes"]))
    out += "     sh_split_ge := %s;\n     sh_split_roll := %s;\n     sh_rotate_counter := %s;\n" % (
        cbool(sh["split_ge"]), clist(sh["split_roll"]), cbool(sh["rotate_counter"]))

    def optvals(v):
        return "None" if v is None else "(Some %s)" % clist([cstr(x) for x in v])
    out += "     sh_split_stdout_netloc := %s;\n     sh_split_stdout_path := %s |}.\n" % (
        optvals(sh["split_stdout_netloc"]), optvals(sh["split_stdout_path"]))
    out = out.replace("sh_split_stdout_path := %s |}." % optvals(sh["split_stdout_path"]),
                      "sh_split_stdout_path := %s;\n     sh_exit_exc := %s |}." % (optvals(sh["split_stdout_path"]), clist(sh["exit_exc"])))
    out += "\n(* the stdout target ('-'), observed with sys.stdout replaced by a buffered file object (OPrinter: a terminal):\n"
    out += "   does write() / flush() / close() leave nothing in that buffer?  does write() on a closed writer still go there? *)\n"
    out += "Definition stdout_shapes (k : okind) : oshape :=\n  match k with\n"
    for kind, _, _ in STDOUT_KINDS:
        a, b, c, d = sh["stdout"][kind]
        out += "  | %s => mkOShape %s %s %s %s\n" % (kind, cbool(a), cbool(b), cbool(c), cbool(d))
    out += "  end.\n"
    out += "\n(* the writers that write to a path, each with the model adapter it is an instance of (by what it leaves on disk) *)\n"
    out += "Definition writer_table : list (string * adapter) :=\n  %s.\n" % clist(["(%s, %s)" % (cstr(c), k) for c, k in sh["writer_table"]])
    out += "\n(* writers constructed on a caller-supplied file object, the caller keeping its reference: (class, (close() closes\n"
    out += "   that object, after close() the content on disk is complete)) -- observed *)\n"
    out += "Definition given_fp_table : list (string * (bool * bool)) :=\n  %s.\n" % clist(
        ["(%s, (%s, %s))" % (cstr(n), cbool(a), cbool(b)) for n, a, b in sh["given_fp"]])
    write_if_changed(GEN / "Gen_writers.v", out)


GENERATORS = [gen_writers]
