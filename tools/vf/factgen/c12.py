"""Facts for C12 (record equality and hashing) -> coq/gen/Gen_equality.v.

Every boolean fact is derived from OBSERVED BEHAVIOUR of flow/record/base.py on purpose-built probes (`observe`):

* what Record.__eq__ hands to self._pack / other._pack (Record._pack / GroupedRecord._pack are wrapped for the time of
  the probe and log their arguments), that it answers False for a non-record that quacks like one, that records of two
  different descriptors with the same identifier and the same packed values are unequal (plain and grouped), what
  RecordDescriptor equality is on constructed pairs;
* what Record.__hash__ hands to _pack and what it hands to hash() (the module-level name `hash` is shadowed for the time
  of the probe): no list / dict at any depth, dicts as frozensets; that nested containers and dicts with keys of
  different types hash, that dict key order does not matter;
* Record._pack(excluded_fields=...) leaves exactly the excluded slots out, keeping the order;
* GroupedRecord._pack accepts excluded_fields and returns (name, tuple of the members' _pack with the same arguments);
* ignore_fields_for_comparison puts the previous configuration back however the block ends: normally, with an Exception,
  KeyboardInterrupt, SystemExit, by closing / collecting a suspended generator that holds the scope, by return / break /
  continue; alone and nested (the outer override is back), with an empty and a non-empty prior configuration;
* which classes define __eq__/__ne__/__hash__, RESERVED_FIELDS, the environment variable (observed in a fresh
  interpreter when the source spelling is not recognised).

The `ast` recognisers are CROSS-CHECKS: they follow a call of a module-level helper one level and resolve module
constants; when a recogniser understands the source and CONTRADICTS the observation the generator fails closed
(Unsupported); when it does not understand the spelling the observation is used and a note is written into the
generated file.  A probe that itself cannot be carried out (exception in the probe machinery) fails closed.
"""
from __future__ import annotations

import ast
import inspect
import textwrap

from vf.coqlit import cbool, clist, cstr
from vf.factlib import GEN, HEADER, Unsupported, write_if_changed

IGN = "IGNORE_FIELDS_FOR_COMPARISON"


def _fdef(fn):
    fn = inspect.unwrap(fn)
    src = textwrap.dedent(inspect.getsource(fn))
    node = ast.parse(src).body[0]
    if not isinstance(node, ast.FunctionDef):
        raise Unsupported("not a def: %r" % (fn,))
    return node


def _body(node):
    body = list(node.body)
    if body and isinstance(body[0], ast.Expr) and isinstance(body[0].value, ast.Constant) and isinstance(body[0].value.value, str):
        body = body[1:]
    return body


def _name(node, ident=None):
    return isinstance(node, ast.Name) and (ident is None or node.id == ident)


def _subst(node, env):
    """replace local names bound by simple assignments"""
    class T(ast.NodeTransformer):
        def visit_Name(self, n):
            if isinstance(n.ctx, ast.Load) and n.id in env:
                return env[n.id]
            return n
    import copy
    return T().visit(copy.deepcopy(node))


BASE = None     # the module under inspection (for following helpers / resolving constants)


def _inline_helper(node):
    """f(x) where f is a module-level function `def f(p): [doc] return <expr>` -> <expr>[p := x]  (one level)"""
    if not (isinstance(node, ast.Call) and isinstance(node.func, ast.Name) and len(node.args) == 1 and not node.keywords and BASE is not None):
        return None
    fn = getattr(BASE, node.func.id, None)
    if not inspect.isfunction(fn) or getattr(fn, "__module__", None) != BASE.__name__:
        return None
    try:
        fd = _fdef(fn)
    except Exception:  # noqa
        return None
    b = _body(fd)
    if len(fd.args.args) != 1 or len(b) != 1 or not isinstance(b[0], ast.Return) or b[0].value is None:
        return None
    return _subst(b[0].value, {fd.args.args[0].arg: node.args[0]})


def _pack_call(node, recv=None):
    """<recv>._pack(...) -> (receiver name, passes the ignore set) else None; a module-level helper that returns such a
    call on its parameter is followed one level"""
    inl = _inline_helper(node)
    if inl is not None:
        node = inl
    if not (isinstance(node, ast.Call) and isinstance(node.func, ast.Attribute) and node.func.attr == "_pack"
            and isinstance(node.func.value, ast.Name)):
        return None
    who = node.func.value.id
    if recv is not None and who != recv:
        return None
    passes = None
    if len(node.args) >= 2:
        passes = node.args[1]
    for kw in node.keywords:
        if kw.arg is None:
            raise Unsupported("**kwargs in a _pack call (line %d)" % node.lineno)
        if kw.arg == "excluded_fields":
            passes = kw.value
    return who, passes


def _is_ign(node):
    return _name(node, IGN) or (isinstance(node, ast.Attribute) and node.attr == IGN)


def eq_facts(base):
    fn = base.Record.__dict__.get("__eq__")
    if fn is None:
        raise Unsupported("Record defines no __eq__")
    node = _fdef(fn)
    args = [a.arg for a in node.args.args]
    if len(args) != 2:
        raise Unsupported("Record.__eq__ arity")
    me, other = args
    body = _body(node)
    guard = False
    if body and isinstance(body[0], ast.If):
        t = body[0].test
        if (isinstance(t, ast.UnaryOp) and isinstance(t.op, ast.Not) and isinstance(t.operand, ast.Call)
                and _name(t.operand.func, "isinstance") and len(t.operand.args) == 2 and _name(t.operand.args[0], other)
                and _name(t.operand.args[1], "Record") and not body[0].orelse and len(body[0].body) == 1
                and isinstance(body[0].body[0], ast.Return)):
            rv = body[0].body[0].value
            if isinstance(rv, ast.Constant) and rv.value is False:
                guard = True
            elif _name(rv, "NotImplemented"):
                guard = True      # Python then tries the reflected call and falls back to identity: False for non-records
            else:
                raise Unsupported("Record.__eq__: the isinstance guard returns something else than False")
            body = body[1:]
        else:
            raise Unsupported("Record.__eq__: unrecognised leading `if` (line %d)" % body[0].lineno)
    descs = False
    if body and isinstance(body[0], ast.If):
        st = body[0]
        t = st.test

        def dcall(n, who):
            return (isinstance(n, ast.Call) and isinstance(n.func, ast.Attribute) and n.func.attr == "_descriptors"
                    and _name(n.func.value, who) and not n.args and not n.keywords)
        if (isinstance(t, ast.Compare) and len(t.ops) == 1 and isinstance(t.ops[0], ast.NotEq)
                and ((dcall(t.left, me) and dcall(t.comparators[0], other)) or (dcall(t.left, other) and dcall(t.comparators[0], me)))
                and not st.orelse and len(st.body) == 1 and isinstance(st.body[0], ast.Return)
                and isinstance(st.body[0].value, ast.Constant) and st.body[0].value.value is False):
            descs = True
            body = body[1:]
        else:
            raise Unsupported("Record.__eq__: unrecognised second `if` (line %d)" % st.lineno)
    env = {}
    while body and isinstance(body[0], ast.Assign) and len(body[0].targets) == 1 and isinstance(body[0].targets[0], ast.Name):
        env[body[0].targets[0].id] = _subst(body[0].value, env)
        body = body[1:]
    if not (len(body) == 1 and isinstance(body[0], ast.Return) and body[0].value is not None):
        raise Unsupported("Record.__eq__: body is not [guard] [assignments] return <a> == <b>")
    e = _subst(body[0].value, env)
    if not (isinstance(e, ast.Compare) and len(e.ops) == 1 and isinstance(e.ops[0], ast.Eq)):
        raise Unsupported("Record.__eq__ does not return a single == comparison")
    sides = {}
    for operand in (e.left, e.comparators[0]):
        pc = _pack_call(operand)
        if pc is None or pc[0] not in (me, other) or pc[0] in sides:
            raise Unsupported("Record.__eq__ does not compare self._pack(..) with other._pack(..)")
        who, passes = pc
        if passes is None or (isinstance(passes, ast.Constant) and passes.value is None):
            sides[who] = False
        elif _is_ign(passes):
            sides[who] = True
        else:
            raise Unsupported("Record.__eq__: excluded_fields argument is neither the global ignore set nor absent")
    if descs:
        _descriptor_methods(base)
    return guard, sides[me], sides[other], descs


def _descriptor_methods(base):
    """Record._descriptors returns (self._desc,), GroupedRecord._descriptors returns tuple(self.descriptors),
    GroupedRecord.__init__ appends every member's _desc to self.descriptors, and RecordDescriptor.__eq__ compares
    name and field tuples"""
    fn = base.Record.__dict__.get("_descriptors")
    if fn is None:
        raise Unsupported("Record._descriptors is not defined")
    b = _body(_fdef(fn))
    ok = (len(b) == 1 and isinstance(b[0], ast.Return) and isinstance(b[0].value, ast.Tuple) and len(b[0].value.elts) == 1
          and isinstance(b[0].value.elts[0], ast.Attribute) and b[0].value.elts[0].attr == "_desc" and _name(b[0].value.elts[0].value, "self"))
    if not ok:
        raise Unsupported("Record._descriptors is not `return (self._desc,)`")
    fn = base.GroupedRecord.__dict__.get("_descriptors")
    if fn is None:
        raise Unsupported("GroupedRecord._descriptors is not defined (a grouped record would be compared by its flat descriptor)")
    b = _body(_fdef(fn))
    ok = (len(b) == 1 and isinstance(b[0], ast.Return) and isinstance(b[0].value, ast.Call) and _name(b[0].value.func, "tuple")
          and len(b[0].value.args) == 1 and isinstance(b[0].value.args[0], ast.Attribute) and b[0].value.args[0].attr == "descriptors"
          and _name(b[0].value.args[0].value, "self"))
    if not ok:
        raise Unsupported("GroupedRecord._descriptors is not `return tuple(self.descriptors)`")
    init = _fdef(base.GroupedRecord.__dict__["__init__"])
    rec_appends = desc_appends = 0
    for sub in ast.walk(init):
        if (isinstance(sub, ast.Call) and isinstance(sub.func, ast.Attribute) and sub.func.attr == "append"
                and isinstance(sub.func.value, ast.Attribute) and _name(sub.func.value.value, "self") and len(sub.args) == 1):
            if sub.func.value.attr == "records" and _name(sub.args[0]):
                rec_appends += 1
            if (sub.func.value.attr == "descriptors" and isinstance(sub.args[0], ast.Attribute) and sub.args[0].attr == "_desc"
                    and _name(sub.args[0].value)):
                desc_appends += 1
    if rec_appends == 0 or rec_appends != desc_appends:
        raise Unsupported("GroupedRecord.__init__ does not append a member's _desc for every member it appends")
    fn = base.RecordDescriptor.__dict__.get("__eq__")
    if fn is None:
        raise Unsupported("RecordDescriptor defines no __eq__")
    node = _fdef(fn)
    me, other = [a.arg for a in node.args.args]
    b = _body(node)
    ret = None
    if (len(b) == 2 and isinstance(b[0], ast.If) and isinstance(b[0].test, ast.Call) and _name(b[0].test.func, "isinstance")
            and _name(b[0].test.args[0], other) and len(b[0].body) == 1 and isinstance(b[0].body[0], ast.Return)
            and isinstance(b[1], ast.Return) and (_name(b[1].value, "NotImplemented") or (isinstance(b[1].value, ast.Constant) and b[1].value.value is False))):
        ret = b[0].body[0].value
    if not (isinstance(ret, ast.BoolOp) and isinstance(ret.op, ast.And) and len(ret.values) == 2):
        raise Unsupported("RecordDescriptor.__eq__ is not `if isinstance(other, RecordDescriptor): return <a> and <b>` + NotImplemented")

    def cmp_of(n):
        if not (isinstance(n, ast.Compare) and len(n.ops) == 1 and isinstance(n.ops[0], ast.Eq)):
            return None
        l, r = n.left, n.comparators[0]
        if (isinstance(l, ast.Attribute) and isinstance(r, ast.Attribute) and l.attr == r.attr == "name"
                and {getattr(l.value, "id", None), getattr(r.value, "id", None)} == {me, other}):
            return "name"
        if (isinstance(l, ast.Call) and isinstance(r, ast.Call) and isinstance(l.func, ast.Attribute) and isinstance(r.func, ast.Attribute)
                and l.func.attr == r.func.attr == "get_field_tuples" and not l.args and not r.args
                and {getattr(l.func.value, "id", None), getattr(r.func.value, "id", None)} == {me, other}):
            return "fields"
        if (isinstance(l, ast.Attribute) and isinstance(r, ast.Attribute) and l.attr == r.attr == "_field_tuples"
                and {getattr(l.value, "id", None), getattr(r.value, "id", None)} == {me, other}):
            return "fields"
        return None
    if sorted(filter(None, (cmp_of(v) for v in ret.values))) != ["fields", "name"]:
        raise Unsupported("RecordDescriptor.__eq__ does not compare exactly name and field tuples")


def pack_facts(base):
    node = _fdef(base.Record.__dict__["_pack"])
    args = [a.arg for a in node.args.args]
    if args[:1] != ["self"] or "excluded_fields" not in args or args.index("excluded_fields") != 2:
        raise Unsupported("Record._pack signature is not (self, unversioned, excluded_fields)")
    loops = [s for s in _body(node) if isinstance(s, ast.For)]
    if len(loops) != 1:
        raise Unsupported("Record._pack: expected exactly one for loop")
    loop = loops[0]
    if not (_name(loop.target) and isinstance(loop.iter, ast.Attribute) and loop.iter.attr == "__slots__"):
        raise Unsupported("Record._pack does not loop over self.__slots__")
    k = loop.target.id

    def is_excl_test(t):
        parts = t.values if isinstance(t, ast.BoolOp) and isinstance(t.op, ast.And) else [t]
        found = False
        for p in parts:
            if _name(p, "excluded_fields"):
                continue
            if (isinstance(p, ast.Compare) and len(p.ops) == 1 and isinstance(p.ops[0], ast.In) and _name(p.left, k)
                    and _name(p.comparators[0], "excluded_fields")):
                found = True
                continue
            return False
        return found

    # the list(s) the loop fills: names bound to [] before the loop
    list_names = {st.targets[0].id for st in _body(node) if isinstance(st, ast.Assign) and len(st.targets) == 1
                  and _name(st.targets[0]) and isinstance(st.value, ast.List) and not st.value.elts}
    skip_at = None
    append_at = None
    for i, st in enumerate(loop.body):
        if isinstance(st, ast.If) and is_excl_test(st.test):
            if not (len(st.body) == 1 and isinstance(st.body[0], ast.Continue) and not st.orelse):
                raise Unsupported("Record._pack: the excluded-field test does not just `continue` (line %d)" % st.lineno)
            if skip_at is None:
                skip_at = i
        for sub in ast.walk(st):
            if (isinstance(sub, ast.Call) and isinstance(sub.func, ast.Attribute) and sub.func.attr in ("append", "extend", "insert")
                    and _name(sub.func.value) and sub.func.value.id in list_names):
                if append_at is None:
                    append_at = i
    if append_at is None:
        raise Unsupported("Record._pack: no <list>.append in the loop")
    if skip_at is None:
        # is the test there at all (nested somewhere)?  then we do not understand the shape
        for sub in ast.walk(loop):
            if isinstance(sub, ast.Name) and sub.id == "excluded_fields":
                raise Unsupported("Record._pack: excluded_fields is used in a shape that is not understood")
        return False
    return skip_at < append_at


def _freeze_helper_facts(base, helper_name):
    fn = getattr(base, helper_name, None)
    if fn is None or not inspect.isfunction(fn):
        return None
    node = _fdef(fn)
    if len(node.args.args) != 1:
        return None
    v = node.args.args[0].arg
    seq_deep = dict_deep = None
    unordered = None
    seen_seq_kinds = set()

    def recursive_elt(gen, var_ok):
        """<helper>(x) for x in ... -> True ; x for x in ... -> False"""
        if not isinstance(gen, (ast.GeneratorExp, ast.ListComp)) or len(gen.generators) != 1 or gen.generators[0].ifs:
            raise Unsupported("%s: unrecognised comprehension (line %d)" % (helper_name, gen.lineno))
        return gen.elt

    for st in _body(node):
        if isinstance(st, ast.If) and not st.orelse and len(st.body) == 1 and isinstance(st.body[0], ast.Return):
            t = st.test
            if not (isinstance(t, ast.Call) and _name(t.func, "isinstance") and len(t.args) == 2 and _name(t.args[0], v)):
                raise Unsupported("%s: unrecognised test (line %d)" % (helper_name, st.lineno))
            kinds = t.args[1].elts if isinstance(t.args[1], ast.Tuple) else [t.args[1]]
            kinds = [x.id for x in kinds if isinstance(x, ast.Name)]
            rv = st.body[0].value
            if not (isinstance(rv, ast.Call) and isinstance(rv.func, ast.Name) and len(rv.args) == 1 and not rv.keywords):
                raise Unsupported("%s: unrecognised return (line %d)" % (helper_name, st.lineno))
            elt = recursive_elt(rv.args[0], None)
            if set(kinds) <= {"list", "tuple"} and kinds:
                if rv.func.id != "tuple":
                    raise Unsupported("%s: a sequence is not turned into a tuple" % helper_name)
                seen_seq_kinds |= set(kinds)
                gv = rv.args[0].generators[0]
                if not (_name(gv.iter, v) and _name(gv.target)):
                    raise Unsupported("%s: sequence comprehension does not run over the value" % helper_name)
                x = gv.target.id
                if isinstance(elt, ast.Call) and _name(elt.func, helper_name) and len(elt.args) == 1 and _name(elt.args[0], x):
                    d = True
                elif _name(elt, x):
                    d = False
                else:
                    raise Unsupported("%s: unrecognised sequence element (line %d)" % (helper_name, st.lineno))
                seq_deep = d if seq_deep is None else (seq_deep and d)
            elif kinds == ["dict"]:
                if rv.func.id not in ("tuple", "frozenset"):
                    raise Unsupported("%s: a dict is turned into %s" % (helper_name, rv.func.id))
                unordered = rv.func.id == "frozenset"
                gv = rv.args[0].generators[0]
                if not (isinstance(gv.iter, ast.Call) and isinstance(gv.iter.func, ast.Attribute) and gv.iter.func.attr == "items"
                        and _name(gv.iter.func.value, v) and isinstance(gv.target, ast.Tuple) and len(gv.target.elts) == 2
                        and all(_name(e) for e in gv.target.elts)):
                    raise Unsupported("%s: dict comprehension does not run over value.items()" % helper_name)
                kk, xx = (e.id for e in gv.target.elts)
                if not (isinstance(elt, ast.Tuple) and len(elt.elts) == 2 and _name(elt.elts[0], kk)):
                    raise Unsupported("%s: dict element is not (key, ...)" % helper_name)
                second = elt.elts[1]
                if isinstance(second, ast.Call) and _name(second.func, helper_name) and len(second.args) == 1 and _name(second.args[0], xx):
                    dict_deep = True
                elif _name(second, xx):
                    dict_deep = False
                else:
                    raise Unsupported("%s: unrecognised dict value (line %d)" % (helper_name, st.lineno))
            else:
                raise Unsupported("%s: unrecognised kinds %r" % (helper_name, kinds))
        elif isinstance(st, ast.Return) and _name(st.value, v):
            continue
        else:
            raise Unsupported("%s: unrecognised statement (line %d)" % (helper_name, st.lineno))
    if seq_deep is None or seen_seq_kinds != {"list", "tuple"} or dict_deep is None:
        # a helper that leaves lists, tuples or dicts alone does not freeze deeply
        return dict(deep=False, unordered=bool(unordered))
    return dict(deep=bool(seq_deep and dict_deep), unordered=bool(unordered))


def hash_facts(base):
    fn = base.Record.__dict__.get("__hash__")
    if fn is None:
        raise Unsupported("Record defines no __hash__")
    node = _fdef(fn)
    packs = []
    for sub in ast.walk(node):
        pc = _pack_call(sub, "self") if isinstance(sub, ast.Call) else None
        if pc:
            packs.append(pc[1])
    if len(packs) != 1:
        raise Unsupported("Record.__hash__: expected exactly one self._pack call")
    p = packs[0]
    if p is None or (isinstance(p, ast.Constant) and p.value is None):
        passes = False
    elif _is_ign(p):
        passes = True
    else:
        raise Unsupported("Record.__hash__: excluded_fields argument is neither the global ignore set nor absent")
    # hash(<helper>(self._pack(...)))
    deep = False
    unordered = False
    body = _body(node)
    if len(body) == 1 and isinstance(body[0], ast.Return):
        e = body[0].value
        if (isinstance(e, ast.Call) and _name(e.func, "hash") and len(e.args) == 1 and isinstance(e.args[0], ast.Call)
                and isinstance(e.args[0].func, ast.Name) and len(e.args[0].args) == 1 and _pack_call(e.args[0].args[0], "self")):
            hf = _freeze_helper_facts(base, e.args[0].func.id)
            if hf is None:
                raise Unsupported("Record.__hash__: freezing helper %s not found" % e.args[0].func.id)
            deep, unordered = hf["deep"], hf["unordered"]
        elif isinstance(e, ast.Call) and _name(e.func, "hash") and len(e.args) == 1 and _pack_call(e.args[0], "self"):
            deep = False          # hash(self._pack(...)): nothing is frozen
        else:
            raise Unsupported("Record.__hash__: unrecognised return expression")
    else:
        # a hand-written conversion loop (as before the helper existed): it handled one level only.  Recognise it by the
        # absence of any recursion; anything that calls a module-level helper is not understood.
        for sub in ast.walk(node):
            if isinstance(sub, ast.Call) and isinstance(sub.func, ast.Name) and inspect.isfunction(getattr(base, sub.func.id, None)):
                raise Unsupported("Record.__hash__: unrecognised multi-statement body calling %s" % sub.func.id)
        deep = False
    return passes, deep, unordered


def grouped_facts(base):
    fn = base.GroupedRecord.__dict__.get("_pack")
    if fn is None:
        return True, True        # inherits Record._pack
    node = _fdef(fn)
    args = [a.arg for a in node.args.args] + [a.arg for a in node.args.kwonlyargs]
    accepts = "excluded_fields" in args or node.args.kwarg is not None
    calls = []
    for sub in ast.walk(node):
        if isinstance(sub, ast.Call) and isinstance(sub.func, ast.Attribute) and sub.func.attr == "_pack":
            calls.append(sub)
    if not calls:
        raise Unsupported("GroupedRecord._pack does not pack its members")
    forwards = accepts
    for c in calls:
        ok = False
        for kw in c.keywords:
            if kw.arg == "excluded_fields" and _name(kw.value, "excluded_fields"):
                ok = True
            if kw.arg is None and node.args.kwarg is not None and _name(kw.value, node.args.kwarg.arg):
                ok = True
        if len(c.args) >= 2 and _name(c.args[1], "excluded_fields"):
            ok = True
        forwards = forwards and ok
    body = _body(node)
    env = {}
    while body and isinstance(body[0], ast.Assign) and len(body[0].targets) == 1 and _name(body[0].targets[0]):
        env[body[0].targets[0].id] = _subst(body[0].value, env)
        body = body[1:]
    if not (len(body) == 1 and isinstance(body[0], ast.Return) and isinstance(body[0].value, ast.Tuple) and len(body[0].value.elts) == 2):
        raise Unsupported("GroupedRecord._pack does not return a pair")
    first, second = _subst(body[0].value, env).elts
    calls = [c for c in ast.walk(second) if isinstance(c, ast.Call) and isinstance(c.func, ast.Attribute) and c.func.attr == "_pack"]
    if not (isinstance(first, ast.Attribute) and first.attr == "name" and _name(first.value, "self")):
        raise Unsupported("GroupedRecord._pack: first component is not self.name")
    if isinstance(second, ast.Call) and _name(second.func, "tuple") and len(second.args) == 1 and isinstance(second.args[0], ast.Call) \
            and _name(second.args[0].func, "list") and len(second.args[0].args) == 1:
        second = ast.Call(func=second.func, args=second.args[0].args, keywords=[])
    if not (isinstance(second, ast.Call) and _name(second.func, "tuple") and len(second.args) == 1
            and isinstance(second.args[0], (ast.GeneratorExp, ast.ListComp)) and len(second.args[0].generators) == 1
            and not second.args[0].generators[0].ifs and isinstance(second.args[0].generators[0].iter, ast.Attribute)
            and second.args[0].generators[0].iter.attr == "records" and second.args[0].elt in calls):
        raise Unsupported("GroupedRecord._pack: second component is not tuple(<member>._pack(..) for <member> in self.records)")
    return accepts, forwards


def ctx_facts(base):
    node = _fdef(base.ignore_fields_for_comparison)
    body = _body(node)
    saved = None
    for st in body:
        if isinstance(st, ast.Assign) and len(st.targets) == 1 and _name(st.targets[0]) and _is_ign(st.value):
            saved = st.targets[0].id
    if saved is None:
        raise Unsupported("ignore_fields_for_comparison does not save the current ignore set")

    def restores(stmts):
        for st in stmts:
            for sub in ast.walk(st):
                if (isinstance(sub, ast.Call) and _name(sub.func, "set_ignored_fields_for_comparison") and len(sub.args) == 1
                        and _name(sub.args[0], saved)):
                    return True
                if isinstance(sub, ast.Assign) and any(_name(t, IGN) for t in sub.targets) and _name(sub.value, saved):
                    return True
        return False

    def has_yield(stmts):
        return any(isinstance(sub, (ast.Yield, ast.YieldFrom)) for st in stmts for sub in ast.walk(st))

    if not has_yield(body):
        raise Unsupported("ignore_fields_for_comparison has no yield")
    in_finally = False
    for st in body:
        if isinstance(st, ast.Try) and has_yield(st.body):
            if st.handlers:
                raise Unsupported("ignore_fields_for_comparison: except handlers around the yield are not understood")
            if restores(st.finalbody):
                in_finally = True
    if not in_finally and not restores(body):
        raise Unsupported("ignore_fields_for_comparison never restores the saved ignore set")
    # the setter really assigns the global
    sn = _fdef(base.set_ignored_fields_for_comparison)
    sb = _body(sn)
    env = {}
    rest = []
    for st in sb:
        if (isinstance(st, ast.Assign) and len(st.targets) == 1 and _name(st.targets[0]) and st.targets[0].id != IGN):
            env[st.targets[0].id] = _subst(st.value, env)
        else:
            rest.append(st)
    sb = rest
    val = _subst(sb[1].value, env) if len(sb) == 2 and isinstance(sb[1], ast.Assign) else None
    ok = (len(sb) == 2 and isinstance(sb[0], ast.Global) and sb[0].names == [IGN] and isinstance(sb[1], ast.Assign)
          and len(sb[1].targets) == 1 and _name(sb[1].targets[0], IGN) and isinstance(val, ast.Call)
          and _name(val.func, "set") and len(val.args) == 1 and _name(val.args[0], sn.args.args[0].arg))
    if not ok:
        raise Unsupported("set_ignored_fields_for_comparison is not `global X; X = set(arg)`")
    return in_finally


def env_var(base):
    tree = ast.parse(open(base.__file__).read())
    names = []
    for st in tree.body:
        if isinstance(st, ast.If) and any(isinstance(s, ast.Assign) and any(_name(t, IGN) for t in s.targets) for s in st.body):
            for sub in ast.walk(st.test):
                if (isinstance(sub, ast.Call) and isinstance(sub.func, ast.Attribute) and sub.func.attr in ("get", "getenv") and sub.args):
                    a = sub.args[0]
                    if isinstance(a, ast.Constant) and isinstance(a.value, str):
                        names.append(a.value)
                    elif _name(a) and isinstance(getattr(base, a.id, None), str):
                        names.append(getattr(base, a.id))       # a module constant
    if len(names) != 1:
        raise Unsupported("the environment variable that initialises the ignore set was not found")
    return names[0]


def env_var_observed(candidate="FLOW_RECORD_IGNORE"):
    """a fresh interpreter started with <candidate>=p,q has the ignore set {p, q}"""
    import os
    import subprocess
    import sys
    env = dict(os.environ)
    env[candidate] = "vf_p,vf_q"
    try:
        out = subprocess.run([sys.executable, "-c", "import flow.record.base as b; print(sorted(b.IGNORE_FIELDS_FOR_COMPARISON))"],
                             env=env, capture_output=True, text=True, timeout=60).stdout
    except Exception as e:  # noqa
        raise Unsupported("could not observe the environment variable: %r" % (e,))
    if "['vf_p', 'vf_q']" in out:
        return candidate
    raise Unsupported("the environment variable %s does not initialise the ignore set (observed %r)" % (candidate, out.strip()[:80]))


def special_methods(base):
    """which classes define the special methods: nothing but Record may define __eq__/__hash__, nobody __ne__"""
    from flow.record import RecordDescriptor
    sample = RecordDescriptor("vf/c12probe", [("string", "a")]).recordType
    ne_default = all("__ne__" not in c.__dict__ for c in (base.Record, base.GroupedRecord, sample))
    for c in (base.GroupedRecord, sample):
        if "__eq__" in c.__dict__:
            raise Unsupported("%s defines its own __eq__" % c.__name__)
    hashable = all(c.__hash__ is base.Record.__hash__ for c in (base.GroupedRecord, sample))
    return ne_default, hashable


# ------------------------------------------------------------------------------------------------------
# observation: the facts as the running code shows them

class _Duck:
    """not a Record, but offers what Record.__eq__ asks of its operand"""

    def __init__(self, rec):
        self._rec = rec

    def _pack(self, *a, **k):
        return self._rec._pack(*a, **k)

    def _descriptors(self):
        return self._rec._descriptors()

    def __getattr__(self, name):
        return getattr(self._rec, name)


def _has_container(v):
    if isinstance(v, (list, dict)):
        return True
    if isinstance(v, (tuple, frozenset)):
        return any(_has_container(x) for x in v)
    return False


def _has_ordered_dict_items(frozen, original):
    """was some dict of `original` turned into something else than a frozenset in `frozen`? (parallel walk)"""
    if isinstance(original, dict):
        return not isinstance(frozen, frozenset)
    if isinstance(original, (list, tuple)) and isinstance(frozen, tuple) and len(frozen) == len(original):
        return any(_has_ordered_dict_items(f, o) for f, o in zip(frozen, original))
    return False


def observe(base):
    import datetime as pydt

    from flow.record import GroupedRecord, RecordDescriptor
    T0 = pydt.datetime(2020, 1, 2, 3, 4, 5, tzinfo=pydt.timezone.utc)
    T1 = pydt.datetime(2021, 1, 2, 3, 4, 5, tzinfo=pydt.timezone.utc)
    obs = {}
    saved_ignore = base.IGNORE_FIELDS_FOR_COMPARISON
    saved_hash = base.__dict__.get("hash", None)
    had_hash = "hash" in base.__dict__
    orig_rpack, orig_gpack = base.Record.__dict__.get("_pack"), base.GroupedRecord.__dict__.get("_pack")
    log = []
    hashed = []

    def wrap(orig):
        def _pack(self, *a, **k):
            ex = k["excluded_fields"] if "excluded_fields" in k else (a[1] if len(a) > 1 else None)
            log.append((id(self), None if ex is None else set(ex)))
            return orig(self, *a, **k)
        return _pack

    def logging_hash(x):
        hashed.append(x)
        return hash(x)

    def calls_of(obj):
        return [ex for i, ex in log if i == id(obj)]

    try:
        D = RecordDescriptor("vf/c12probe", [("string", "a"), ("varint", "b"), ("string[]", "l"), ("command", "c"),
                                             ("dictlist", "d"), ("stringlist", "s"), ("record", "r"), ("command[]", "cs")])
        I = RecordDescriptor("vf/c12inner", [("string", "a"), ("varint[]", "n")])

        def mk(a="x", b=1, gen=T0, d=None, inner_a="i"):
            return D(a=a, b=b, l=["p", "q"], c="ls -l /tmp", d=d if d is not None else [{"k": 1, "m": [1, {"z": 2}]}],
                     s=[[1, [2, 3]], {"u": [4]}], r=I(a=inner_a, n=[1, 2], _generated=T0), cs=["a b", "c d e"],
                     _source="s", _classification=None, _generated=gen)
        # ---------------- what __eq__ and __hash__ hand to _pack
        if orig_rpack is None:
            raise Unsupported("Record defines no _pack")
        base.Record._pack = wrap(orig_rpack)
        if orig_gpack is not None:
            base.GroupedRecord._pack = wrap(orig_gpack)
        probe_ign = {"a", "_generated"}
        base.IGNORE_FIELDS_FOR_COMPARISON = set(probe_ign)
        x, y = mk(a="x", gen=T0), mk(a="y", gen=T1)
        del log[:]
        r_eq = x == y
        obs["eq_ign_left"] = bool(calls_of(x)) and all(c == probe_ign for c in calls_of(x))
        obs["eq_ign_right"] = bool(calls_of(y)) and all(c == probe_ign for c in calls_of(y))
        if not calls_of(x) or not calls_of(y):
            raise Unsupported("probe: x == y did not call _pack on both operands")
        if (obs["eq_ign_left"] and obs["eq_ign_right"]) != (r_eq is True):
            raise Unsupported("probe: what __eq__ hands to _pack (%r, %r) does not explain its answer %r for records that differ in ignored fields only"
                              % (calls_of(x), calls_of(y), r_eq))
        if (x == mk(a="x", b=2, gen=T0)) is not False:
            obs["eq_ign_left"] = obs["eq_ign_right"] = False   # a kept field is not compared: not the contract at all
        del log[:]
        base.hash = logging_hash
        del hashed[:]
        try:
            hx_, hy_ = hash(x), hash(y)
            obs["hash_raised"] = None
        except Exception as e:  # noqa
            hx_ = hy_ = None
            obs["hash_raised"] = "%s: %s" % (type(e).__name__, e)
        cx = calls_of(x)
        obs["hash_ign"] = bool(cx) and all(c == probe_ign for c in cx)
        if hx_ is not None and obs["hash_ign"] != (hx_ == hy_):
            raise Unsupported("probe: what __hash__ hands to _pack (%r) does not explain hash equality %r of records that differ in ignored fields only"
                              % (cx, hx_ == hy_))
        base.IGNORE_FIELDS_FOR_COMPARISON = set()
        # ---------------- what is handed to hash(): frozen at every depth, dicts unordered
        probes = [mk(), mk(d=[{1: "one", "two": {None: [1, {b"k": 2, "k": 3}]}}]),
                  RecordDescriptor("vf/c12cmd", [("command", "c"), ("string", "a")])(c="ls -l", a="no list at top level", _generated=T0),
                  GroupedRecord("vf/g", [mk(), I(a="m", n=[3], _generated=T0)])]
        deep = True
        unordered = True
        why = []
        for pr in probes:
            del hashed[:]
            try:
                hash(pr)
            except Exception as e:  # noqa
                why.append("hash(%r) raised %s: %s" % (pr, type(e).__name__, e))
                # which of the two?  a value still holding a list/dict -> not deep; else the dict conversion
                if "unhashable" in str(e):
                    deep = False
                else:
                    unordered = False
                continue
            top = [h for h in hashed if isinstance(h, tuple)]
            if top:
                packed = pr._pack()
                if any(_has_container(h) for h in top):
                    deep = False
                if _has_ordered_dict_items(top[0], _strip_records(packed)):
                    unordered = False
        p1 = D(a="x", d=[{"a": 1, "b": [2, {"x": 1, "y": 2}]}], _generated=T0)
        p2 = D(a="x", d=[{"b": [2, {"y": 2, "x": 1}], "a": 1}], _generated=T0)
        try:
            if (p1 == p2) and hash(p1) != hash(p2):
                unordered = False
                why.append("records that differ in dict key order only hash differently")
        except Exception as e:  # noqa
            unordered = False
            why.append("hash raised %s" % e)
        obs["hash_deep"], obs["hash_unordered"], obs["hash_why"] = deep, unordered, why
        # ---------------- _pack(excluded_fields=...) leaves exactly the excluded slots out
        slots = list(x.__slots__)
        full = orig_rpack(x)
        ok = isinstance(full, tuple) and len(full) == 2 and len(full[1]) == len(slots)
        if not ok:
            raise Unsupported("probe: Record._pack() is not (identifier, one value per slot)")
        skip = True
        for ex in (["a"], {"b", "_generated"}, ("l", "c", "_source", "_version"), ["nope"], slots):
            got = orig_rpack(x, excluded_fields=ex)
            want = tuple(v for k, v in zip(slots, full[1]) if k not in ex)
            if not (got[0] == full[0] and len(got[1]) == len(want) and all(_same(g, w) for g, w in zip(got[1], want))):
                skip = False
        obs["skip"] = skip
        # ---------------- GroupedRecord._pack
        g = GroupedRecord("vf/g", [mk(), I(a="m", n=[3], _generated=T0)])
        gp = orig_gpack if orig_gpack is not None else orig_rpack
        try:
            got = gp(g, excluded_fields={"a"})
            obs["grp_accepts"] = True
        except TypeError:
            got = None
            obs["grp_accepts"] = False
        if got is not None:
            want = (g.name, tuple(orig_rpack(m, excluded_fields={"a"}) for m in g.records))
            plain = (g.name, tuple(orig_rpack(m) for m in g.records))
            if _same(got, want):
                obs["grp_forwards"] = True
            elif _same(got, plain):
                obs["grp_forwards"] = False
            else:
                raise Unsupported("probe: GroupedRecord._pack(excluded_fields={'a'}) is neither (name, members packed with it) nor (name, members packed without)")
        else:
            obs["grp_forwards"] = False
        # ---------------- the isinstance guard
        guard = True
        for other in (5, None, "s", (1, 2), x._pack(), object(), _Duck(x)):
            try:
                if (x == other) is not False:
                    guard = False
            except Exception:  # noqa
                guard = False
        obs["guard"] = guard
        # ---------------- descriptors: same identifier, same packed values, other descriptor
        A = RecordDescriptor("vf/col", [("string", "a"), ("string", "bstringc")])
        B = RecordDescriptor("vf/col", [("string", "astringb"), ("string", "c")])
        A2 = RecordDescriptor("vf/col", [("string", "a"), ("string", "bstringc")])
        ra, rb = A("v", "w", _generated=T0), B("v", "w", _generated=T0)
        if A.identifier != B.identifier or not _same(orig_rpack(ra), orig_rpack(rb)):
            obs["descs"] = None        # the collision no longer exists (another hash input): nothing to observe here
        else:
            obs["descs"] = ((ra == rb) is False and (rb == ra) is False
                            and (GroupedRecord("g", [ra]) == GroupedRecord("g", [rb])) is False
                            and (A == B) is False and (A != B) is True)
        obs["descs_same"] = (A == A2) is True and (A != A2) is False and (ra == A2("v", "w", _generated=T0)) is True \
            and (A == RecordDescriptor("vf/col", [("string", "a")])) is False and (A == RecordDescriptor("vf/colx", [("string", "a"), ("string", "bstringc")])) is False
        # ---------------- the scoped override: every way a `with` block can end
        obs["scope"] = observe_scope(base)
        return obs
    finally:
        if orig_rpack is not None:
            base.Record._pack = orig_rpack
        if orig_gpack is not None:
            base.GroupedRecord._pack = orig_gpack
        elif "_pack" in base.GroupedRecord.__dict__:
            del base.GroupedRecord._pack
        if had_hash:
            base.hash = saved_hash
        elif "hash" in base.__dict__:
            del base.__dict__["hash"]
        base.IGNORE_FIELDS_FOR_COMPARISON = saved_ignore


SCOPE_KINDS = ["normal", "exception", "keyboard-interrupt", "system-exit", "generator-close", "generator-collected",
               "return", "break", "continue"]


def end_scope(base, arg, kind, inner=lambda: None, collect=True):
    """open `with ignore_fields_for_comparison(arg)`, run inner() inside, and end the block in the given way"""
    import gc
    cm = base.ignore_fields_for_comparison
    box = []
    if kind == "normal":
        with cm(arg):
            box.append(inner())
    elif kind in ("exception", "keyboard-interrupt", "system-exit"):
        exc = {"exception": KeyError, "keyboard-interrupt": KeyboardInterrupt, "system-exit": SystemExit}[kind]
        try:
            with cm(arg):
                box.append(inner())
                raise exc("vf probe")
        except exc:
            pass
    elif kind in ("generator-close", "generator-collected"):
        def gen():
            with cm(arg):
                box.append(inner())
                yield 1
                yield 2
        it = gen()
        next(it)
        if kind == "generator-close":
            it.close()
        else:
            del it              # CPython finalises the suspended generator at once; gc.collect() for good measure
            if collect:
                gc.collect()
    elif kind == "return":
        def f():
            with cm(arg):
                box.append(inner())
                return 1
            return 2
        f()
    elif kind in ("break", "continue"):
        for _ in range(1):
            with cm(arg):
                box.append(inner())
                if kind == "break":
                    break
                continue
    else:
        raise ValueError(kind)
    return box[0] if box else None


def observe_scope(base):
    """kind -> the previous configuration is back afterwards (empty and non-empty prior; alone and as the inner of two
    nested scopes, where the OUTER override has to be back)"""
    res = {}
    for kind in SCOPE_KINDS:
        ok = True
        for prior in (set(), {"vf_prior", "a"}):
            base.set_ignored_fields_for_comparison(set(prior))
            seen = end_scope(base, ["vf_in"], kind, lambda: set(base.IGNORE_FIELDS_FOR_COMPARISON))
            if seen != {"vf_in"}:
                raise Unsupported("probe: inside the scope the ignore set is %r" % (seen,))
            if set(base.IGNORE_FIELDS_FOR_COMPARISON) != prior:
                ok = False
            base.set_ignored_fields_for_comparison(set(prior))
            with base.ignore_fields_for_comparison(["vf_outer"]):
                end_scope(base, ("vf_in",), kind)
                if set(base.IGNORE_FIELDS_FOR_COMPARISON) != {"vf_outer"}:
                    ok = False
                base.set_ignored_fields_for_comparison(["vf_outer"])
            if kind == "normal" and set(base.IGNORE_FIELDS_FOR_COMPARISON) != prior:
                ok = False
        res[kind] = ok
    if not res["normal"]:
        raise Unsupported("probe: the ignore set is not put back even on a normal exit of the scope")
    return res


def _strip_records(v):
    """the packed value with nested record objects replaced by their own packed value (what ends up hashed)"""
    from flow.record import Record
    if isinstance(v, Record):
        return _strip_records(v._pack())
    if isinstance(v, tuple):
        return tuple(_strip_records(x) for x in v)
    if isinstance(v, list):
        return [_strip_records(x) for x in v]
    if isinstance(v, dict):
        return {k: _strip_records(x) for k, x in v.items()}
    return v


def _same(a, b):
    """structural sameness of packed values (no use of Record.__eq__)"""
    from flow.record import Record
    if isinstance(a, Record) or isinstance(b, Record):
        return a is b
    if type(a) in (tuple, list) or type(b) in (tuple, list):
        return isinstance(a, (tuple, list)) and isinstance(b, (tuple, list)) and isinstance(a, list) == isinstance(b, list) \
            and len(a) == len(b) and all(_same(p, q) for p, q in zip(a, b))
    if isinstance(a, dict) and isinstance(b, dict):
        return list(a) == list(b) and all(_same(a[k], b[k]) for k in a)
    return type(a) is type(b) and (a is b or a == b)


def _reconcile(name, observed, recogniser, notes):
    """observed fact vs the source recogniser: contradiction -> fail closed; spelling not recognised -> note"""
    try:
        rec = recogniser()
    except Unsupported as e:
        notes.append("%s: source shape not recognised (%s); observed behaviour used" % (name, e))
        return observed
    if rec != observed:
        raise Unsupported("%s: the source reads as %r but the probes observe %r" % (name, rec, observed))
    return observed


def gen_equality():
    global BASE
    import flow.record.base as base
    BASE = base
    notes = []
    try:
        obs = observe(base)
    except Unsupported:
        raise
    except Exception as e:  # the probe machinery itself failed: fail closed
        raise Unsupported("the behavioural probes could not be carried out: %s: %s" % (type(e).__name__, e))
    for w in obs.get("hash_why", []):
        notes.append("hash probe: " + w[:160])
    if obs["hash_raised"]:
        notes.append("hash probe: hash(record) raised " + obs["hash_raised"][:120])
    rec_eq = {}

    def eq_part(i):
        def f():
            if "v" not in rec_eq:
                rec_eq["v"] = eq_facts(base)
            return rec_eq["v"][i]
        return f
    rec_hash = {}

    def hash_part(i):
        def f():
            if "v" not in rec_hash:
                rec_hash["v"] = hash_facts(base)
            return rec_hash["v"][i]
        return f
    rec_grp = {}

    def grp_part(i):
        def f():
            if "v" not in rec_grp:
                rec_grp["v"] = grouped_facts(base)
            return rec_grp["v"][i]
        return f
    guard = _reconcile("__eq__ isinstance guard", obs["guard"], eq_part(0), notes)
    eq_l = _reconcile("__eq__ ignore set to self._pack", obs["eq_ign_left"], eq_part(1), notes)
    eq_r = _reconcile("__eq__ ignore set to other._pack", obs["eq_ign_right"], eq_part(2), notes)
    if obs["descs"] is None:
        eq_descs = eq_part(3)()          # the collision cannot be constructed any more: only the source can tell
        notes.append("descriptor comparison: no identifier collision constructible; source shape used")
    else:
        eq_descs = _reconcile("__eq__ descriptor comparison", bool(obs["descs"]) and bool(obs["descs_same"]), eq_part(3), notes)
    skip_first = _reconcile("_pack skips excluded slots", obs["skip"], lambda: pack_facts(base), notes)
    h_ign = _reconcile("__hash__ ignore set to _pack", obs["hash_ign"], hash_part(0), notes)
    h_deep = _reconcile("__hash__ deep freeze", obs["hash_deep"], hash_part(1), notes)
    h_unordered = _reconcile("__hash__ dict -> frozenset", obs["hash_unordered"], hash_part(2), notes)
    g_acc = _reconcile("GroupedRecord._pack accepts excluded_fields", obs["grp_accepts"], grp_part(0), notes)
    g_fwd = _reconcile("GroupedRecord._pack forwards excluded_fields", obs["grp_forwards"], grp_part(1), notes)
    sc = obs["scope"]
    c_exc = sc["exception"]
    c_base = sc["keyboard-interrupt"] and sc["system-exit"]
    c_gen = sc["generator-close"] and sc["generator-collected"]
    c_ctl = sc["return"] and sc["break"] and sc["continue"]
    try:
        in_finally = ctx_facts(base)
        if in_finally and not (c_exc and c_base and c_gen and c_ctl):
            raise Unsupported("scope: the source restores in a `finally` but the probes observe %r" % (sc,))
        if not in_finally and c_exc:
            raise Unsupported("scope: the source restores outside a `finally` but an Exception exit is observed to restore")
    except Unsupported as e:
        if str(e).startswith("scope:"):
            raise
        notes.append("scope restoration: source shape not recognised (%s); observed behaviour used: %s" % (
            e, ", ".join("%s=%s" % kv for kv in sorted(sc.items()))))
    ne_default, hashable = special_methods(base)
    if obs["hash_raised"] and "unhashable type: '" in obs["hash_raised"] and "Record" in obs["hash_raised"]:
        hashable = False
    reserved = list(base.RESERVED_FIELDS)
    try:
        envname = env_var(base)
    except Unsupported as e:
        envname = env_var_observed()
        notes.append("environment variable: source shape not recognised (%s); observed in a fresh interpreter" % e)
    out = HEADER
    out += "From Coq Require Import List Bool String.\nImport ListNotations.\nFrom FR Require Import Equality.\nOpen Scope string_scope.\n\n"
    out += "(* flow/record/base.py: Record.__eq__/_pack/__hash__, _hashable, GroupedRecord._pack, ignore_fields_for_comparison;\n"
    out += "   every boolean is what purpose-built probes OBSERVE the running code to do, cross-checked against the source shape *)\n"
    for n in notes:
        out += "(* note: %s *)\n" % n.replace("*)", "* )").replace("(*", "( *").replace('"', "'")
    out += "Definition facts_now : facts := {|\n"
    out += "  f_eq_ign_left := %s; f_eq_ign_right := %s; f_eq_isinstance_guard := %s; f_eq_descriptors := %s; f_ne_default := %s;\n" % (
        cbool(eq_l), cbool(eq_r), cbool(guard), cbool(eq_descs), cbool(ne_default))
    out += "  f_hash_ign := %s; f_hash_deep := %s; f_hash_dict_unordered := %s; f_skip_before_append := %s;\n" % (
        cbool(h_ign), cbool(h_deep), cbool(h_unordered), cbool(skip_first))
    out += "  f_grp_accepts := %s; f_grp_forwards := %s; f_hashable_defined := %s;\n" % (cbool(g_acc), cbool(g_fwd), cbool(hashable))
    out += "  f_ctx_exception := %s; f_ctx_base_exception := %s; f_ctx_generator_exit := %s; f_ctx_control := %s;\n" % (
        cbool(c_exc), cbool(c_base), cbool(c_gen), cbool(c_ctl))
    out += "  f_reserved := %s |}.\n\n" % clist([cstr(n) for n in reserved])
    out += "Definition hash_freezes_deep : bool := %s.\n" % cbool(h_deep)
    out += "Definition ignore_env_var : string := %s.\n" % cstr(envname)
    write_if_changed(GEN / "Gen_equality.v", out)


GENERATORS = [gen_equality]
