"""Facts for C12 (record equality and hashing) -> coq/gen/Gen_equality.v.

Read from flow/record/base.py with `ast`/`inspect` (the SHAPE of small methods is the fact) and from the imported
module (constants, which class defines which special method):

* Record.__eq__      : the isinstance guard; the comparison of self._descriptors() with other._descriptors() (and what
                       Record/GroupedRecord._descriptors and RecordDescriptor.__eq__ are); which of the two _pack calls
                       gets IGNORE_FIELDS_FOR_COMPARISON
* Record._pack       : the `continue` for an excluded field comes before `values.append`
* Record.__hash__    : passes the ignore set to _pack; freezes through a helper that recurses into list/tuple/dict
                       and turns a dict into a frozenset
* GroupedRecord._pack: has an excluded_fields parameter and forwards it to every member
* ignore_fields_for_comparison: restores the saved value in a `finally`
* RESERVED_FIELDS, the environment variable name.

Fail closed: a shape the recognisers below do not know raises Unsupported.
"""
from __future__ import annotations

import ast
import inspect
import textwrap

from vf.coqlit import cbool, clist, cstr
from vf.factlib import GEN, HEADER, Unsupported, write_if_changed

IGN = "IGNORE_FIELDS_FOR_COMPARISON"


def _fdef(fn):
    fn = inspect.unwrap(fn)
    src = textwrap.dedent(inspect.getsource(fn))
    node = ast.parse(src).body[0]
    if not isinstance(node, ast.FunctionDef):
        raise Unsupported("not a def: %r" % (fn,))
    return node


def _body(node):
    body = list(node.body)
    if body and isinstance(body[0], ast.Expr) and isinstance(body[0].value, ast.Constant) and isinstance(body[0].value.value, str):
        body = body[1:]
    return body


def _name(node, ident=None):
    return isinstance(node, ast.Name) and (ident is None or node.id == ident)


def _subst(node, env):
    """replace local names bound by simple assignments"""
    class T(ast.NodeTransformer):
        def visit_Name(self, n):
            if isinstance(n.ctx, ast.Load) and n.id in env:
                return env[n.id]
            return n
    return T().visit(node)


def _pack_call(node, recv=None):
    """<recv>._pack(...) -> (receiver name, passes the ignore set) else None"""
    if not (isinstance(node, ast.Call) and isinstance(node.func, ast.Attribute) and node.func.attr == "_pack"
            and isinstance(node.func.value, ast.Name)):
        return None
    who = node.func.value.id
    if recv is not None and who != recv:
        return None
    passes = None
    if len(node.args) >= 2:
        passes = node.args[1]
    for kw in node.keywords:
        if kw.arg is None:
            raise Unsupported("**kwargs in a _pack call (line %d)" % node.lineno)
        if kw.arg == "excluded_fields":
            passes = kw.value
    return who, passes


def _is_ign(node):
    return _name(node, IGN) or (isinstance(node, ast.Attribute) and node.attr == IGN)


def eq_facts(base):
    fn = base.Record.__dict__.get("__eq__")
    if fn is None:
        raise Unsupported("Record defines no __eq__")
    node = _fdef(fn)
    args = [a.arg for a in node.args.args]
    if len(args) != 2:
        raise Unsupported("Record.__eq__ arity")
    me, other = args
    body = _body(node)
    guard = False
    if body and isinstance(body[0], ast.If):
        t = body[0].test
        if (isinstance(t, ast.UnaryOp) and isinstance(t.op, ast.Not) and isinstance(t.operand, ast.Call)
                and _name(t.operand.func, "isinstance") and len(t.operand.args) == 2 and _name(t.operand.args[0], other)
                and _name(t.operand.args[1], "Record") and not body[0].orelse and len(body[0].body) == 1
                and isinstance(body[0].body[0], ast.Return)):
            rv = body[0].body[0].value
            if isinstance(rv, ast.Constant) and rv.value is False:
                guard = True
            elif _name(rv, "NotImplemented"):
                guard = True      # Python then tries the reflected call and falls back to identity: False for non-records
            else:
                raise Unsupported("Record.__eq__: the isinstance guard returns something else than False")
            body = body[1:]
        else:
            raise Unsupported("Record.__eq__: unrecognised leading `if` (line %d)" % body[0].lineno)
    descs = False
    if body and isinstance(body[0], ast.If):
        st = body[0]
        t = st.test

        def dcall(n, who):
            return (isinstance(n, ast.Call) and isinstance(n.func, ast.Attribute) and n.func.attr == "_descriptors"
                    and _name(n.func.value, who) and not n.args and not n.keywords)
        if (isinstance(t, ast.Compare) and len(t.ops) == 1 and isinstance(t.ops[0], ast.NotEq)
                and ((dcall(t.left, me) and dcall(t.comparators[0], other)) or (dcall(t.left, other) and dcall(t.comparators[0], me)))
                and not st.orelse and len(st.body) == 1 and isinstance(st.body[0], ast.Return)
                and isinstance(st.body[0].value, ast.Constant) and st.body[0].value.value is False):
            descs = True
            body = body[1:]
        else:
            raise Unsupported("Record.__eq__: unrecognised second `if` (line %d)" % st.lineno)
    env = {}
    while body and isinstance(body[0], ast.Assign) and len(body[0].targets) == 1 and isinstance(body[0].targets[0], ast.Name):
        env[body[0].targets[0].id] = _subst(body[0].value, env)
        body = body[1:]
    if not (len(body) == 1 and isinstance(body[0], ast.Return) and body[0].value is not None):
        raise Unsupported("Record.__eq__: body is not [guard] [assignments] return <a> == <b>")
    e = _subst(body[0].value, env)
    if not (isinstance(e, ast.Compare) and len(e.ops) == 1 and isinstance(e.ops[0], ast.Eq)):
        raise Unsupported("Record.__eq__ does not return a single == comparison")
    sides = {}
    for operand in (e.left, e.comparators[0]):
        pc = _pack_call(operand)
        if pc is None or pc[0] not in (me, other) or pc[0] in sides:
            raise Unsupported("Record.__eq__ does not compare self._pack(..) with other._pack(..)")
        who, passes = pc
        if passes is None or (isinstance(passes, ast.Constant) and passes.value is None):
            sides[who] = False
        elif _is_ign(passes):
            sides[who] = True
        else:
            raise Unsupported("Record.__eq__: excluded_fields argument is neither the global ignore set nor absent")
    if descs:
        _descriptor_methods(base)
    return guard, sides[me], sides[other], descs


def _descriptor_methods(base):
    """Record._descriptors returns (self._desc,), GroupedRecord._descriptors returns tuple(self.descriptors),
    GroupedRecord.__init__ appends every member's _desc to self.descriptors, and RecordDescriptor.__eq__ compares
    name and field tuples"""
    fn = base.Record.__dict__.get("_descriptors")
    if fn is None:
        raise Unsupported("Record._descriptors is not defined")
    b = _body(_fdef(fn))
    ok = (len(b) == 1 and isinstance(b[0], ast.Return) and isinstance(b[0].value, ast.Tuple) and len(b[0].value.elts) == 1
          and isinstance(b[0].value.elts[0], ast.Attribute) and b[0].value.elts[0].attr == "_desc" and _name(b[0].value.elts[0].value, "self"))
    if not ok:
        raise Unsupported("Record._descriptors is not `return (self._desc,)`")
    fn = base.GroupedRecord.__dict__.get("_descriptors")
    if fn is None:
        raise Unsupported("GroupedRecord._descriptors is not defined (a grouped record would be compared by its flat descriptor)")
    b = _body(_fdef(fn))
    ok = (len(b) == 1 and isinstance(b[0], ast.Return) and isinstance(b[0].value, ast.Call) and _name(b[0].value.func, "tuple")
          and len(b[0].value.args) == 1 and isinstance(b[0].value.args[0], ast.Attribute) and b[0].value.args[0].attr == "descriptors"
          and _name(b[0].value.args[0].value, "self"))
    if not ok:
        raise Unsupported("GroupedRecord._descriptors is not `return tuple(self.descriptors)`")
    init = _fdef(base.GroupedRecord.__dict__["__init__"])
    rec_appends = desc_appends = 0
    for sub in ast.walk(init):
        if (isinstance(sub, ast.Call) and isinstance(sub.func, ast.Attribute) and sub.func.attr == "append"
                and isinstance(sub.func.value, ast.Attribute) and _name(sub.func.value.value, "self") and len(sub.args) == 1):
            if sub.func.value.attr == "records" and _name(sub.args[0]):
                rec_appends += 1
            if (sub.func.value.attr == "descriptors" and isinstance(sub.args[0], ast.Attribute) and sub.args[0].attr == "_desc"
                    and _name(sub.args[0].value)):
                desc_appends += 1
    if rec_appends == 0 or rec_appends != desc_appends:
        raise Unsupported("GroupedRecord.__init__ does not append a member's _desc for every member it appends")
    fn = base.RecordDescriptor.__dict__.get("__eq__")
    if fn is None:
        raise Unsupported("RecordDescriptor defines no __eq__")
    node = _fdef(fn)
    me, other = [a.arg for a in node.args.args]
    b = _body(node)
    ret = None
    if (len(b) == 2 and isinstance(b[0], ast.If) and isinstance(b[0].test, ast.Call) and _name(b[0].test.func, "isinstance")
            and _name(b[0].test.args[0], other) and len(b[0].body) == 1 and isinstance(b[0].body[0], ast.Return)
            and isinstance(b[1], ast.Return) and (_name(b[1].value, "NotImplemented") or (isinstance(b[1].value, ast.Constant) and b[1].value.value is False))):
        ret = b[0].body[0].value
    if not (isinstance(ret, ast.BoolOp) and isinstance(ret.op, ast.And) and len(ret.values) == 2):
        raise Unsupported("RecordDescriptor.__eq__ is not `if isinstance(other, RecordDescriptor): return <a> and <b>` + NotImplemented")

    def cmp_of(n):
        if not (isinstance(n, ast.Compare) and len(n.ops) == 1 and isinstance(n.ops[0], ast.Eq)):
            return None
        l, r = n.left, n.comparators[0]
        if (isinstance(l, ast.Attribute) and isinstance(r, ast.Attribute) and l.attr == r.attr == "name"
                and {getattr(l.value, "id", None), getattr(r.value, "id", None)} == {me, other}):
            return "name"
        if (isinstance(l, ast.Call) and isinstance(r, ast.Call) and isinstance(l.func, ast.Attribute) and isinstance(r.func, ast.Attribute)
                and l.func.attr == r.func.attr == "get_field_tuples" and not l.args and not r.args
                and {getattr(l.func.value, "id", None), getattr(r.func.value, "id", None)} == {me, other}):
            return "fields"
        if (isinstance(l, ast.Attribute) and isinstance(r, ast.Attribute) and l.attr == r.attr == "_field_tuples"
                and {getattr(l.value, "id", None), getattr(r.value, "id", None)} == {me, other}):
            return "fields"
        return None
    if sorted(filter(None, (cmp_of(v) for v in ret.values))) != ["fields", "name"]:
        raise Unsupported("RecordDescriptor.__eq__ does not compare exactly name and field tuples")


def pack_facts(base):
    node = _fdef(base.Record.__dict__["_pack"])
    args = [a.arg for a in node.args.args]
    if args[:1] != ["self"] or "excluded_fields" not in args or args.index("excluded_fields") != 2:
        raise Unsupported("Record._pack signature is not (self, unversioned, excluded_fields)")
    loops = [s for s in _body(node) if isinstance(s, ast.For)]
    if len(loops) != 1:
        raise Unsupported("Record._pack: expected exactly one for loop")
    loop = loops[0]
    if not (_name(loop.target) and isinstance(loop.iter, ast.Attribute) and loop.iter.attr == "__slots__"):
        raise Unsupported("Record._pack does not loop over self.__slots__")
    k = loop.target.id

    def is_excl_test(t):
        parts = t.values if isinstance(t, ast.BoolOp) and isinstance(t.op, ast.And) else [t]
        found = False
        for p in parts:
            if _name(p, "excluded_fields"):
                continue
            if (isinstance(p, ast.Compare) and len(p.ops) == 1 and isinstance(p.ops[0], ast.In) and _name(p.left, k)
                    and _name(p.comparators[0], "excluded_fields")):
                found = True
                continue
            return False
        return found

    skip_at = None
    append_at = None
    for i, st in enumerate(loop.body):
        if isinstance(st, ast.If) and is_excl_test(st.test):
            if not (len(st.body) == 1 and isinstance(st.body[0], ast.Continue) and not st.orelse):
                raise Unsupported("Record._pack: the excluded-field test does not just `continue` (line %d)" % st.lineno)
            if skip_at is None:
                skip_at = i
        for sub in ast.walk(st):
            if (isinstance(sub, ast.Call) and isinstance(sub.func, ast.Attribute) and sub.func.attr in ("append", "extend", "insert")
                    and _name(sub.func.value, "values")):
                if append_at is None:
                    append_at = i
    if append_at is None:
        raise Unsupported("Record._pack: no values.append in the loop")
    if skip_at is None:
        # is the test there at all (nested somewhere)?  then we do not understand the shape
        for sub in ast.walk(loop):
            if isinstance(sub, ast.Name) and sub.id == "excluded_fields":
                raise Unsupported("Record._pack: excluded_fields is used in a shape that is not understood")
        return False
    return skip_at < append_at


def _freeze_helper_facts(base, helper_name):
    fn = getattr(base, helper_name, None)
    if fn is None or not inspect.isfunction(fn):
        return None
    node = _fdef(fn)
    if len(node.args.args) != 1:
        return None
    v = node.args.args[0].arg
    seq_deep = dict_deep = None
    unordered = None
    seen_seq_kinds = set()

    def recursive_elt(gen, var_ok):
        """<helper>(x) for x in ... -> True ; x for x in ... -> False"""
        if not isinstance(gen, (ast.GeneratorExp, ast.ListComp)) or len(gen.generators) != 1 or gen.generators[0].ifs:
            raise Unsupported("%s: unrecognised comprehension (line %d)" % (helper_name, gen.lineno))
        return gen.elt

    for st in _body(node):
        if isinstance(st, ast.If) and not st.orelse and len(st.body) == 1 and isinstance(st.body[0], ast.Return):
            t = st.test
            if not (isinstance(t, ast.Call) and _name(t.func, "isinstance") and len(t.args) == 2 and _name(t.args[0], v)):
                raise Unsupported("%s: unrecognised test (line %d)" % (helper_name, st.lineno))
            kinds = t.args[1].elts if isinstance(t.args[1], ast.Tuple) else [t.args[1]]
            kinds = [x.id for x in kinds if isinstance(x, ast.Name)]
            rv = st.body[0].value
            if not (isinstance(rv, ast.Call) and isinstance(rv.func, ast.Name) and len(rv.args) == 1 and not rv.keywords):
                raise Unsupported("%s: unrecognised return (line %d)" % (helper_name, st.lineno))
            elt = recursive_elt(rv.args[0], None)
            if set(kinds) <= {"list", "tuple"} and kinds:
                if rv.func.id != "tuple":
                    raise Unsupported("%s: a sequence is not turned into a tuple" % helper_name)
                seen_seq_kinds |= set(kinds)
                gv = rv.args[0].generators[0]
                if not (_name(gv.iter, v) and _name(gv.target)):
                    raise Unsupported("%s: sequence comprehension does not run over the value" % helper_name)
                x = gv.target.id
                if isinstance(elt, ast.Call) and _name(elt.func, helper_name) and len(elt.args) == 1 and _name(elt.args[0], x):
                    d = True
                elif _name(elt, x):
                    d = False
                else:
                    raise Unsupported("%s: unrecognised sequence element (line %d)" % (helper_name, st.lineno))
                seq_deep = d if seq_deep is None else (seq_deep and d)
            elif kinds == ["dict"]:
                if rv.func.id not in ("tuple", "frozenset"):
                    raise Unsupported("%s: a dict is turned into %s" % (helper_name, rv.func.id))
                unordered = rv.func.id == "frozenset"
                gv = rv.args[0].generators[0]
                if not (isinstance(gv.iter, ast.Call) and isinstance(gv.iter.func, ast.Attribute) and gv.iter.func.attr == "items"
                        and _name(gv.iter.func.value, v) and isinstance(gv.target, ast.Tuple) and len(gv.target.elts) == 2
                        and all(_name(e) for e in gv.target.elts)):
                    raise Unsupported("%s: dict comprehension does not run over value.items()" % helper_name)
                kk, xx = (e.id for e in gv.target.elts)
                if not (isinstance(elt, ast.Tuple) and len(elt.elts) == 2 and _name(elt.elts[0], kk)):
                    raise Unsupported("%s: dict element is not (key, ...)" % helper_name)
                second = elt.elts[1]
                if isinstance(second, ast.Call) and _name(second.func, helper_name) and len(second.args) == 1 and _name(second.args[0], xx):
                    dict_deep = True
                elif _name(second, xx):
                    dict_deep = False
                else:
                    raise Unsupported("%s: unrecognised dict value (line %d)" % (helper_name, st.lineno))
            else:
                raise Unsupported("%s: unrecognised kinds %r" % (helper_name, kinds))
        elif isinstance(st, ast.Return) and _name(st.value, v):
            continue
        else:
            raise Unsupported("%s: unrecognised statement (line %d)" % (helper_name, st.lineno))
    if seq_deep is None or seen_seq_kinds != {"list", "tuple"} or dict_deep is None:
        # a helper that leaves lists, tuples or dicts alone does not freeze deeply
        return dict(deep=False, unordered=bool(unordered))
    return dict(deep=bool(seq_deep and dict_deep), unordered=bool(unordered))


def hash_facts(base):
    fn = base.Record.__dict__.get("__hash__")
    if fn is None:
        raise Unsupported("Record defines no __hash__")
    node = _fdef(fn)
    packs = []
    for sub in ast.walk(node):
        pc = _pack_call(sub, "self") if isinstance(sub, ast.Call) else None
        if pc:
            packs.append(pc[1])
    if len(packs) != 1:
        raise Unsupported("Record.__hash__: expected exactly one self._pack call")
    p = packs[0]
    if p is None or (isinstance(p, ast.Constant) and p.value is None):
        passes = False
    elif _is_ign(p):
        passes = True
    else:
        raise Unsupported("Record.__hash__: excluded_fields argument is neither the global ignore set nor absent")
    # hash(<helper>(self._pack(...)))
    deep = False
    unordered = False
    body = _body(node)
    if len(body) == 1 and isinstance(body[0], ast.Return):
        e = body[0].value
        if (isinstance(e, ast.Call) and _name(e.func, "hash") and len(e.args) == 1 and isinstance(e.args[0], ast.Call)
                and isinstance(e.args[0].func, ast.Name) and len(e.args[0].args) == 1 and _pack_call(e.args[0].args[0], "self")):
            hf = _freeze_helper_facts(base, e.args[0].func.id)
            if hf is None:
                raise Unsupported("Record.__hash__: freezing helper %s not found" % e.args[0].func.id)
            deep, unordered = hf["deep"], hf["unordered"]
        elif isinstance(e, ast.Call) and _name(e.func, "hash") and len(e.args) == 1 and _pack_call(e.args[0], "self"):
            deep = False          # hash(self._pack(...)): nothing is frozen
        else:
            raise Unsupported("Record.__hash__: unrecognised return expression")
    else:
        # a hand-written conversion loop (as before the helper existed): it handled one level only.  Recognise it by the
        # absence of any recursion; anything that calls a module-level helper is not understood.
        for sub in ast.walk(node):
            if isinstance(sub, ast.Call) and isinstance(sub.func, ast.Name) and inspect.isfunction(getattr(base, sub.func.id, None)):
                raise Unsupported("Record.__hash__: unrecognised multi-statement body calling %s" % sub.func.id)
        deep = False
    return passes, deep, unordered


def grouped_facts(base):
    fn = base.GroupedRecord.__dict__.get("_pack")
    if fn is None:
        return True, True        # inherits Record._pack
    node = _fdef(fn)
    args = [a.arg for a in node.args.args] + [a.arg for a in node.args.kwonlyargs]
    accepts = "excluded_fields" in args or node.args.kwarg is not None
    calls = []
    for sub in ast.walk(node):
        if isinstance(sub, ast.Call) and isinstance(sub.func, ast.Attribute) and sub.func.attr == "_pack":
            calls.append(sub)
    if not calls:
        raise Unsupported("GroupedRecord._pack does not pack its members")
    forwards = accepts
    for c in calls:
        ok = False
        for kw in c.keywords:
            if kw.arg == "excluded_fields" and _name(kw.value, "excluded_fields"):
                ok = True
            if kw.arg is None and node.args.kwarg is not None and _name(kw.value, node.args.kwarg.arg):
                ok = True
        if len(c.args) >= 2 and _name(c.args[1], "excluded_fields"):
            ok = True
        forwards = forwards and ok
    body = _body(node)
    if not (len(body) == 1 and isinstance(body[0], ast.Return) and isinstance(body[0].value, ast.Tuple) and len(body[0].value.elts) == 2):
        raise Unsupported("GroupedRecord._pack does not return a pair")
    first, second = body[0].value.elts
    if not (isinstance(first, ast.Attribute) and first.attr == "name" and _name(first.value, "self")):
        raise Unsupported("GroupedRecord._pack: first component is not self.name")
    if not (isinstance(second, ast.Call) and _name(second.func, "tuple") and len(second.args) == 1
            and isinstance(second.args[0], (ast.GeneratorExp, ast.ListComp)) and len(second.args[0].generators) == 1
            and not second.args[0].generators[0].ifs and isinstance(second.args[0].generators[0].iter, ast.Attribute)
            and second.args[0].generators[0].iter.attr == "records" and second.args[0].elt in calls):
        raise Unsupported("GroupedRecord._pack: second component is not tuple(<member>._pack(..) for <member> in self.records)")
    return accepts, forwards


def ctx_facts(base):
    node = _fdef(base.ignore_fields_for_comparison)
    body = _body(node)
    saved = None
    for st in body:
        if isinstance(st, ast.Assign) and len(st.targets) == 1 and _name(st.targets[0]) and _is_ign(st.value):
            saved = st.targets[0].id
    if saved is None:
        raise Unsupported("ignore_fields_for_comparison does not save the current ignore set")

    def restores(stmts):
        for st in stmts:
            for sub in ast.walk(st):
                if (isinstance(sub, ast.Call) and _name(sub.func, "set_ignored_fields_for_comparison") and len(sub.args) == 1
                        and _name(sub.args[0], saved)):
                    return True
                if isinstance(sub, ast.Assign) and any(_name(t, IGN) for t in sub.targets) and _name(sub.value, saved):
                    return True
        return False

    def has_yield(stmts):
        return any(isinstance(sub, (ast.Yield, ast.YieldFrom)) for st in stmts for sub in ast.walk(st))

    if not has_yield(body):
        raise Unsupported("ignore_fields_for_comparison has no yield")
    in_finally = False
    for st in body:
        if isinstance(st, ast.Try) and has_yield(st.body):
            if st.handlers:
                raise Unsupported("ignore_fields_for_comparison: except handlers around the yield are not understood")
            if restores(st.finalbody):
                in_finally = True
    if not in_finally and not restores(body):
        raise Unsupported("ignore_fields_for_comparison never restores the saved ignore set")
    # the setter really assigns the global
    sn = _fdef(base.set_ignored_fields_for_comparison)
    sb = _body(sn)
    ok = (len(sb) == 2 and isinstance(sb[0], ast.Global) and sb[0].names == [IGN] and isinstance(sb[1], ast.Assign)
          and len(sb[1].targets) == 1 and _name(sb[1].targets[0], IGN) and isinstance(sb[1].value, ast.Call)
          and _name(sb[1].value.func, "set") and len(sb[1].value.args) == 1 and _name(sb[1].value.args[0], sn.args.args[0].arg))
    if not ok:
        raise Unsupported("set_ignored_fields_for_comparison is not `global X; X = set(arg)`")
    return in_finally


def env_var(base):
    tree = ast.parse(open(base.__file__).read())
    names = []
    for st in tree.body:
        if isinstance(st, ast.If) and any(isinstance(s, ast.Assign) and any(_name(t, IGN) for t in s.targets) for s in st.body):
            for sub in ast.walk(st.test):
                if (isinstance(sub, ast.Call) and isinstance(sub.func, ast.Attribute) and sub.func.attr in ("get", "getenv")
                        and sub.args and isinstance(sub.args[0], ast.Constant) and isinstance(sub.args[0].value, str)):
                    names.append(sub.args[0].value)
    if len(names) != 1:
        raise Unsupported("the environment variable that initialises the ignore set was not found")
    return names[0]


def special_methods(base):
    """which classes define the special methods: nothing but Record may define __eq__/__hash__, nobody __ne__"""
    from flow.record import RecordDescriptor
    sample = RecordDescriptor("vf/c12probe", [("string", "a")]).recordType
    ne_default = all("__ne__" not in c.__dict__ for c in (base.Record, base.GroupedRecord, sample))
    for c in (base.GroupedRecord, sample):
        if "__eq__" in c.__dict__:
            raise Unsupported("%s defines its own __eq__" % c.__name__)
    hashable = all(c.__hash__ is base.Record.__hash__ for c in (base.GroupedRecord, sample))
    return ne_default, hashable


def gen_equality():
    import flow.record.base as base
    guard, eq_l, eq_r, eq_descs = eq_facts(base)
    skip_first = pack_facts(base)
    h_ign, h_deep, h_unordered = hash_facts(base)
    g_acc, g_fwd = grouped_facts(base)
    fin = ctx_facts(base)
    ne_default, hashable = special_methods(base)
    reserved = list(base.RESERVED_FIELDS)
    out = HEADER
    out += "From Coq Require Import List Bool String.\nImport ListNotations.\nFrom FR Require Import Equality.\nOpen Scope string_scope.\n\n"
    out += "(* flow/record/base.py: Record.__eq__/_pack/__hash__, _hashable, GroupedRecord._pack, ignore_fields_for_comparison *)\n"
    out += "Definition facts_now : facts := {|\n"
    out += "  f_eq_ign_left := %s; f_eq_ign_right := %s; f_eq_isinstance_guard := %s; f_eq_descriptors := %s; f_ne_default := %s;\n" % (
        cbool(eq_l), cbool(eq_r), cbool(guard), cbool(eq_descs), cbool(ne_default))
    out += "  f_hash_ign := %s; f_hash_deep := %s; f_hash_dict_unordered := %s; f_skip_before_append := %s;\n" % (
        cbool(h_ign), cbool(h_deep), cbool(h_unordered), cbool(skip_first))
    out += "  f_grp_accepts := %s; f_grp_forwards := %s; f_ctx_finally := %s; f_hashable_defined := %s;\n" % (
        cbool(g_acc), cbool(g_fwd), cbool(fin), cbool(hashable))
    out += "  f_reserved := %s |}.\n\n" % clist([cstr(n) for n in reserved])
    out += "Definition hash_freezes_deep : bool := %s.\n" % cbool(h_deep)
    out += "Definition ignore_env_var : string := %s.\n" % cstr(env_var(base))
    write_if_changed(GEN / "Gen_equality.v", out)


GENERATORS = [gen_equality]
