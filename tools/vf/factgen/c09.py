"""Facts for the sandbox model (C09): gen/Gen_sandbox.v, from flow/record/selector.py."""
from __future__ import annotations

import ast
import inspect
import textwrap

from vf.coqlit import cbool, clist, cstr
from vf.factlib import GEN, HEADER, Unsupported, write_if_changed


def _branch(fn_node, kind):
    """the body of `elif isinstance(node, ast.<kind>):` in _eval's if-chain"""
    cur = None
    for st in fn_node.body:
        if isinstance(st, ast.If):
            cur = st
            break
    while cur is not None:
        t = cur.test
        if isinstance(t, ast.Call) and isinstance(t.func, ast.Name) and t.func.id == "isinstance" and len(t.args) == 2 \
                and isinstance(t.args[1], ast.Attribute) and t.args[1].attr == kind:
            return cur.body
        nxt = cur.orelse
        cur = nxt[0] if len(nxt) == 1 and isinstance(nxt[0], ast.If) else None
    raise Unsupported("_eval has no `isinstance(node, ast.%s)` branch" % kind)


def _raises_invalid(stmt):
    return isinstance(stmt, ast.Raise) and isinstance(stmt.exc, ast.Call) and isinstance(stmt.exc.func, ast.Name) \
        and stmt.exc.func.id == "InvalidOperation"


def _is_self_eval_of(node, attr):
    """self.eval(node.<attr>)"""
    return (isinstance(node, ast.Call) and isinstance(node.func, ast.Attribute) and node.func.attr == "eval"
            and isinstance(node.func.value, ast.Name) and node.func.value.id == "self" and len(node.args) == 1
            and isinstance(node.args[0], ast.Attribute) and node.args[0].attr == attr
            and isinstance(node.args[0].value, ast.Name) and node.args[0].value.id == "node")


def call_guard_shape(sel):
    """True: identity guard on the evaluated callee; False: the pre-fix guard on the resolved name."""
    cls = sel.RecordContextMatcher
    fn = ast.parse(textwrap.dedent(inspect.getsource(cls._eval))).body[0]
    body = _branch(fn, "Call")
    # 1. the kind test on node.func comes first and raises
    first = body[0]
    if not (isinstance(first, ast.If) and any(_raises_invalid(s) for s in first.body)
            and "node.func" in ast.unparse(first.test) and "isinstance" in ast.unparse(first.test)):
        raise Unsupported("Call branch: first statement is not the `isinstance(node.func, (Attribute, Name))` refusal")
    rest = body[1:]
    src = [ast.unparse(s) for s in rest]
    # where is the callee invoked?
    invoke_idx = [i for i, s in enumerate(rest) if any(
        isinstance(n, ast.Call) and isinstance(n.func, ast.Name) and n.func.id == "func" for n in ast.walk(s))]
    if len(invoke_idx) != 1:
        raise Unsupported("Call branch: expected exactly one invocation `func(...)`")
    inv = invoke_idx[0]
    # identity shape: func = self.eval(node.func) [in try/except AttributeError], then `if not self._is_allowed_callable(func): raise`
    def assigns_func_from_eval(s):
        if isinstance(s, ast.Assign) and len(s.targets) == 1 and isinstance(s.targets[0], ast.Name) and s.targets[0].id == "func":
            return _is_self_eval_of(s.value, "func")
        if isinstance(s, ast.Try):
            return any(assigns_func_from_eval(x) for x in s.body) and all(
                isinstance(h.type, ast.Name) and h.type.id == "AttributeError" for h in s.handlers)
        return False
    ev_idx = [i for i, s in enumerate(rest) if assigns_func_from_eval(s)]
    guard_idx = [i for i, s in enumerate(rest) if isinstance(s, ast.If) and any(_raises_invalid(x) for x in s.body)]
    if len(ev_idx) != 1 or len(guard_idx) != 1:
        raise Unsupported("Call branch: cannot locate callee evaluation / refusal")
    e, g = ev_idx[0], guard_idx[0]
    gtest = ast.unparse(rest[g].test)
    if e < g < inv and "_is_allowed_callable(func)" in gtest and gtest.startswith("not "):
        # the helper must decide by identity / whitelisted field-type module only
        h = ast.parse(textwrap.dedent(inspect.getsource(cls._is_allowed_callable))).body[0]
        hs = ast.unparse(h)
        ok = ("isinstance(func, DynamicFieldtypeModule)" in hs and "func.path in WHITELIST" in hs
              and "func is allowed" in hs and "self.allowed_callables" in hs and len(h.body) == 2)
        if not ok:
            raise Unsupported("_is_allowed_callable has an unrecognised body")
        m = ast.parse(textwrap.dedent(inspect.getsource(cls.matches))).body[0]
        ms = [ast.unparse(s) for s in m.body]
        ai = [i for i, s in enumerate(ms) if s.startswith("self.allowed_callables =")]
        ri = [i for i, s in enumerate(ms) if "self.eval(self.expression.body)" in s]
        if len(ai) != 1 or len(ri) != 1 or not ai[0] < ri[0] or "callable(value)" not in ms[ai[0]] or "self.data.values()" not in ms[ai[0]]:
            raise Unsupported("matches(): allowed_callables is not fixed from self.data before evaluation")
        # args are evaluated between the guard and the invocation
        return True
    if g < e < inv and "resolve_attr_path" in " ".join(src[:g + 1]) and "func_name in WHITELIST" in gtest:
        return False
    raise Unsupported("Call branch: unrecognised order of callee evaluation, refusal and invocation")


def attribute_branch_ok(sel):
    fn = ast.parse(textwrap.dedent(inspect.getsource(sel.RecordContextMatcher._eval))).body[0]
    body = _branch(fn, "Attribute")
    first = body[0]
    if not (isinstance(first, ast.If) and any(_raises_invalid(s) for s in first.body)
            and ast.unparse(first.test) in ("node.attr.startswith('__')", 'node.attr.startswith("__")')):
        raise Unsupported("Attribute branch does not start with the `node.attr.startswith('__')` refusal")
    rest = " ; ".join(ast.unparse(s) for s in body[1:])
    if "getattr(obj, node.attr, NONE_OBJECT)" not in rest:
        raise Unsupported("Attribute branch: unrecognised attribute read")
    return True


def helper_field_reads(sel):
    """Which whitelisted helpers read fields NAMED BY THE SELECTOR, and how.
    returns (helper names, True)   every such read goes through _field_value(r, field), whose body is
                                   `if field.startswith("__"): raise InvalidOperation(...)` ; `return getattr(r, field, NONE_OBJECT)`
            (helper names, False)  the helpers call getattr(r, field, ...) themselves (the code before fix cdcae2a)
    Any other way for a helper to reach getattr/setattr/__dict__ with a non-constant name is Unsupported."""
    helpers, direct, via = [], [], []
    for f in sel.FUNCTION_WHITELIST:
        tree = ast.parse(textwrap.dedent(inspect.getsource(f))).body[0]
        for node in ast.walk(tree):
            if isinstance(node, ast.Call) and isinstance(node.func, ast.Name):
                if node.func.id in ("getattr", "setattr", "delattr", "vars", "eval", "exec", "__import__", "globals", "locals"):
                    if node.func.id == "getattr" and len(node.args) >= 2 and not isinstance(node.args[1], ast.Constant) \
                            and ast.unparse(node.args[0]) == "r":
                        direct.append(f.__name__)
                    elif node.func.id == "getattr" and len(node.args) >= 2 and isinstance(node.args[1], ast.Constant) \
                            and not str(node.args[1].value).startswith("__"):
                        pass
                    else:
                        raise Unsupported("helper %s uses %s(...) in an unrecognised way" % (f.__name__, node.func.id))
                elif node.func.id == "_field_value":
                    if not (len(node.args) == 2 and ast.unparse(node.args[0]) == "r" and not node.keywords):
                        raise Unsupported("helper %s: unrecognised _field_value call" % f.__name__)
                    via.append(f.__name__)
            if isinstance(node, ast.Attribute) and node.attr in ("__dict__", "__getattribute__", "__class__"):
                raise Unsupported("helper %s touches %s" % (f.__name__, node.attr))
    helpers = sorted(set(direct + via), key=lambda n: [g.__name__ for g in sel.FUNCTION_WHITELIST].index(n))
    if direct and via:
        raise Unsupported("helpers read fields both directly (%s) and through _field_value (%s)" % (direct, via))
    if direct:
        return helpers, False
    fv = getattr(sel, "_field_value", None)
    if fv is None:
        if via:
            raise Unsupported("_field_value is used but not defined")
        return helpers, True
    body = [b for b in ast.parse(textwrap.dedent(inspect.getsource(fv))).body[0].body
            if not (isinstance(b, ast.Expr) and isinstance(b.value, ast.Constant))]
    ok = (len(body) == 2 and isinstance(body[0], ast.If) and not body[0].orelse
          and ast.unparse(body[0].test) in ("field.startswith('__')", 'field.startswith("__")')
          and len(body[0].body) == 1 and _raises_invalid(body[0].body[0])
          and isinstance(body[1], ast.Return) and ast.unparse(body[1].value) == "getattr(r, field, NONE_OBJECT)"
          and [a.arg for a in ast.parse(textwrap.dedent(inspect.getsource(fv))).body[0].args.args] == ["r", "field"])
    if not ok:
        raise Unsupported("_field_value does not have the shape `if field.startswith('__'): raise InvalidOperation` ; `return getattr(r, field, NONE_OBJECT)`")
    return helpers, True


# ---------------------------------------------------------------------------------------------------
# behavioural determination of the same facts (used when a harmless re-spelling makes a shape unrecognisable)

class _P:
    """an object that records what is done to it"""
    log = []

    def __init__(self, path):
        object.__setattr__(self, "_p", path)

    def __getattr__(self, name):
        _P.log.append(("get", self._p, name))
        if name.startswith("__"):
            raise AttributeError(name)
        return _P(self._p + "." + name)

    def __call__(self, *a, **k):
        _P.log.append(("call", self._p))
        return _P(self._p + "()")

    def __iter__(self):
        return iter([_P(self._p + "[0]")])

    def __bool__(self):
        return True


class _PDesc:
    name = "probe/rec"
    fields = {}

    def getfields(self, typename):
        return []


class _PRec:
    def __init__(self):
        object.__setattr__(self, "_desc", _PDesc())

    def __getattr__(self, name):
        _P.log.append(("get", "r", name))
        if name.startswith("__"):
            raise AttributeError(name)
        return _P("r." + name)


def _run(sel, expr):
    del _P.log[:]
    try:
        sel.Selector(expr).match(_PRec())
        out = "ok"
    except sel.InvalidOperation:
        out = "refused"
    except Exception as e:  # noqa
        out = type(e).__name__
    return out, list(_P.log)


def probe_behaviour(sel):
    """(guard_by_identity, attribute_ok, helper names, helpers_refuse_dunder, fallthrough_ok) observed on probe objects."""
    hostile = ["lower(r.s).upper()", "r.a.m(r.b)", "any(f() for f in [r.a.m])", "'abc'.upper()", "r.a.m()",
               "any(string('A') for string in [r.a.startswith])", "str.lower('A')", "(r.a.m)(1)", "lower(r.a.m)()"]
    res = {e: _run(sel, e) for e in hostile}
    called = {e: [x for x in log if x[0] == "call"] for e, (out, log) in res.items()}
    if all(out != "ok" and not called[e] for e, (out, log) in res.items()):
        out, log = res["r.a.m(r.b)"]
        if out != "refused" or ("get", "r", "b") in log:
            raise Unsupported("behavioural probe: a refused call evaluates its arguments first (or raises %s)" % out)
        by_identity = True
    elif res["lower(r.s).upper()"][0] == "ok" or called["lower(r.s).upper()"]:
        by_identity = False
    else:
        raise Unsupported("behavioural probe: hostile call shapes are neither all refused nor the known pre-fix pattern: %r" % {
            e: (out, called[e]) for e, (out, log) in res.items()})
    if _run(sel, "lower(r.a) == 1")[0] != "ok":
        raise Unsupported("behavioural probe: a whitelisted helper call is refused")
    a1, a2 = _run(sel, "r.a.__x__"), _run(sel, "r.__class__")
    if not (a1 == ("refused", []) and a2 == ("refused", [])):
        raise Unsupported("behavioural probe: a double-underscore attribute is not refused before anything is read: %r %r" % (a1, a2))
    helpers, refuse = [], set()
    for f in sel.FUNCTION_WHITELIST:
        n = f.__name__
        if not n.startswith("field_"):
            continue
        third = "'.'" if n == "field_regex" else "['v']"
        out, log = _run(sel, "%s(r, ['a'], %s)" % (n, third))
        if ("get", "r", "a") in log:
            helpers.append(n)
            out2, log2 = _run(sel, "%s(r, ['__x__'], %s)" % (n, third))
            read = ("get", "r", "__x__") in log2
            refuse.add(True if (out2 == "refused" and not read) else False if read else None)
    if None in refuse or len(refuse) > 1:
        raise Unsupported("behavioural probe: the field_* helpers treat double-underscore names inconsistently")
    for e in ("(lambda: 1)", "{1: 2}", "r.a[0]", "r.a if r.b else 1"):
        if _run(sel, e)[0] != "TypeError":
            raise Unsupported("behavioural probe: the node kind of %r is not rejected with TypeError" % e)
    return by_identity, helpers, (refuse.pop() if refuse else True)


def gen_sandbox():
    import flow.record.selector as sel
    from flow.record import RecordDescriptor
    from flow.record.whitelist import WHITELIST
    # the facts are OBSERVED on probe objects; the shape recognisers below cross-check them where they recognise the code
    # (an unrecognised spelling alone is not an alarm; a recognised shape that contradicts the observation is)
    b_identity, b_helpers, b_refuse = probe_behaviour(sel)
    notes = []
    try:
        by_identity = call_guard_shape(sel)
        if by_identity != b_identity:
            raise Unsupported("Call guard: recognised shape says %s, observed behaviour says %s" % (by_identity, b_identity))
    except Unsupported as e:
        if "observed behaviour" in str(e):
            raise
        notes.append("call guard shape not recognised (%s): observed behaviour used" % e)
        by_identity = b_identity
    try:
        attribute_branch_ok(sel)
    except Unsupported as e:
        notes.append("attribute branch shape not recognised (%s): observed behaviour used" % e)
    # the namespace matches() builds
    D = RecordDescriptor("probe/sandbox", [("string", "s")])
    rec = D(s="x")
    m = sel.RecordContextMatcher(sel.Selector("True").expression, "True")
    m.matches(rec)
    exposed = [k for k, v in m.data.items() if callable(v)]
    plain = [k for k, v in m.data.items() if not callable(v)]
    for k in exposed:
        v = m.data[k]
        if getattr(v, "__name__", k) != k and k != "fields":
            raise Unsupported("namespace entry %r is bound to a callable of another name" % k)
    try:
        helpers, refuse = helper_field_reads(sel)
        if (sorted(helpers), refuse) != (sorted(b_helpers), b_refuse):
            raise Unsupported("field helpers: recognised shape says %r, observed behaviour says %r" % ((helpers, refuse), (b_helpers, b_refuse)))
    except Unsupported as e:
        if "observed behaviour" in str(e):
            raise
        notes.append("helper shape not recognised (%s): observed behaviour used" % e)
        helpers, refuse = [f.__name__ for f in sel.FUNCTION_WHITELIST if f.__name__ in b_helpers], b_refuse
    out = HEADER
    for n in notes:
        out += "(* note: %s *)\n" % n.replace("(*", "( *").replace("*)", "* )")
    out += "From Coq Require Import List Bool String.\nImport ListNotations.\nFrom FR Require Import Sandbox.\nOpen Scope string_scope.\n\n"
    out += "Definition sandbox_facts : facts := {|\n"
    out += "  exposed_callables := %s;\n" % clist([cstr(x) for x in exposed])
    out += "  plain_names := %s;\n" % clist([cstr(x) for x in plain])
    out += "  whitelist := %s;\n" % clist([clist([cstr(p) for p in w.split(".")]) for w in WHITELIST])
    out += "  guard_by_identity := %s;\n" % cbool(by_identity)
    out += "  helper_names := %s;\n" % clist([cstr(x) for x in helpers])
    out += "  helpers_refuse_dunder := %s |}.\n\n" % cbool(refuse)
    out += "Definition function_whitelist_names : list string := %s.\n" % clist([cstr(f.__name__) for f in sel.FUNCTION_WHITELIST])
    write_if_changed(GEN / "Gen_sandbox.v", out)


GENERATORS = [gen_sandbox]
