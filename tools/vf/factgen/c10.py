"""Facts for C10 (reading with a selector = filtering afterwards; matching is pure) -> coq/gen/Gen_filter.v.

Everything here is a SHAPE fact, read from the source with `ast`:

* for each of the five readers' `__iter__`: every `yield` site, how it is guarded
  (`if not self.selector or self.selector.match(x): ... yield y`, or the inverted
  `if self.selector and not self.selector.match(x): continue` before the yield), whether x is y and is not
  rebound in between, what a non-match does (next object / leaves the loop); which kind of decoded object
  reaches the site (record, or JSON's plain-object fallback); that no yield is reachable for descriptors;
* RecordContextMatcher: which instance attributes `matches` assigns afresh before evaluating, which attributes
  the evaluation methods read / mutate, which are constant after `__init__`;
* Selector.match: lazy creation and reuse of self.matcher, result = self.matcher.matches(<argument>);
* CompiledSelector.match: eval in a copy of self.ns, nothing stored in self;
* selector.py: no store through anything but `self` (nothing assigns into a record);
* make_selector: its tests look at the argument only through truthiness / isinstance, and its table over the
  five input kinds x force_compiled is read by running it.

Fail closed: any statement the recognisers do not know raises Unsupported.
"""
from __future__ import annotations

import ast
import inspect
import os
import textwrap

from vf.coqlit import cbool, clist, cstr
from vf.factlib import GEN, HEADER, Unsupported, write_if_changed

READERS = [
    ("stream", "KStream", "flow.record.stream", "RecordStreamReader"),
    ("json", "KJson", "flow.record.adapter.jsonfile", "JsonfileReader"),
    ("avro", "KAvro", "flow.record.adapter.avro", "AvroReader"),
    ("csv", "KCsv", "flow.record.adapter.csvfile", "CsvfileReader"),
    ("sqlite", "KSqlite", "flow.record.adapter.sqlite", "SqliteReader"),
]

MUTATORS = {"append", "extend", "insert", "pop", "remove", "clear", "update", "setdefault", "add", "discard",
            "popitem", "sort", "reverse", "appendleft", "popleft", "__setitem__", "__delitem__"}


class Hazard(Unsupported):
    """something the recogniser DID understand and that the probes cannot clear (fail closed even when the observed
    behaviour on the probes looks fine)"""


def _fdef(fn):
    src = textwrap.dedent(inspect.getsource(fn))
    node = ast.parse(src).body[0]
    if not isinstance(node, ast.FunctionDef):
        raise Unsupported("not a def: %r" % (fn,))
    return node


def _where(fn, node):
    return "%s line %d" % (fn.__qualname__, fn.__code__.co_firstlineno + getattr(node, "lineno", 1) - 1)


def _strip_doc(body):
    body = list(body)
    if body and isinstance(body[0], ast.Expr) and isinstance(body[0].value, ast.Constant) and isinstance(body[0].value.value, str):
        body = body[1:]
    return body


def _self_attr(node, selfname="self"):
    if isinstance(node, ast.Attribute) and isinstance(node.value, ast.Name) and node.value.id == selfname:
        return node.attr
    return None


# ------------------------------------------------------------------------------------------
# reader loops

def _is_self_selector(n):
    return _self_attr(n) == "selector"


def _match_call_arg(n):
    """self.selector.match(<Name>) -> the name; (also `<Name> in self.selector`, which is __contains__ = match)"""
    if isinstance(n, ast.Call) and isinstance(n.func, ast.Attribute) and n.func.attr == "match" \
            and _is_self_selector(n.func.value) and len(n.args) == 1 and not n.keywords and isinstance(n.args[0], ast.Name):
        return n.args[0].id
    return None


def _positive_guard(test):
    """`not self.selector or self.selector.match(x)` -> x"""
    if isinstance(test, ast.BoolOp) and isinstance(test.op, ast.Or) and len(test.values) == 2:
        a, b = test.values
        if isinstance(a, ast.UnaryOp) and isinstance(a.op, ast.Not) and _is_self_selector(a.operand):
            return _match_call_arg(b)
        if isinstance(a, ast.Compare) and len(a.ops) == 1 and isinstance(a.ops[0], ast.Is) and _is_self_selector(a.left) \
                and isinstance(a.comparators[0], ast.Constant) and a.comparators[0].value is None:
            return _match_call_arg(b)
    return None


def _negative_guard(test):
    """`self.selector and not self.selector.match(x)` -> x"""
    if isinstance(test, ast.BoolOp) and isinstance(test.op, ast.And) and len(test.values) == 2:
        a, b = test.values
        ok_a = _is_self_selector(a) or (
            isinstance(a, ast.Compare) and len(a.ops) == 1 and isinstance(a.ops[0], ast.IsNot) and _is_self_selector(a.left)
            and isinstance(a.comparators[0], ast.Constant) and a.comparators[0].value is None)
        if ok_a and isinstance(b, ast.UnaryOp) and isinstance(b.op, ast.Not):
            return _match_call_arg(b.operand)
    return None


def _binds(stmt, names):
    """does the statement (anywhere inside) bind one of the names?"""
    for n in ast.walk(stmt):
        if isinstance(n, ast.Name) and isinstance(n.ctx, (ast.Store, ast.Del)) and n.id in names:
            return True
    return False


def _exit_kind(stmts, fn):
    """the statements executed on a non-match: nothing / pass / continue -> 'next'; break / return -> 'stop'"""
    stmts = [s for s in stmts if not isinstance(s, ast.Pass)]
    if not stmts:
        return "next"
    if len(stmts) == 1 and isinstance(stmts[0], ast.Continue):
        return "next"
    if len(stmts) == 1 and (isinstance(stmts[0], ast.Break) or (isinstance(stmts[0], ast.Return) and stmts[0].value is None)):
        return "stop"
    raise Unsupported("unrecognised non-match branch in %s" % _where(fn, stmts[0]))


def _isinstance_of(test):
    """isinstance(<Name>, <dotted>) -> (name, last attribute)"""
    if isinstance(test, ast.Call) and isinstance(test.func, ast.Name) and test.func.id == "isinstance" and len(test.args) == 2 \
            and isinstance(test.args[0], ast.Name):
        t = test.args[1]
        if isinstance(t, ast.Attribute):
            return test.args[0].id, t.attr
        if isinstance(t, ast.Name):
            return test.args[0].id, t.id
    return None


def reader_sites(fn):
    """-> list of dict(kind='record'|'plain', guard='GSelOrMatch'|'GNone', same=bool, stops=bool) in source order"""
    node = _fdef(fn)
    body = _strip_doc(node.body)
    parents = {}
    for p in ast.walk(node):
        for fld, val in ast.iter_fields(p):
            if isinstance(val, list):
                for i, c in enumerate(val):
                    if isinstance(c, ast.AST):
                        parents[id(c)] = (p, fld, i)
            elif isinstance(val, ast.AST):
                parents[id(val)] = (p, fld, None)
    for n in ast.walk(node):
        if n is not node and isinstance(n, (ast.FunctionDef, ast.AsyncFunctionDef, ast.Lambda, ast.ClassDef)):
            raise Unsupported("nested definition in %s" % _where(fn, n))
        if isinstance(n, (ast.YieldFrom, ast.Await, ast.AsyncFor)):
            raise Unsupported("`yield from` in %s (the records it yields pass no selector test)" % _where(fn, n))
        if isinstance(n, ast.Return) and n.value is not None:
            raise Unsupported("return with a value in generator %s" % _where(fn, n))
    accounted = set()     # Break/Return/Continue nodes that are the non-match action of a guard
    guard_tests = []      # the test expressions recognised as selector guards
    sites = []
    for y in [n for n in ast.walk(node) if isinstance(n, ast.Yield)]:
        st, fld, idx = parents[id(y)]
        if not (isinstance(st, ast.Expr) and isinstance(y.value, ast.Name)):
            raise Unsupported("yield that is not the statement `yield <name>` in %s" % _where(fn, y))
        yname = y.value.id
        blk_owner, blk_field, blk_idx = parents[id(st)]
        block = getattr(blk_owner, blk_field)
        guard, same, stops = "GNone", True, False
        guard_node = None
        # form (a): the yield sits in the body of `if not self.selector or self.selector.match(x):`
        if isinstance(blk_owner, ast.If) and blk_field == "body":
            x = _positive_guard(blk_owner.test)
            if x is not None:
                guard_node = blk_owner
                guard_tests.append(blk_owner.test)
                guard = "GSelOrMatch"
                same = (x == yname) and not any(_binds(s, {x, yname}) for s in block[:blk_idx])
                kind = _exit_kind(blk_owner.orelse, fn)
                stops = kind == "stop"
                for s in blk_owner.orelse:
                    accounted.add(id(s))
        # form (b): an earlier statement of the same block is `if self.selector and not self.selector.match(x): continue`
        if guard_node is None:
            for j in range(blk_idx - 1, -1, -1):
                s = block[j]
                if isinstance(s, ast.If) and not s.orelse:
                    x = _negative_guard(s.test)
                    if x is not None:
                        guard_node = s
                        guard_tests.append(s.test)
                        guard = "GSelOrMatch"
                        same = (x == yname) and not any(_binds(t, {x, yname}) for t in block[j + 1:blk_idx])
                        kind = _exit_kind(s.body, fn)
                        if kind == "next" and not (len(s.body) == 1 and isinstance(s.body[0], ast.Continue)):
                            # `if <non-match>: pass` does not skip the yield
                            guard = "GNone"
                        stops = kind == "stop"
                        for t in s.body:
                            accounted.add(id(t))
                        break
        # the tested name must be bound in the same iteration: by the innermost enclosing loop (target or body)
        loop = None
        cur = guard_node if guard_node is not None else st
        chain = []          # enclosing (If node, branch) pairs between the site and the function
        while id(cur) in parents:
            p, f, i = parents[id(cur)]
            if isinstance(p, (ast.For, ast.While)) and f == "body" and loop is None:
                loop = p
            if isinstance(p, ast.If) and p is not guard_node:
                chain.append((p, f))
            if isinstance(p, (ast.For, ast.While)) and f == "orelse":
                raise Unsupported("yield in a loop's else branch in %s" % _where(fn, y))
            cur = p
        if loop is None:
            raise Unsupported("yield outside a loop in %s" % _where(fn, y))
        if guard == "GSelOrMatch":
            xname = yname if same else None
            if same:
                bound_here = (isinstance(loop, ast.For) and _binds(loop.target, {yname})) or any(_binds(s, {yname}) for s in loop.body)
                if not bound_here:
                    same = False
        # which decoded objects reach the site?
        kind = "record"
        for ifnode, branch in chain:
            io = _isinstance_of(ifnode.test)
            if io is None:
                # `if obj == RECORDSTREAM_MAGIC: continue` style tests are fine as long as the site is not inside them
                raise Unsupported("yield under an unrecognised test in %s" % _where(fn, ifnode))
            _, cls = io
            if cls == "RecordDescriptor" and branch == "body":
                raise Unsupported("a yield is reachable for descriptors in %s" % _where(fn, y))
            if cls == "Record" and branch == "orelse":
                kind = "plain"
        if not any(_isinstance_of(ifn.test) and _isinstance_of(ifn.test)[1] == "Record" for ifn, _ in chain):
            for n in ast.walk(node):
                if isinstance(n, ast.Call) and _isinstance_of(n) and _isinstance_of(n)[1] == "Record":
                    raise Unsupported("cannot tell which decoded objects reach the yield in %s (it is outside the "
                                      "isinstance(.., Record) dispatch)" % _where(fn, y))
        sites.append(dict(kind=kind, guard=guard, same=bool(same), stops=bool(stops), line=y.lineno))
    # the selector may be consulted by the guards only (nothing else in the loop may depend on it)
    in_guards = {id(n) for t in guard_tests for n in ast.walk(t)}
    for n in ast.walk(node):
        if _is_self_selector(n) and id(n) not in in_guards:
            raise Unsupported("self.selector is used outside a yield guard in %s" % _where(fn, n))
    for n in ast.walk(node):
        if isinstance(n, (ast.Break, ast.Return)) and id(n) not in accounted:
            raise Hazard("`%s` in the reader loop %s" % (type(n).__name__.lower(), _where(fn, n)))
    sites.sort(key=lambda s: s["line"])
    return sites


def _site_term(s):
    return "{| s_guard := %s; s_tested_same := %s; s_nonmatch_stops := %s |}" % (s["guard"], cbool(s["same"]), cbool(s["stops"]))


def _ast_reader_shape(short, fn):
    sites = reader_sites(fn)
    recs = [s for s in sites if s["kind"] == "record"]
    plains = [s for s in sites if s["kind"] == "plain"]
    if len(recs) != 1:
        raise Unsupported("%s has %d yield sites for records (expected exactly one)" % (fn.__qualname__, len(recs)))
    if len(plains) > (1 if short == "json" else 0):
        raise Unsupported("%s has %d yield sites for non-record objects" % (fn.__qualname__, len(plains)))
    strip = lambda d: dict(guard=d["guard"], same=d["same"], stops=d["stops"])  # noqa: E731
    return dict(on_record=strip(recs[0]), on_plain=strip(plains[0]) if plains else None)


# ---- observed filter behaviour of a reader: scripted, logging selector stubs on purpose-built inputs

class _Boom(Exception):
    pass


class _Stub:
    """a selector object (make_selector passes any truthy object through): logs what it is asked, answers by script"""

    def __init__(self, script, keyfn):
        self.script, self.keyfn, self.asked = script, keyfn, []

    def match(self, rec):
        self.asked.append(rec)
        v = self.script.get(self.keyfn(rec), True)
        if v == "raise":
            raise _Boom()
        return v


def _probe_input(short, workdir):
    """-> (open_reader(selector) -> reader object, key function, set of keys of plain-JSON objects)"""
    import datetime as dt
    import os

    from flow.record import RecordDescriptor, RecordWriter
    ts = dt.datetime(2020, 1, 1, tzinfo=dt.timezone.utc)
    P1 = RecordDescriptor("probe/one", [("varint", "n"), ("string", "s")])
    P2 = RecordDescriptor("probe/two", [("varint", "n"), ("string", "t")])
    plain = set()
    if short in ("avro", "csv"):
        recs = [P1(n=i, s="v%d" % i, _generated=ts) for i in range(7)]
    elif short == "sqlite":
        recs = [P1(n=i, s="v", _generated=ts) for i in range(5)] + [P2(n=10 + i, t="w", _generated=ts) for i in range(4)]
    else:
        recs = [(P1(n=i, s="v", _generated=ts) if i % 3 != 1 else P2(n=i, t="w", _generated=ts)) for i in range(7)]
    ext = dict(stream=".records", json=".json", avro=".avro", csv=".csv", sqlite=".db")[short]
    scheme = dict(stream="", json="jsonfile://", avro="avro://", csv="csvfile://", sqlite="sqlite://")[short]
    path = os.path.join(workdir, "probe" + ext)
    w = RecordWriter(scheme + path)
    try:
        for r in recs:
            w.write(r)
        w.flush()
    finally:
        w.close()
    if short == "json":
        lines = open(path).read().split("\n")[:-1]
        mk = lambda k: '{"n": %d, "s": "p", "_generated": "2020-01-01T00:00:00+00:00"}' % k  # noqa: E731
        recpos = [i for i, ln in enumerate(lines) if '"recorddescriptor"' not in ln.split("_data")[0] or '"_type": "record"' in ln]
        # plain objects first, in the middle (after a record line) and last
        mid = recpos[len(recpos) // 2] + 1
        lines = [mk(100)] + lines[:mid] + [mk(101)] + lines[mid:] + [mk(102)]
        open(path, "w").write("\n".join(lines) + "\n")
        plain = {100, 101, 102}

    def open_reader(selector):
        if short == "stream":
            from flow.record.stream import RecordStreamReader
            fp = open(path, "rb")
            return RecordStreamReader(fp, selector=selector), fp
        if short == "json":
            from flow.record.adapter.jsonfile import JsonfileReader
            return JsonfileReader(path, selector=selector), None
        if short == "avro":
            from flow.record.adapter.avro import AvroReader
            return AvroReader(path, selector=selector), None
        if short == "csv":
            from flow.record.adapter.csvfile import CsvfileReader
            return CsvfileReader(path, selector=selector), None
        from flow.record.adapter.sqlite import SqliteReader
        return SqliteReader(path, batch_size=2, selector=selector), None

    return open_reader, (lambda rec: int(rec.n)), plain


def _run_reader(open_reader, selector):
    rd, fp = open_reader(selector)
    out, err = [], None
    try:
        try:
            for r in rd:
                out.append(r)
        except _Boom:
            err = "Boom"
    finally:
        try:
            rd.close()
        except Exception:  # noqa
            pass
        if fp is not None:
            fp.close()
    return out, err


def observe_reader(short):
    """-> dict(on_record=site, on_plain=site|None); Unsupported when the behaviour on the probes fits no shape"""
    import shutil
    import tempfile

    from flow.record import Record
    base = os.environ.get("VERIF_PROBE_DIR") or "/verif/.work"
    os.makedirs(base, exist_ok=True)
    workdir = tempfile.mkdtemp(prefix="c10probe.", dir=base)
    try:
        open_reader, keyfn, plain = _probe_input(short, workdir)
        unf, err = _run_reader(open_reader, None)
        if err or not unf or not all(isinstance(r, Record) for r in unf):
            raise Unsupported("%s probe: the unfiltered reading failed" % short)
        K = [keyfn(r) for r in unf]
        if len(set(K)) != len(K):
            raise Unsupported("%s probe: keys are not unique" % short)
        if short == "json" and not plain <= set(K):
            plain = plain & set(K)
        L = len(K)
        first, mid, last = K[0], K[L // 2], K[-1]
        scripts = [
            {}, {k: False for k in K}, {first: False}, {mid: False}, {last: False},
            {k: (k in (first,)) for k in K}, {k: (k in (mid,)) for k in K}, {k: (k in (last,)) for k in K},
            {k: (i % 2 == 0) for i, k in enumerate(K)}, {k: (i % 2 == 1) for i, k in enumerate(K)},
            {first: "raise"}, {mid: "raise"}, {last: "raise"}, {K[1]: False, mid: "raise"},
        ]
        for pk in sorted(plain):
            scripts += [{pk: False}, {k: (k == pk) for k in K}, {pk: "raise"}]
        group = {k: ("plain" if k in plain else "record") for k in K}
        observed = []
        for sc in scripts:
            stub = _Stub(sc, keyfn)
            got, err = _run_reader(open_reader, stub)
            if not all(isinstance(r, Record) for r in stub.asked) or not all(isinstance(r, Record) for r in got):
                raise Unsupported("%s probe: the selector was asked about / the reader yielded something that is not a record" % short)
            observed.append((sc, stub.asked, got, err))

        def simulate(shape, sc):
            asked, got, err, prev = [], [], None, None
            for k in K:
                st = shape[group[k]]
                if st["guard"] == "GNone":
                    got.append(k)
                    prev = k
                    continue
                t = k if st["same"] else (prev if prev is not None else k)
                asked.append(t)
                v = sc.get(t, True)
                if v == "raise":
                    err = "Boom"
                    break
                if v:
                    got.append(k)
                elif st["stops"]:
                    break
                prev = k
            return asked, got, err

        site_space = [dict(guard="GNone", same=True, stops=False)] + [
            dict(guard="GSelOrMatch", same=sm, stops=sp) for sm in (True, False) for sp in (False, True)]
        fits = []
        for rs in site_space:
            for ps in (site_space if plain else [None]):
                shape = dict(record=rs, plain=ps)
                if all(simulate(shape, sc) == ([keyfn(r) for r in asked], [keyfn(r) for r in got], err) for sc, asked, got, err in observed):
                    fits.append(shape)
        if len(fits) != 1:
            sc, asked, got, err = observed[3]
            raise Unsupported("%s probe: the filter behaviour fits %d loop shapes (e.g. non-match in the middle: asked %s, yielded %s, "
                              "error %s)" % (short, len(fits), [keyfn(r) for r in asked], [keyfn(r) for r in got], err))
        shape = fits[0]
        # the yielded objects are the very objects that were tested
        for sc, asked, got, err in observed:
            by_key = {keyfn(r): r for r in asked}
            for r in got:
                st = shape[group[keyfn(r)]]
                if st["guard"] == "GSelOrMatch" and st["same"] and by_key.get(keyfn(r)) is not r:
                    raise Unsupported("%s probe: a yielded object is not the object that was tested" % short)
        return dict(on_record=shape["record"], on_plain=shape["plain"])
    finally:
        shutil.rmtree(workdir, ignore_errors=True)


def reader_shape(short, fn):
    """the observed shape; the source shape is the cross-check.  -> (Coq term, note or None)"""
    ob = observe_reader(short)
    note = None
    try:
        af = _ast_reader_shape(short, fn)
    except Hazard:
        raise
    except Unsupported as e:
        af = None
        note = "shape of %s not recognised (%s): observed filter behaviour on the probe input used" % (fn.__qualname__, e)
        # what the probes cannot clear: an exit from the loop that the recogniser could not attribute to a guard
        node = _fdef(fn)
        exits = [n for n in ast.walk(node) if isinstance(n, (ast.Break, ast.Return))]
        if exits and not ob["on_record"]["stops"]:
            raise Hazard("`%s` in the reader loop %s, and its shape is not recognised" % (type(exits[0]).__name__.lower(), _where(fn, exits[0])))
    if af is not None and af != ob:
        if True:
            raise Unsupported("%s: the source shape %s contradicts the observed behaviour %s" % (fn.__qualname__, af, ob))
    term = "{| on_record := %s; on_plain := %s |}" % (
        _site_term(ob["on_record"]), ("Some " + _site_term(ob["on_plain"])) if ob["on_plain"] else "None")
    return term, note


# ------------------------------------------------------------------------------------------
# matcher classes

def _stores_through_self(fnnode, selfname):
    """instance attributes written or mutated in place in a method: self.X = / self.X[..] = / del / aug-assign /
    self.X.<mutator>(...)"""
    out = set()
    for n in ast.walk(fnnode):
        tg = []
        if isinstance(n, ast.Assign):
            tg = n.targets
        elif isinstance(n, (ast.AugAssign, ast.AnnAssign)):
            tg = [n.target]
        elif isinstance(n, ast.Delete):
            tg = n.targets
        elif isinstance(n, (ast.For, ast.AsyncFor)):
            tg = [n.target]
        elif isinstance(n, ast.NamedExpr):
            tg = [n.target]
        elif isinstance(n, (ast.With, ast.AsyncWith)):
            tg = [i.optional_vars for i in n.items if i.optional_vars is not None]
        for t in tg:
            for e in ast.walk(t):
                a = _self_attr(e, selfname)
                if a and isinstance(e.ctx, (ast.Store, ast.Del)):
                    out.add(a)
                if isinstance(e, ast.Subscript) and isinstance(e.ctx, (ast.Store, ast.Del)):
                    base = e.value
                    while isinstance(base, ast.Subscript):
                        base = base.value
                    a = _self_attr(base, selfname)
                    if a:
                        out.add(a)
        if isinstance(n, ast.Call) and isinstance(n.func, ast.Attribute) and n.func.attr in MUTATORS:
            base = n.func.value
            while isinstance(base, ast.Subscript):
                base = base.value
            a = _self_attr(base, selfname)
            if a:
                out.add(a)
        if isinstance(n, ast.Call) and isinstance(n.func, ast.Name) and n.func.id in ("setattr", "delattr") and n.args \
                and isinstance(n.args[0], ast.Name) and n.args[0].id == selfname:
            raise Unsupported("setattr(self, ...) line %d" % n.lineno)
    return out


def _self_reads(fnnode, selfname, methods):
    out = set()
    for n in ast.walk(fnnode):
        a = _self_attr(n, selfname)
        if a and isinstance(n.ctx, ast.Load) and a not in methods:
            out.add(a)
        if isinstance(n, ast.Call) and isinstance(n.func, ast.Name) and n.func.id in ("getattr", "vars") and n.args \
                and isinstance(n.args[0], ast.Name) and n.args[0].id == selfname:
            raise Unsupported("getattr(self, ...) line %d" % n.lineno)
        if isinstance(n, ast.Name) and n.id == selfname and isinstance(n.ctx, ast.Load):
            pass
    return out


def _selfname(fnnode):
    if not fnnode.args.args:
        raise Unsupported("method without self: %s" % fnnode.name)
    return fnnode.args.args[0].arg


class _Rename(ast.NodeTransformer):
    def __init__(self, mapping):
        self.mapping = mapping

    def visit_Name(self, node):
        if node.id in self.mapping:
            return ast.copy_location(ast.Name(id=self.mapping[node.id], ctx=node.ctx), node)
        return node


def _helper_call(st, sn, mnames):
    """`self.<method>(<names>)` as a statement -> (method name, [argument names])"""
    if isinstance(st, ast.Expr) and isinstance(st.value, ast.Call) and _self_attr(st.value.func, sn) in mnames \
            and not st.value.keywords and all(isinstance(a, ast.Name) for a in st.value.args):
        return _self_attr(st.value.func, sn), [a.id for a in st.value.args]
    return None


def _mentions_self_attrs(expr, selfname):
    return {a for a in (_self_attr(n, selfname) for n in ast.walk(expr)) if a}


def _context_matcher_ast(sel):
    cls = sel.RecordContextMatcher
    src = textwrap.dedent(inspect.getsource(cls))
    cnode = ast.parse(src).body[0]
    if not isinstance(cnode, ast.ClassDef):
        raise Unsupported("RecordContextMatcher is not a class statement")
    methods = {}
    for st in cnode.body:
        if isinstance(st, ast.FunctionDef):
            methods[st.name] = st
        elif isinstance(st, ast.Expr) and isinstance(st.value, ast.Constant):
            continue
        elif isinstance(st, (ast.Assign, ast.AnnAssign)):
            raise Unsupported("class-level state in RecordContextMatcher line %d" % st.lineno)
        else:
            raise Unsupported("unrecognised class body statement in RecordContextMatcher line %d" % st.lineno)
    if cls.__mro__[1:] != (object,):
        raise Unsupported("RecordContextMatcher has base classes")
    for need in ("__init__", "matches"):
        if need not in methods:
            raise Unsupported("RecordContextMatcher lacks %s" % need)
    mnames = set(methods)
    # __init__
    init = methods["__init__"]
    init_attrs = _stores_through_self(init, _selfname(init))
    # matches: straight-line resets, then `return self.eval(...)`
    m = methods["matches"]
    sn = _selfname(m)
    if len(m.args.args) != 2 or m.args.vararg or m.args.kwarg or m.args.kwonlyargs:
        raise Unsupported("matches has an unexpected signature")
    recname = m.args.args[1].arg
    stmts = _strip_doc(m.body)
    if not stmts or not isinstance(stmts[-1], ast.Return) or stmts[-1].value is None:
        raise Unsupported("matches does not end in `return <evaluation>`")
    ret = stmts[-1]
    if not (isinstance(ret.value, ast.Call) and _self_attr(ret.value.func, sn) in mnames):
        raise Unsupported("matches does not return the result of one of its own evaluation methods")
    eval_entry = _self_attr(ret.value.func, sn)
    reset = []                 # ordered
    dirty = set()
    # a private helper method called as a statement (`self._reset_state(rec)`) is spliced in, one level deep
    helpers = set()
    flat = []
    for st in stmts[:-1]:
        h = _helper_call(st, sn, mnames)
        if h is not None and h[0] != eval_entry and h[0] not in ("__init__", "matches"):
            hname, hargs = h
            hnode = methods[hname]
            hparams = [a.arg for a in hnode.args.args]
            if hnode.args.vararg or hnode.args.kwarg or hnode.args.kwonlyargs or hnode.args.defaults or len(hparams) != len(hargs) + 1:
                raise Unsupported("helper %s is called with an unexpected signature" % hname)
            mapping = dict(zip(hparams, [sn] + hargs))
            body = _strip_doc(hnode.body)
            if body and isinstance(body[-1], ast.Return) and body[-1].value is None:
                body = body[:-1]
            for b in body:
                if any(isinstance(n, (ast.Return, ast.Yield, ast.YieldFrom)) for n in ast.walk(b)):
                    raise Unsupported("helper %s returns / yields" % hname)
                flat.append(_Rename(mapping).visit(ast.parse(ast.unparse(b)).body[0]))
            helpers.add(hname)
        else:
            flat.append(st)
    for st in flat:
        for n in ast.walk(st):
            if isinstance(n, ast.Call) and _self_attr(n.func, sn) in mnames:
                raise Unsupported("matches calls self.%s before the resets are complete (line %d)" % (_self_attr(n.func, sn), n.lineno))
        if isinstance(st, ast.Assign) and len(st.targets) == 1 and _self_attr(st.targets[0], sn):
            a = _self_attr(st.targets[0], sn)
            used = _mentions_self_attrs(st.value, sn) - mnames
            if used <= set(reset):
                if a not in reset:
                    reset.append(a)
                dirty.discard(a)
            else:
                # the new value is computed from state of an earlier call
                if a in reset:
                    reset.remove(a)
                dirty.add(a)
            continue
        if isinstance(st, (ast.Assign, ast.AugAssign, ast.Expr)):
            w = _stores_through_self(st, sn)
            rd = (_mentions_self_attrs(st, sn) - mnames)
            for a in w:
                if a not in reset:
                    dirty.add(a)
            if not (rd <= set(reset) | w):
                raise Unsupported("matches reads un-reset state at line %d" % st.lineno)
            if isinstance(st, ast.Assign) and not w:
                raise Unsupported("matches assigns a local at line %d" % st.lineno)
            continue
        raise Unsupported("unrecognised statement in matches at line %d" % st.lineno)
    reset = [a for a in reset if a not in dirty]
    # evaluation methods: everything except __init__ and matches
    reads, writes = set(), set()
    eval_methods = [n for n in methods if n not in ("__init__", "matches")]
    for h in list(helpers):
        # a reset helper that evaluation also calls stays an evaluation method
        used_elsewhere = any(
            isinstance(n, ast.Attribute) and _self_attr(n, _selfname(methods[o])) == h
            for o in eval_methods if o != h for n in ast.walk(methods[o]))
        if not used_elsewhere:
            eval_methods.remove(h)
    for name in eval_methods:
        fnode = methods[name]
        s2 = _selfname(fnode)
        reads |= _self_reads(fnode, s2, mnames)
        writes |= _stores_through_self(fnode, s2)
    # the entry method's argument must be derived from init-only state
    written_outside_init = set(writes) | _stores_through_self(m, sn)
    for h in helpers:
        written_outside_init |= _stores_through_self(methods[h], _selfname(methods[h]))
    init_only = sorted(a for a in init_attrs if a not in written_outside_init)
    arg_attrs = set()
    for a in ret.value.args:
        arg_attrs |= _mentions_self_attrs(a, sn)
    if not arg_attrs <= set(init_only) | set(reset):
        raise Unsupported("matches evaluates an expression taken from mutable state")
    reads |= arg_attrs
    return dict(init_only=init_only, reset=reset, reads=sorted(reads), writes=sorted(writes), recname=recname, entry=eval_entry)


# ------------------------------------------------------------------------------------------
# observed behaviour on purpose-built probes (the ast recognisers above are the cross-check)

def _probe_records():
    import datetime as dt

    from flow.record import GroupedRecord, RecordDescriptor
    ts = dt.datetime(2020, 1, 1, tzinfo=dt.timezone.utc)
    PA = RecordDescriptor("probe/a", [("varint[]", "il"), ("string", "s"), ("varint", "n")])
    PB = RecordDescriptor("probe/b", [("string", "t")])
    PA2 = RecordDescriptor("probe/a", [("string", "s"), ("string", "extra")])
    a = PA(il=[2, 1], s="q", n=1, _generated=ts)
    b = PB(t="q", _generated=ts)
    a2 = PA2(s="x", extra="q", _generated=ts)
    g = GroupedRecord("probe/g", [PB(t="z", _generated=ts)])
    return dict(a=a, b=b, a2=a2, g=g)


PROBE_EXPR = "any(x == 1 for x in r.il) or r.zz == 1 or Type.string == 'q' or any(f.name == 't' for f in fields('string')) or r.n == 5"


def _equiv(x, y, depth=0):
    """same per-record state? identity, or structurally equal containers, bound methods of the same object,
    helper objects (TypeMatcher) around the same record"""
    import types
    if x is y:
        return True
    if type(x) is not type(y) or depth > 4:
        return False
    if isinstance(x, types.MethodType):
        return x.__func__ is y.__func__ and x.__self__ is y.__self__
    if isinstance(x, dict):
        return list(x.keys()) == list(y.keys()) and all(_equiv(x[k], y[k], depth + 1) for k in x)
    if isinstance(x, (list, tuple)):
        return len(x) == len(y) and all(_equiv(p, q, depth + 1) for p, q in zip(x, y))
    if isinstance(x, (set, frozenset)):
        return x == y
    if isinstance(x, (int, float, str, bytes, bool, type(None))):
        return x == y
    if hasattr(x, "_rec") and hasattr(y, "_rec"):
        return x._rec is y._rec
    return False


def observe_matcher(sel):
    """Run RecordContextMatcher on probe records in several orders and compare the instance state left behind with
    the state a brand-new matcher has after the LAST record alone.
    -> dict(init_only=[...], reset=[...], carried=[...], results_ok=bool)"""
    import ast as _ast
    P = _probe_records()
    expr = compile(PROBE_EXPR, "<probe>", "eval", flags=_ast.PyCF_ONLY_AST)

    def new():
        return sel.RecordContextMatcher(expr, PROBE_EXPR)

    def snap(m):
        return dict(vars(m))

    import copy as _copy
    attrs = list(snap(new()))
    histories = [["a", "b", "a"], ["b", "a"], ["a2", "a"], ["g", "b", "a"], ["a", "a"], ["a"], ["b"], ["a", "b"], ["a", "a2"], ["b", "g"]]
    carried, changed = set(), set()
    results_ok = True
    for h in histories:
        m = new()
        at_init = snap(m)
        at_init_content = {k: _copy.copy(v) for k, v in at_init.items() if isinstance(v, (dict, list, set))}
        res = None
        for k in h:
            res = m.matches(P[k])
        f = new()
        want = f.matches(P[h[-1]])
        if bool(res) != bool(want):
            results_ok = False
        sm, sf = snap(m), snap(f)
        for a in set(sm) | set(sf):
            if a not in attrs:
                attrs.append(a)
            if a not in sm or a not in sf or not _equiv(sm[a], sf[a]):
                carried.add(a)
                continue
            # changed since __init__: another object, or the same container with other content
            if a not in at_init or sm[a] is not at_init[a] or (a in at_init_content and sm[a] != at_init_content[a]):
                changed.add(a)
    # init-only = never differs from the state right after __init__ (same immutable value / identical object and
    # equal content); compare against a second fresh instance to separate per-instance constants
    init_only = [a for a in attrs if a not in changed and a not in carried]
    reset = [a for a in attrs if a in changed and a not in carried]
    return dict(init_only=sorted(init_only), reset=reset, carried=sorted(carried), results_ok=results_ok, attrs=attrs)


def context_matcher_facts(sel):
    """ast analysis cross-checked with / replaced by the observation"""
    ob = observe_matcher(sel)
    note = None
    try:
        af = _context_matcher_ast(sel)
    except Unsupported as e:
        af = None
        note = str(e)
    if not ob["results_ok"]:
        # the result itself depends on the history on the probes: state that is carried
        ob["carried"] = sorted(set(ob["carried"]) | {"<result>"})
    if af is not None:
        for a in ob["carried"]:
            if a in af["reset"]:
                raise Unsupported("matches resets self.%s by the source, but on the probes it keeps state of earlier records" % a)
        for a in af["reset"]:
            if a in ob["init_only"] and a in ob["attrs"] and a == "data":
                raise Unsupported("matches resets self.data by the source, but on the probes it never changes")
        # anything observed to be carried is a write the next call does not undo
        af["writes"] = sorted(set(af["writes"]) | set(ob["carried"]))
        af["note"] = None
        return af
    # source shape not recognised: the observation decides.  Every instance attribute is either unchanged since
    # __init__ or equals a brand-new matcher's after the same record; conservatively, evaluation reads and writes all
    # of the others.
    others = [a for a in ob["attrs"] if a not in ob["init_only"]]
    return dict(init_only=ob["init_only"], reset=ob["reset"], reads=sorted(ob["attrs"]), writes=sorted(set(others) | set(ob["carried"])),
                recname="?", entry="?", note="shape of RecordContextMatcher.matches not recognised (%s): observed behaviour on probe "
                                               "histories used" % note)


def observe_selector_match(sel):
    """-> reuses (bool); raises Unsupported when the behaviour on the probes is not that of
    `<one matcher per Selector or per call>.matches(record)`"""
    import ast as _ast
    P = _probe_records()
    s = sel.Selector(PROBE_EXPR)
    if s.matcher is not None:
        raise Unsupported("Selector.__init__ creates self.matcher eagerly (observed)")
    expr = compile(PROBE_EXPR, "<probe>", "eval", flags=_ast.PyCF_ONLY_AST)
    seen = []
    before = dict(vars(s))
    for k in ["a", "b", "a", "g", "a2", "b", "a"]:
        got = s.match(P[k])
        want = sel.RecordContextMatcher(expr, PROBE_EXPR).matches(P[k])
        if type(got) is not type(want) or got != want:
            raise Unsupported("Selector.match(%s probe) is not what a new matcher answers (observed)" % k)
        seen.append(s.matcher)
    after = dict(vars(s))
    extra = sorted(set(after) - set(before))
    if extra:
        raise Unsupported("Selector.match creates new instance state %s (observed)" % extra)
    for a in before:
        if a != "matcher" and after[a] is not before[a]:
            raise Unsupported("Selector.match rebinds self.%s (observed)" % a)
    if any(m is None or type(m) is not sel.RecordContextMatcher for m in seen):
        return False
    return all(m is seen[0] for m in seen)


def observe_compiled_match(sel):
    """-> copied (bool): after matches that bind names while evaluating, self.ns is the same dict with the same
    bindings as before"""
    P = _probe_records()
    c = sel.CompiledSelector("[(probe_name := r.s), (lower := upper)][0] == 'q' or r.zz == 1")
    ns_obj = c.ns
    before = dict(c.ns)
    vars_before = dict(vars(c))
    for k in ["a", "b", "a2", "a"]:
        c.match(P[k])
    same = c.ns is ns_obj and list(c.ns.keys()) == list(before.keys()) and all(c.ns[k] is before[k] for k in before)
    vars_after = dict(vars(c))
    if set(vars_after) != set(vars_before) or any(vars_after[a] is not vars_before[a] for a in vars_before):
        return False
    e = sel.CompiledSelector("")
    nsb = dict(e.ns)
    if e.match(P["a"]) is not True or dict(e.ns) != nsb:
        return False
    return same


class _LoggingList(list):
    """a list field value that logs every mutation"""
    _log = None
    _tag = ""

    def _w(self, what):
        if self._log is not None:
            self._log.append("%s.%s" % (self._tag, what))


for _m in ("__setitem__", "__delitem__", "__iadd__", "__imul__", "append", "extend", "insert", "pop", "remove", "clear", "sort", "reverse"):
    def _mk(_m=_m):
        def f(self, *a, **k):
            self._w(_m)
            return getattr(list, _m)(self, *a, **k)
        f.__name__ = _m
        return f
    setattr(_LoggingList, _m, _mk())


def _write_probe_records(log):
    """probe records of several shapes; their list-valued fields are replaced by logging lists of the same class
    hierarchy position (list subclass), a nested record and a grouped record included"""
    import datetime as dt

    from flow.record import GroupedRecord, RecordDescriptor
    ts = dt.datetime(2020, 1, 1, tzinfo=dt.timezone.utc)
    W = RecordDescriptor("probe/w", [("varint[]", "il"), ("string[]", "sl"), ("string", "s"), ("varint", "n"), ("uri", "u"),
                                     ("path", "p"), ("bytes", "raw"), ("datetime", "ts"), ("net.ipaddress", "ip"), ("digest", "dg")])
    V = RecordDescriptor("probe/v", [("string", "t"), ("record", "sub"), ("record[]", "subs")])
    w1 = W(il=[2, 1], sl=["q", "x"], s="q", n=1, u="http://h/a/b", p="/tmp/q", raw=b"q", ts=ts, ip="10.0.0.1",
           dg=("d41d8cd98f00b204e9800998ecf8427e", None, None), _generated=ts)
    w2 = W(il=[], sl=None, s=None, n=None, _generated=ts)
    v1 = V(t="q", sub=W(il=[1], sl=["q"], s="z", n=5, _generated=ts), subs=[W(il=[3], s="q", n=2, _generated=ts)], _generated=ts)
    g1 = GroupedRecord("probe/g", [W(il=[1, 5], sl=["y"], s="q", n=3, _generated=ts), V(t="w", sub=None, subs=[], _generated=ts)])
    recs = dict(w1=w1, w2=w2, v1=v1, g1=g1)

    def wrap(rec, tag):
        for t, nm in rec._desc.get_field_tuples():
            val = object.__getattribute__(rec, nm) if nm in getattr(type(rec), "__slots__", ()) else None
            if isinstance(val, list) and type(rec).__name__ != "GroupedRecord":
                ll = _LoggingList(val)
                ll._log, ll._tag = log, "%s.%s" % (tag, nm)
                object.__setattr__(rec, nm, ll)
                for i, x in enumerate(val):
                    if hasattr(x, "_desc"):
                        wrap(x, "%s.%s[%d]" % (tag, nm, i))
            elif hasattr(val, "_desc"):
                wrap(val, "%s.%s" % (tag, nm))
    for k, r in recs.items():
        if type(r).__name__ == "GroupedRecord":
            for i, m in enumerate(r.records):
                wrap(m, "%s[%d]" % (k, i))
        else:
            wrap(r, k)
    return recs


WRITE_BATTERY = [
    PROBE_EXPR,
    "field_contains(r, ['sl', 'il', 's', 't', 'u', 'p'], ['nomatch'], nocase=False) or field_equals(r, ['sl', 's'], ['nomatch']) "
    "or field_regex(r, ['sl', 's', 't'], 'nomatch')",
    "field_contains(r, ['s', 't', 'sl'], ['q']) or field_equals(r, ['s'], ['q']) or field_regex(r, ['s', 'u'], 'q')",
    "field_contains(r, (f.name for f in fields('string')), ['q'], word_boundary=True)",
    "has_field(r, 's') and name(r) == 'probe/w' and 'probe/w' in names(r)", "lower(r.s) == 'q' or upper(r.t) == 'Q'",
    "'q' in Type.string or Type.varint > 0 or Type.uri.filename == 'b' or field_contains(r, Type.string, ['q'])",
    "r.s in ['q'] and r.n not in [2]", "get_type(r.s) == 'string'", "any(x == 1 for x in r.il) and all(e != 'z' for e in r.sl)",
    "any(x > 1 for x in r.il if x != 3) or 'q' in r.sl or r.il == [2, 1]", "r.sub.s == 'z' or any(x == 1 for x in r.sub.il)",
    "r.u.filename == 'b' or r.p.name == 'q' or r.raw == b'q' or r.ip == '10.0.0.1'", "r.dg.md5 == 'd41d8cd98f00b204e9800998ecf8427e'",
    "not r.n == 1 and (r.zz == 1 or r.s != 'q')", "1 < r.n < 3", "r.n + 1 == 2", "str(r.s) == 'q' and repr(r.n) == '1'",
]


def observe_record_writes(sel):
    """Match logging probe records with both engines over a battery of expressions: every attribute store / delete
    on a record (Record/GroupedRecord.__setattr__/__delattr__) and every mutation of a list-valued field is logged;
    the deep observation of every probe record before and after must be equal.  -> list of observed writes"""
    from flow.record import base

    from vf import recgen
    log = []
    recs = _write_probe_records(log)
    del log[:]
    patched = []
    for cls in (base.Record, base.GroupedRecord):
        for nm in ("__setattr__", "__delattr__"):
            own = nm in cls.__dict__
            orig = cls.__dict__[nm] if own else getattr(cls, nm)
            patched.append((cls, nm, orig, own))

            def logged(self, *a, _orig=orig, _nm=nm, _cls=cls):
                log.append("%s.%s(%s)" % (_cls.__name__, _nm, a[0] if a else ""))
                return _orig(self, *a)
            setattr(cls, nm, logged)
    try:
        def snap():
            out = {}
            for k, r in recs.items():
                try:
                    out[k] = repr(recgen.canon(recgen.obs_item(r)))
                except Exception as e:  # noqa
                    out[k] = "unobservable: %s" % type(e).__name__
            return out
        before = snap()
        del log[:]
        for e in WRITE_BATTERY:
            for mk in (sel.Selector, sel.CompiledSelector):
                so = mk(e)
                for k in recs:
                    for _ in range(2):
                        try:
                            so.match(recs[k])
                        except Exception:  # noqa  (a raising selector is fine here; only writes are of interest)
                            pass
        writes = list(log)
        after = snap()
        for k in recs:
            if before[k] != after[k]:
                writes.append("deep observation of probe %s differs after matching" % k)
    finally:
        for cls, nm, orig, own in patched:
            if own:
                setattr(cls, nm, orig)
            else:
                delattr(cls, nm)
    out = []
    for x in writes:
        if x not in out:
            out.append(x)
    return out


def selector_match_facts(sel):
    """observed on probes; the source shape is the cross-check"""
    ob = observe_selector_match(sel)
    try:
        af = _selector_match_ast(sel)
    except Unsupported as e:
        return ob, "shape of Selector.match not recognised (%s): observed behaviour used" % e
    if af != ob:
        raise Unsupported("Selector.match: the source says reuse=%s, the probes say %s" % (af, ob))
    return ob, None


def compiled_match_facts(sel):
    ob = observe_compiled_match(sel)
    try:
        af = _compiled_match_ast(sel)
    except Unsupported as e:
        return ob, "shape of CompiledSelector.match not recognised (%s): observed behaviour used" % e
    if af and not ob:
        raise Unsupported("CompiledSelector.match: the source copies self.ns, but on the probes self.ns changes")
    return (af and ob), None


def _selector_match_ast(sel):
    """Selector.match: [if not self.matcher: self.matcher = RecordContextMatcher(self.expression, self.expression_str)]
    then return self.matcher.matches(<arg>)  (possibly through one local).  -> reuses: bool"""
    fn = sel.Selector.match
    node = _fdef(fn)
    sn = _selfname(node)
    if len(node.args.args) != 2 or node.args.vararg or node.args.kwarg or node.args.kwonlyargs or node.args.defaults:
        raise Unsupported("Selector.match has an unexpected signature")
    arg = node.args.args[1].arg
    stmts = _strip_doc(node.body)

    def is_ctor(e):
        return (isinstance(e, ast.Call) and isinstance(e.func, ast.Name) and e.func.id == "RecordContextMatcher"
                and len(e.args) >= 2 and _self_attr(e.args[0], sn) == "expression" and _self_attr(e.args[1], sn) == "expression_str"
                and not e.keywords and len(e.args) == 2)

    def is_matches_call(e, recv):
        if not (isinstance(e, ast.Call) and isinstance(e.func, ast.Attribute) and e.func.attr == "matches" and len(e.args) == 1
                and not e.keywords and isinstance(e.args[0], ast.Name) and e.args[0].id == arg):
            return False
        if recv == "self.matcher":
            return _self_attr(e.func.value, sn) == "matcher"
        return isinstance(e.func.value, ast.Name) and e.func.value.id == recv

    reuses = None
    recv = None
    i = 0
    if i < len(stmts) and isinstance(stmts[i], ast.If) and not stmts[i].orelse:
        t = stmts[i].test
        lazy = (isinstance(t, ast.UnaryOp) and isinstance(t.op, ast.Not) and _self_attr(t.operand, sn) == "matcher") or (
            isinstance(t, ast.Compare) and len(t.ops) == 1 and isinstance(t.ops[0], ast.Is) and _self_attr(t.left, sn) == "matcher"
            and isinstance(t.comparators[0], ast.Constant) and t.comparators[0].value is None)
        b = stmts[i].body
        if lazy and len(b) == 1 and isinstance(b[0], ast.Assign) and len(b[0].targets) == 1 \
                and _self_attr(b[0].targets[0], sn) == "matcher" and is_ctor(b[0].value):
            reuses, recv = True, "self.matcher"
            i += 1
    elif i < len(stmts) and isinstance(stmts[i], ast.Assign) and len(stmts[i].targets) == 1 and is_ctor(stmts[i].value):
        tg = stmts[i].targets[0]
        if isinstance(tg, ast.Name):
            reuses, recv = False, tg.id
            i += 1
        elif _self_attr(tg, sn) == "matcher":
            reuses, recv = False, "self.matcher"
            i += 1
    if reuses is None:
        raise Unsupported("Selector.match does not start by creating its matcher (%s)" % _where(fn, stmts[0] if stmts else node))
    rest = stmts[i:]
    ok = False
    if len(rest) == 1 and isinstance(rest[0], ast.Return) and is_matches_call(rest[0].value, recv):
        ok = True
    if len(rest) == 2 and isinstance(rest[0], ast.Assign) and len(rest[0].targets) == 1 and isinstance(rest[0].targets[0], ast.Name) \
            and is_matches_call(rest[0].value, recv) and isinstance(rest[1], ast.Return) and isinstance(rest[1].value, ast.Name) \
            and rest[1].value.id == rest[0].targets[0].id:
        ok = True
    if not ok:
        raise Unsupported("Selector.match does not return <matcher>.matches(%s) (%s)" % (arg, _where(fn, rest[0] if rest else node)))
    # __init__ must leave self.matcher empty, and nothing else of Selector may touch it
    cls_src = textwrap.dedent(inspect.getsource(sel.Selector))
    cnode = ast.parse(cls_src).body[0]
    for st in cnode.body:
        if isinstance(st, ast.FunctionDef) and st.name not in ("match",):
            w = _stores_through_self(st, _selfname(st)) if st.args.args else set()
            if st.name == "__init__":
                found = False
                for n in ast.walk(st):
                    if isinstance(n, ast.Assign) and any(_self_attr(t, _selfname(st)) == "matcher" for t in n.targets):
                        if not (isinstance(n.value, ast.Constant) and n.value.value is None):
                            raise Unsupported("Selector.__init__ creates self.matcher eagerly")
                        found = True
                if not found:
                    raise Unsupported("Selector.__init__ does not initialise self.matcher")
            elif "matcher" in w:
                raise Unsupported("Selector.%s writes self.matcher" % st.name)
    return reuses


def _compiled_match_ast(sel):
    """CompiledSelector.match: optional `if self.code is None: return True`; N = self.ns.copy() (dict(self.ns),
    {**self.ns, ..}); N.update(..)/N[..] = ..; return eval(self.code, N).  -> copied: bool"""
    fn = sel.CompiledSelector.match
    node = _fdef(fn)
    sn = _selfname(node)
    stmts = _strip_doc(node.body)
    if _stores_through_self(node, sn) - {"ns"}:
        raise Unsupported("CompiledSelector.match stores into self.%s" % sorted(_stores_through_self(node, sn) - {"ns"}))
    if not stmts or not isinstance(stmts[-1], ast.Return):
        raise Unsupported("CompiledSelector.match does not end in return")
    ret = stmts[-1].value
    if not (isinstance(ret, ast.Call) and isinstance(ret.func, ast.Name) and ret.func.id == "eval" and 2 <= len(ret.args) <= 3
            and not ret.keywords and _self_attr(ret.args[0], sn) == "code"):
        raise Unsupported("CompiledSelector.match does not return eval(self.code, <namespace>)")
    copied = True
    local_copies = set()
    aliases = set()

    def is_copy(e):
        if isinstance(e, ast.Call) and isinstance(e.func, ast.Attribute) and e.func.attr == "copy" and not e.args \
                and _self_attr(e.func.value, sn) == "ns":
            return True
        if isinstance(e, ast.Call) and isinstance(e.func, ast.Name) and e.func.id == "dict" and len(e.args) == 1 \
                and _self_attr(e.args[0], sn) == "ns":
            return True
        if isinstance(e, ast.Dict) and e.keys and e.keys[0] is None and _self_attr(e.values[0], sn) == "ns":
            return True
        return False

    for st in stmts[:-1]:
        if isinstance(st, ast.If) and not st.orelse and len(st.body) == 1 and isinstance(st.body[0], ast.Return) \
                and isinstance(st.body[0].value, ast.Constant) and st.body[0].value.value is True:
            t = st.test
            if (isinstance(t, ast.Compare) and len(t.ops) == 1 and isinstance(t.ops[0], ast.Is) and _self_attr(t.left, sn) == "code"
                    and isinstance(t.comparators[0], ast.Constant) and t.comparators[0].value is None) or (
                    isinstance(t, ast.UnaryOp) and isinstance(t.op, ast.Not) and _self_attr(t.operand, sn) == "code"):
                continue
            raise Unsupported("CompiledSelector.match: unrecognised early return (%s)" % _where(fn, st))
        if isinstance(st, ast.Assign) and len(st.targets) == 1 and isinstance(st.targets[0], ast.Name):
            if is_copy(st.value):
                local_copies.add(st.targets[0].id)
                continue
            if _self_attr(st.value, sn) == "ns":
                aliases.add(st.targets[0].id)
                continue
            raise Unsupported("CompiledSelector.match: unrecognised assignment (%s)" % _where(fn, st))
        if isinstance(st, ast.Expr) and isinstance(st.value, ast.Call) and isinstance(st.value.func, ast.Attribute) \
                and st.value.func.attr == "update":
            base = st.value.func.value
            if isinstance(base, ast.Name) and base.id in local_copies:
                continue
            if (isinstance(base, ast.Name) and base.id in aliases) or _self_attr(base, sn) == "ns":
                copied = False
                continue
        if isinstance(st, ast.Assign) and len(st.targets) == 1 and isinstance(st.targets[0], ast.Subscript):
            base = st.targets[0].value
            if isinstance(base, ast.Name) and base.id in local_copies:
                continue
            if (isinstance(base, ast.Name) and base.id in aliases) or _self_attr(base, sn) == "ns":
                copied = False
                continue
        raise Unsupported("CompiledSelector.match: unrecognised statement (%s)" % _where(fn, st))
    nsarg = ret.args[1]
    if isinstance(nsarg, ast.Name) and nsarg.id in local_copies:
        pass
    elif (isinstance(nsarg, ast.Name) and nsarg.id in aliases) or _self_attr(nsarg, sn) == "ns":
        copied = False
    else:
        raise Unsupported("CompiledSelector.match evaluates in an unrecognised namespace")
    if len(ret.args) == 3:
        raise Unsupported("CompiledSelector.match passes a locals mapping to eval")
    return copied


RECORD_PARAM_NAMES = {"r", "rec", "record"}
RECORD_SELF_ATTRS = {"rec", "_rec", "record"}


def record_write_sites(sel):
    """Cross-check of the observed fact: stores in selector.py whose target PROVABLY is the record being matched or
    one of its values -- the container stored into is a parameter named r/rec/record, self.rec / self._rec /
    self.record, something read from one of those (attribute, item, getattr), or a local bound to such a thing.
    Stores into local containers, into the matcher's / selector's own attributes and into module tables are not
    record writes."""
    tree = ast.parse(open(sel.__file__).read())
    out = []

    def scan(fnode, selfname):
        params = [a.arg for a in fnode.args.args + fnode.args.kwonlyargs]
        recnames = {p for p in params if p in RECORD_PARAM_NAMES and p != selfname}
        for n in ast.walk(fnode):
            if n is not fnode and isinstance(n, (ast.FunctionDef, ast.Lambda)):
                args = n.args
                recnames |= {a.arg for a in args.args if a.arg in RECORD_PARAM_NAMES}

        def is_rec(e):
            """does the expression denote the record or a value reached from it?"""
            if isinstance(e, ast.Name):
                return e.id in recnames
            if isinstance(e, ast.Attribute):
                if selfname and isinstance(e.value, ast.Name) and e.value.id == selfname:
                    return e.attr in RECORD_SELF_ATTRS
                return is_rec(e.value)
            if isinstance(e, ast.Subscript):
                return is_rec(e.value)
            if isinstance(e, ast.Call) and isinstance(e.func, ast.Name) and e.func.id == "getattr" and e.args:
                return is_rec(e.args[0])
            return False

        # locals bound to the record / its values (two rounds for chains)
        for _ in range(2):
            for n in ast.walk(fnode):
                if isinstance(n, ast.Assign) and is_rec(n.value):
                    for t in n.targets:
                        if isinstance(t, ast.Name):
                            recnames.add(t.id)
        # ... unless the name is also bound to something that is not the record (then nothing is provable)
        for n in ast.walk(fnode):
            if isinstance(n, ast.Assign) and not is_rec(n.value):
                for t in n.targets:
                    if isinstance(t, ast.Name) and t.id in recnames and t.id not in params:
                        recnames.discard(t.id)
        for n in ast.walk(fnode):
            tg = []
            if isinstance(n, ast.Assign):
                tg = n.targets
            elif isinstance(n, (ast.AugAssign, ast.AnnAssign)):
                tg = [n.target]
            elif isinstance(n, ast.Delete):
                tg = n.targets
            for t in tg:
                for e in ast.walk(t):
                    if isinstance(e, (ast.Attribute, ast.Subscript)) and isinstance(e.ctx, (ast.Store, ast.Del)) and is_rec(e.value):
                        out.append("line %d: %s" % (n.lineno, ast.unparse(e)))
            if isinstance(n, ast.Call):
                f = n.func
                if isinstance(f, ast.Name) and f.id in ("setattr", "delattr") and n.args and is_rec(n.args[0]):
                    out.append("line %d: %s(%s, ..)" % (n.lineno, f.id, ast.unparse(n.args[0])))
                if isinstance(f, ast.Attribute) and f.attr in ("__setattr__", "__delattr__", "__setitem__", "__delitem__") \
                        and ((n.args and is_rec(n.args[0])) or is_rec(f.value)):
                    out.append("line %d: %s" % (n.lineno, ast.unparse(f)))
                if isinstance(f, ast.Attribute) and f.attr in MUTATORS and is_rec(f.value):
                    out.append("line %d: %s(..)" % (n.lineno, ast.unparse(f)))

    for n in tree.body:
        if isinstance(n, ast.FunctionDef):
            scan(n, None)
        elif isinstance(n, ast.ClassDef):
            for m in n.body:
                if isinstance(m, ast.FunctionDef):
                    scan(m, m.args.args[0].arg if m.args.args else None)
    seen = []
    for o in out:
        if o not in seen:
            seen.append(o)
    return seen


def make_selector_table(sel):
    fn = sel.make_selector
    node = _fdef(fn)
    if [a.arg for a in node.args.args] != ["selector", "force_compiled"] or node.args.vararg or node.args.kwarg:
        raise Unsupported("make_selector has an unexpected signature")
    # the decision may look at the argument only through truthiness and isinstance
    for n in ast.walk(node):
        if isinstance(n, (ast.If, ast.IfExp, ast.While)):
            for v in _flatten_tests(n.test):
                if isinstance(v, ast.Name) and v.id in ("selector", "force_compiled"):
                    continue
                if isinstance(v, ast.UnaryOp) and isinstance(v.op, ast.Not) and isinstance(v.operand, ast.Name) \
                        and v.operand.id in ("selector", "force_compiled"):
                    continue
                if _isinstance_of(v) and _isinstance_of(v)[0] == "selector":
                    continue
                if isinstance(v, ast.Call) and isinstance(v.func, ast.Name) and v.func.id == "isinstance" and len(v.args) == 2 \
                        and isinstance(v.args[0], ast.Name) and v.args[0].id == "selector":
                    continue
                if isinstance(v, ast.Compare) and len(v.ops) == 1 and isinstance(v.ops[0], (ast.Is, ast.IsNot)) \
                        and isinstance(v.left, ast.Name) and v.left.id == "selector" and isinstance(v.comparators[0], ast.Constant) \
                        and v.comparators[0].value is None:
                    continue
                raise Unsupported("make_selector decides on something else than truthiness / isinstance (%s)" % _where(fn, n))

    class Other:
        def match(self, record):
            return True

    text = "r.x == 1"
    inputs = [
        ("InFalsy", [lambda: None, lambda: "", lambda: 0]),
        ("InText", [lambda: text]),
        ("InSelector", [lambda: sel.Selector(text)]),
        ("InCompiled", [lambda: sel.CompiledSelector(text)]),
        ("InOther", [lambda: Other()]),
    ]
    rows = []
    for kind, makers in inputs:
        for force in (False, True):
            outs = set()
            for mk in makers:
                x = mk()
                r = fn(x, force) if force else fn(x)
                r2 = fn(x, force_compiled=force)
                o = _classify(sel, x, r, text)
                if _classify(sel, x, r2, text) != o:
                    raise Unsupported("make_selector(%s) depends on how force_compiled is passed" % kind)
                outs.add(o)
            if len(outs) != 1:
                raise Unsupported("make_selector is not uniform on %s inputs: %s" % (kind, sorted(outs)))
            rows.append((kind, force, outs.pop()))
    return rows


def _flatten_tests(t):
    if isinstance(t, ast.BoolOp):
        out = []
        for v in t.values:
            out += _flatten_tests(v)
        return out
    return [t]


def _classify(sel, x, r, text):
    if r is None:
        return "OutNone"
    if r is x:
        return "OutSame"
    if type(r) is sel.Selector and r.expression_str == text and r.matcher is None:
        return "OutNewSelector"
    if type(r) is sel.CompiledSelector and r.expression == text:
        return "OutNewCompiled"
    raise Unsupported("make_selector returned an unexpected object %r" % (r,))


def gen_filter():
    import importlib

    import flow.record.selector as sel
    out = HEADER
    out += "From Coq Require Import List Bool String.\nImport ListNotations.\nFrom FR Require Import Filter.\nOpen Scope string_scope.\n\n"
    out += "(* the yield sites of each reader's __iter__ *)\n"
    for short, kname, modname, clsname in READERS:
        mod = importlib.import_module(modname)
        cls = getattr(mod, clsname)
        if "__iter__" not in cls.__dict__:
            raise Unsupported("%s does not define __iter__ itself" % clsname)
        term, note = reader_shape(short, cls.__dict__["__iter__"])
        if note:
            out += "(* note: %s *)\n" % note.replace("*)", "* )").replace("(*", "( *")
        out += "Definition shape_%s : reader_shape :=\n  %s.\n" % (short, term)
    out += "\nDefinition shape_of (k : reader_kind) : reader_shape :=\n  match k with %s end.\n" % " | ".join(
        "%s => shape_%s" % (kname, short) for short, kname, _, _ in READERS)
    out += ("\nDefinition iter_reader {R S : Type} (match_step : S -> R -> S * option bool) (k : reader_kind) (sel : option S)\n"
            "  (items : list (item R)) : list R * bool := run_loop match_step (shape_of k) sel None items.\n\n")
    cm = context_matcher_facts(sel)
    reuses, note_sm = selector_match_facts(sel)
    copied, note_cm = compiled_match_facts(sel)
    for note in (cm.get("note"), note_sm, note_cm):
        if note:
            out += "(* note: %s *)\n" % note.replace("*)", "* )").replace("(*", "( *")
    sl = lambda xs: clist([cstr(x) for x in xs])  # noqa: E731
    out += "(* Selector.match / RecordContextMatcher (matches(%s) then self.%s) / CompiledSelector.match *)\n" % (cm["recname"], cm["entry"])
    out += ("Definition matcher : matcher_facts :=\n  {| mf_selector_reuses_matcher := %s;\n     mf_init_only := %s;\n     mf_reset_fresh := %s;\n"
            "     mf_eval_reads := %s;\n     mf_eval_writes := %s;\n     mf_compiled_ns_copied := %s |}.\n\n") % (
        cbool(reuses), sl(cm["init_only"]), sl(cm["reset"]), sl(cm["reads"]), sl(cm["writes"]), cbool(copied))
    out += "(* writes to a record observed while matching logging probe records (both engines, battery of expressions), and\n   stores in selector.py whose target provably is the record or one of its values (cross-check) *)\n"
    out += "Definition record_write_sites : list string := %s.\n\n" % sl(record_write_sites(sel) + ["observed: " + w for w in observe_record_writes(sel)])
    rows = make_selector_table(sel)
    out += "(* make_selector, run on every input kind x force_compiled *)\n"
    out += "Definition make_selector_table : ms_table :=\n  %s.\n" % clist(
        ["(%s, %s, %s)" % (k, cbool(f), o) for k, f, o in rows])
    write_if_changed(GEN / "Gen_filter.v", out)


GENERATORS = [gen_filter]
