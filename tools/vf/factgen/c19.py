"""Fact generator for C19 (flow/record/adapter/avro.py) -> coq/gen/Gen_avro.v

Facts read from the imported module (values): AVRO_TYPE_MAP and RECORD_TYPE_MAP (in source order), RESERVED_FIELDS,
EPOCH, the type whitelist; the schema `descriptor_to_schema` really builds for a family of probe descriptors (one
per whitelisted field type T and per T[], several names, no fields, several fields) -- the model's
descriptor_to_schema is proved (by computation, coq/props/C19.v) to give exactly these.
Facts read from the source (shapes): the doc-detection condition of schema_to_descriptor (`doc.startswith(P)` /
`doc.endswith(S)`), the guard constant of AvroReader.__iter__ (`value > G`), and the bodies of
AvroWriter.write/flush/close as lists of the statements the model's interpreter knows (coq/model/Avro.v:
wcond/wact/wstmt).  Fail closed: any statement or condition outside that vocabulary raises Unsupported.
"""
from __future__ import annotations

import ast
import datetime as pydt
import inspect
import json
import textwrap

from vf.coqlit import cbool, clist, copt, cpair, cstr, cZ
from vf.factlib import GEN, HEADER, Unsupported, write_if_changed


def _plain(s, what):
    if not isinstance(s, str) or not all(32 <= ord(c) < 127 for c in s):
        raise Unsupported("%s is not printable ASCII text: %r" % (what, s))
    return cstr(s)


# ------------------------------------------------------------------------------------------
# values

def c_atype(t, where):
    if isinstance(t, str):
        return "(APrim %s)" % _plain(t, where)
    if isinstance(t, dict):
        keys = set(t)
        if t.get("type") == "array" and keys == {"type", "items"} and not isinstance(t["items"], list):
            return "(AArray %s)" % c_atype(t["items"], where)
        if isinstance(t.get("type"), str) and keys <= {"type", "logicalType"}:
            lt = t.get("logicalType")
            return "(ADict %s %s)" % (_plain(t["type"], where), copt(lt, lambda x: _plain(x, where)))
    raise Unsupported("%s: schema type %r is outside the model's vocabulary" % (where, t))


def c_union(u, where):
    if not isinstance(u, list):
        raise Unsupported("%s: field type %r is not a union (list)" % (where, u))
    return clist(c_atype(t, where) for t in u)


def c_desc(name, fields):
    return "(Desc %s %s)" % (_plain(name, "descriptor name"), clist(
        cpair(_plain(t, "type name"), _plain(n, "field name")) for t, n in fields))


def c_schema(s, where):
    if not isinstance(s, dict) or s.get("type") != "record":
        raise Unsupported("%s: schema is not a record schema: %r" % (where, s))
    extra = set(s) - {"type", "namespace", "name", "doc", "fields"}
    if extra:
        raise Unsupported("%s: schema has keys the model does not know: %s" % (where, sorted(extra)))
    fl = []
    for f in s.get("fields", []):
        if set(f) != {"name", "type"}:
            raise Unsupported("%s: field schema has keys other than name/type: %r" % (where, f))
        fl.append(cpair(_plain(f["name"], where), c_union(f["type"], where)))
    doc = s.get("doc")
    return "(Schema %s %s %s %s)" % (_plain(s.get("namespace", ""), where), _plain(s.get("name", ""), where),
                                     copt(doc, lambda x: _plain(x, where)), clist(fl))


def probe_descriptors(whitelist):
    out = []
    for t in whitelist:
        out.append(("probe/t", [(t, "f")]))
        out.append(("probe/l", [(t + "[]", "f")]))
    out += [
        ("a", [("string", "x")]), ("a/b", [("string", "x")]), ("a/b/c", [("varint", "x")]), ("deep/er/na_me", []),
        ("noslash", []), ("test/many", [("string", "s"), ("uint16", "u"), ("datetime", "ts"), ("bytes", "b"),
                                         ("float", "fl"), ("boolean", "bo")]),
        ("test/mixed", [("string", "s"), ("path", "p")]),
    ]
    return out


def schema_probes(avro):
    from flow.record import RecordDescriptor
    from flow.record.whitelist import WHITELIST
    rows = []
    for name, fields in probe_descriptors(list(WHITELIST)):
        try:
            d = RecordDescriptor(name, fields)
        except Exception as e:  # noqa: a type the library cannot build a descriptor for is outside the domain
            continue
        try:
            s = avro.descriptor_to_schema(d)
        except Exception as e:  # noqa
            if type(e) is Exception and "Unsupported Avro type" in str(e):
                rows.append((name, fields, None))
                continue
            raise Unsupported("descriptor_to_schema(%s %r) raises %s: %s" % (name, fields, type(e).__name__, e))
        rows.append((name, fields, s))
    return rows


# ------------------------------------------------------------------------------------------
# shapes

def _fn_node(fn):
    src = textwrap.dedent(inspect.getsource(fn))
    return ast.parse(src).body[0]


def _resolve_int(node, module, where):
    if isinstance(node, ast.Constant) and type(node.value) is int:
        return node.value
    if isinstance(node, ast.Name) and type(getattr(module, node.id, None)) is int:
        return getattr(module, node.id)
    raise Unsupported("%s: not an integer constant: %s" % (where, ast.unparse(node)))


def _resolve_str(node, module, where):
    if isinstance(node, ast.Constant) and isinstance(node.value, str):
        return node.value
    if isinstance(node, ast.Name) and isinstance(getattr(module, node.id, None), str):
        return getattr(module, node.id)
    raise Unsupported("%s: not a string constant: %s" % (where, ast.unparse(node)))


def doc_detection(avro):
    """the first `if` of schema_to_descriptor: doc and doc.startswith(P) and doc.endswith(S)"""
    node = _fn_node(avro.schema_to_descriptor)
    ifs = [st for st in node.body if isinstance(st, ast.If)]
    if len(ifs) != 1:
        raise Unsupported("schema_to_descriptor: expected exactly one top-level if")
    test = ifs[0].test
    if not (isinstance(test, ast.BoolOp) and isinstance(test.op, ast.And)):
        raise Unsupported("schema_to_descriptor: detection condition is not a conjunction: %s" % ast.unparse(test))
    prefix = suffix = None
    truthy = False
    for v in test.values:
        if isinstance(v, ast.Name) and v.id == "doc":
            truthy = True
        elif (isinstance(v, ast.Call) and isinstance(v.func, ast.Attribute) and isinstance(v.func.value, ast.Name)
              and v.func.value.id == "doc" and len(v.args) == 1 and not v.keywords and v.func.attr in ("startswith", "endswith")):
            s = _resolve_str(v.args[0], avro, "schema_to_descriptor")
            if v.func.attr == "startswith":
                prefix = s
            else:
                suffix = s
        else:
            raise Unsupported("schema_to_descriptor: unrecognised conjunct %s" % ast.unparse(v))
    if not truthy or prefix is None or suffix is None:
        raise Unsupported("schema_to_descriptor: detection condition lacks doc / startswith / endswith")
    # the detected branch must json.loads the doc
    body_src = " ".join(ast.unparse(st) for st in ifs[0].body)
    if "json.loads(doc)" not in body_src:
        raise Unsupported("schema_to_descriptor: detected branch does not json.loads(doc)")
    return prefix, suffix


def reader_guard(avro):
    node = _fn_node(avro.AvroReader.__iter__)
    found = []
    for n in ast.walk(node):
        if isinstance(n, ast.Compare) and len(n.ops) == 1 and isinstance(n.left, ast.Name) and n.left.id == "value":
            if isinstance(n.ops[0], ast.Gt):
                found.append(_resolve_int(n.comparators[0], avro, "AvroReader.__iter__ guard"))
            elif isinstance(n.ops[0], ast.GtE):
                found.append(_resolve_int(n.comparators[0], avro, "AvroReader.__iter__ guard") - 1)
            else:
                raise Unsupported("AvroReader.__iter__: comparison on `value` is not > / >=: %s" % ast.unparse(n))
    if len(found) != 1:
        raise Unsupported("AvroReader.__iter__: expected exactly one `value > CONSTANT` guard, found %d" % len(found))
    # the guarded assignment must be EPOCH + timedelta(microseconds=value)
    src = ast.unparse(node)
    if "EPOCH + timedelta(microseconds=value)" not in src:
        raise Unsupported("AvroReader.__iter__: guarded conversion is not EPOCH + timedelta(microseconds=value)")
    return found[0]


def _is_self(node, attr):
    return isinstance(node, ast.Attribute) and node.attr == attr and isinstance(node.value, ast.Name) and node.value.id == "self"


class _Method:
    def __init__(self, fn, recname=None):
        self.fn = fn
        self.node = _fn_node(fn)
        self.recname = recname
        self.packed = set()      # local names bound to <record>._packdict()

    def bad(self, node, what):
        raise Unsupported("%s: %s: %s" % (self.fn.__qualname__, what, ast.unparse(node)[:100]))

    def is_rdesc(self, n):
        return (self.recname and isinstance(n, ast.Attribute) and n.attr == "_desc" and isinstance(n.value, ast.Name)
                and n.value.id == self.recname)

    def is_packdict(self, a):
        if isinstance(a, ast.Name) and a.id in self.packed:
            return True
        return (isinstance(a, ast.Call) and isinstance(a.func, ast.Attribute) and a.func.attr == "_packdict"
                and isinstance(a.func.value, ast.Name) and a.func.value.id == self.recname and not a.args and not a.keywords)

    def cond(self, t):
        if isinstance(t, ast.UnaryOp) and isinstance(t.op, ast.Not):
            if _is_self(t.operand, "desc"):
                return "CNoDesc"
            if _is_self(t.operand, "writer"):
                return "CNoWriter"
            o = t.operand
            if (isinstance(o, ast.Compare) and len(o.ops) == 1 and isinstance(o.ops[0], ast.Eq)
                    and self._desc_pair(o.left, o.comparators[0])):
                return "CDescDiffers"
        if isinstance(t, ast.Compare) and len(t.ops) == 1:
            l, r = t.left, t.comparators[0]
            if isinstance(t.ops[0], ast.Is) and isinstance(r, ast.Constant) and r.value is None:
                if _is_self(l, "desc"):
                    return "CNoDesc"
                if _is_self(l, "writer"):
                    return "CNoWriter"
            if isinstance(t.ops[0], ast.NotEq) and self._desc_pair(l, r):
                return "CDescDiffers"
            if isinstance(t.ops[0], ast.IsNot) and isinstance(r, ast.Constant) and r.value is None and _is_self(l, "fp"):
                return "CHasFp"
            if isinstance(t.ops[0], ast.IsNot) and isinstance(r, ast.Constant) and r.value is None and _is_self(l, "writer"):
                return "CHasWriter"
        if _is_self(t, "fp"):
            return "CHasFp"
        if _is_self(t, "writer"):
            return "CHasWriter"
        if isinstance(t, ast.BoolOp) and isinstance(t.op, ast.And) and len(t.values) == 2 and _is_self(t.values[0], "fp"):
            v = t.values[1]
            if (isinstance(v, ast.UnaryOp) and isinstance(v.op, ast.Not) and isinstance(v.operand, ast.Call)
                    and isinstance(v.operand.func, ast.Name) and v.operand.func.id == "is_stdout"
                    and len(v.operand.args) == 1 and _is_self(v.operand.args[0], "fp")):
                return "CHasFpNotStdout"
        self.bad(t, "unrecognised condition")

    def _desc_pair(self, a, b):
        return (_is_self(a, "desc") and self.is_rdesc(b)) or (_is_self(b, "desc") and self.is_rdesc(a))

    def _is_writer_ctor(self, call, schema_ok):
        """fastavro.write.Writer(self.fp, <schema>, codec=self.codec)"""
        if not (isinstance(call, ast.Call) and ast.unparse(call.func) in ("fastavro.write.Writer", "Writer")):
            return False
        if len(call.args) != 2 or not _is_self(call.args[0], "fp") or not schema_ok(call.args[1]):
            return False
        kws = {k.arg: k.value for k in call.keywords}
        return set(kws) == {"codec"} and _is_self(kws["codec"], "codec")

    def act(self, st):
        if isinstance(st, ast.Expr) and isinstance(st.value, ast.Constant) and isinstance(st.value.value, str):
            return None
        if isinstance(st, ast.Pass):
            return None
        if isinstance(st, ast.Raise):
            e = st.exc
            if isinstance(e, ast.Call) and isinstance(e.func, ast.Name) and e.func.id == "Exception":
                return "RaiseMixed"
        if isinstance(st, ast.Assign) and len(st.targets) == 1:
            tg, v = st.targets[0], st.value
            if isinstance(tg, ast.Name) and self.is_packdict(v):
                self.packed.add(tg.id)       # data = r._packdict(): no effect on the writer
                return None
            if _is_self(tg, "desc") and self.is_rdesc(v):
                return "SetDesc"
            if (_is_self(tg, "schema") and isinstance(v, ast.Call) and isinstance(v.func, ast.Name)
                    and v.func.id == "descriptor_to_schema" and len(v.args) == 1 and not v.keywords
                    and (_is_self(v.args[0], "desc") or self.is_rdesc(v.args[0]))):
                return "MakeSchema"
            if (_is_self(tg, "parsed_schema") and isinstance(v, ast.Call) and ast.unparse(v.func) in ("fastavro.parse_schema", "parse_schema")
                    and len(v.args) == 1 and not v.keywords and _is_self(v.args[0], "schema")):
                return "ParseSchema"
            if _is_self(tg, "writer"):
                if self._is_writer_ctor(v, lambda a: _is_self(a, "parsed_schema")):
                    return "MakeWriter"

                def empty_schema(a):
                    if not (isinstance(a, ast.Call) and ast.unparse(a.func) in ("fastavro.parse_schema", "parse_schema")
                            and len(a.args) == 1 and not a.keywords):
                        return False
                    try:
                        return ast.literal_eval(a.args[0]) == {"type": "record", "name": "empty"}
                    except Exception:  # noqa
                        return False
                if self._is_writer_ctor(v, empty_schema):
                    return "MakeEmptyWriter"
                if isinstance(v, ast.Constant) and v.value is None:
                    return "SetWriterNone"
            if _is_self(tg, "fp") and isinstance(v, ast.Constant) and v.value is None:
                return "SetFpNone"
        if isinstance(st, ast.Expr) and isinstance(st.value, ast.Call):
            c = st.value
            f = c.func
            if isinstance(f, ast.Attribute) and not c.keywords:
                if _is_self(f.value, "writer") and f.attr == "write" and len(c.args) == 1 and self.is_packdict(c.args[0]):
                    return "WriterWrite"
                # fastavro.schemaless_writer(io.BytesIO(), self.parsed_schema, <packed record>)
                if (ast.unparse(f) in ("fastavro.schemaless_writer", "schemaless_writer") and len(c.args) == 3
                        and ast.unparse(c.args[0]) in ("io.BytesIO()", "BytesIO()") and _is_self(c.args[1], "parsed_schema")
                        and self.is_packdict(c.args[2])):
                    return "DryRun"
                if _is_self(f.value, "writer") and f.attr == "flush" and not c.args:
                    return "WriterFlush"
                if isinstance(f.value, ast.Name) and f.value.id == "self" and f.attr == "flush" and not c.args:
                    return "CallFlush"
                if _is_self(f.value, "fp") and f.attr == "close" and not c.args:
                    return "FpClose"
        self.bad(st, "unrecognised statement")

    def stmts(self, body):
        out = []
        for st in body:
            if isinstance(st, ast.If):
                if st.orelse:
                    self.bad(st, "if with else")
                out.append("When %s %s" % (self.cond(st.test), self.stmts(st.body)))
            else:
                a = self.act(st)
                if a:
                    out.append("Do %s" % a)
        return clist(out)

    def body(self):
        return self.stmts(self.node.body)


def writer_code(avro):
    W = avro.AvroWriter
    wnode = _fn_node(W.write)
    args = [a.arg for a in wnode.args.args]
    if len(args) != 2:
        raise Unsupported("AvroWriter.write: unexpected signature")
    return (_Method(W.write, args[1]).body(), _Method(W.flush).body(), _Method(W.close).body())


# ------------------------------------------------------------------------------------------

def gen_avro():
    import flow.record.adapter.avro as avro
    from flow.record.base import RESERVED_FIELDS
    for nm in ("AVRO_TYPE_MAP", "RECORD_TYPE_MAP"):
        m = getattr(avro, nm, None)
        if not isinstance(m, dict) or not all(isinstance(k, str) and isinstance(v, str) for k, v in m.items()):
            raise Unsupported("%s is not a dict of str -> str" % nm)
    epoch = avro.EPOCH
    if not isinstance(epoch, pydt.datetime) or epoch.tzinfo is None:
        raise Unsupported("EPOCH is not an aware datetime")
    td = epoch - pydt.datetime(1970, 1, 1, tzinfo=pydt.timezone.utc)
    epoch_us = (td.days * 86400 + td.seconds) * 10**6 + td.microseconds

    probes = schema_probes(avro)
    # the datetime literal, the null branch and the presence of the doc, as the probes show them
    by = {(n, tuple(f)): s for n, f, s in probes}
    s_dt = by.get(("probe/t", (("datetime", "f"),)))
    s_str = by.get(("probe/t", (("string", "f"),)))
    if not s_dt or not s_str:
        raise Unsupported("descriptor_to_schema refuses a datetime or a string field")
    dt_union = s_dt["fields"][0]["type"]
    str_union = s_str["fields"][0]["type"]
    if not (isinstance(str_union, list) and len(str_union) == 2 and str_union[0] == avro.AVRO_TYPE_MAP.get("string")):
        raise Unsupported("the union of a string field is not [AVRO_TYPE_MAP['string'], <null>]: %r" % (str_union,))
    has_doc = all(s is None or s.get("doc") == json.dumps([n, [list(x) for x in f]]) for n, f, s in probes)
    if not has_doc and any(s is not None and "doc" in s for n, f, s in probes):
        raise Unsupported("schema doc is neither absent nor json.dumps(desc._pack())")
    prefix, suffix = doc_detection(avro)
    guard = reader_guard(avro)
    cw, cf, cc = writer_code(avro)

    out = HEADER
    out += "From Coq Require Import List Bool String ZArith.\nImport ListNotations.\nFrom FR Require Import Avro.\nOpen Scope string_scope.\n\n"
    out += "(* AVRO_TYPE_MAP, RECORD_TYPE_MAP (source order), RESERVED_FIELDS as (typename, fieldname), the union literal of\n"
    out += "   datetime fields and the null member of the other unions (as descriptor_to_schema builds them), whether the schema's\n"
    out += "   doc is json.dumps(desc._pack()), the affixes of the doc-detection condition, the reader's guard, EPOCH *)\n"
    out += "Definition avro_cfg : config := {|\n"
    out += "  cfg_avro_map := %s;\n" % clist(cpair(_plain(k, "AVRO_TYPE_MAP"), _plain(v, "AVRO_TYPE_MAP")) for k, v in avro.AVRO_TYPE_MAP.items())
    out += "  cfg_record_map := %s;\n" % clist(cpair(_plain(k, "RECORD_TYPE_MAP"), _plain(v, "RECORD_TYPE_MAP")) for k, v in avro.RECORD_TYPE_MAP.items())
    out += "  cfg_reserved := %s;\n" % clist(cpair(_plain(t, "RESERVED_FIELDS"), _plain(n, "RESERVED_FIELDS")) for n, t in RESERVED_FIELDS.items())
    out += "  cfg_datetime_union := %s;\n" % c_union(dt_union, "datetime union")
    out += "  cfg_null_branch := %s;\n" % c_atype(str_union[1], "null branch")
    out += "  cfg_has_doc := %s;\n" % cbool(has_doc)
    out += "  cfg_doc_prefix := %s;\n  cfg_doc_suffix := %s;\n" % (_plain(prefix, "doc prefix"), _plain(suffix, "doc suffix"))
    out += "  cfg_guard := %s;\n  cfg_epoch_us := %s |}.\n\n" % (cZ(guard), cZ(epoch_us))
    out += "(* AvroWriter.write / flush / close as statement lists *)\n"
    out += "Definition avro_code : wcode := {|\n  code_write := %s;\n  code_flush := %s;\n  code_close := %s |}.\n\n" % (cw, cf, cc)
    out += "(* descriptor_to_schema on the probe descriptors (None: raises Exception(\"Unsupported Avro type\")) *)\n"
    out += "Definition avro_schema_probes : list (descriptor * option schema) :=\n  %s.\n" % clist(
        (cpair(c_desc(n, f), copt(s, lambda x: c_schema(x, "probe %s" % n))) for n, f, s in probes), sep=";\n   ")
    write_if_changed(GEN / "Gen_avro.v", out)


GENERATORS = [gen_avro]
