"""Fact generator for C19 (flow/record/adapter/avro.py) -> coq/gen/Gen_avro.v

Facts read from the imported module (values): AVRO_TYPE_MAP and RECORD_TYPE_MAP (in source order), RESERVED_FIELDS,
EPOCH, the type whitelist; the schema `descriptor_to_schema` really builds for a family of probe descriptors (one
per whitelisted field type T and per T[], several names, no fields, several fields) -- the model's
descriptor_to_schema is proved (by computation, coq/props/C19.v) to give exactly these.
Facts read from the source (shapes): the doc-detection condition of schema_to_descriptor (`doc.startswith(P)` /
`doc.endswith(S)`), the guard constant of AvroReader.__iter__ (`value > G`), and the bodies of
AvroWriter.write/flush/close as lists of the statements the model's interpreter knows (coq/model/Avro.v:
wcond/wact/wstmt).  Fail closed: any statement or condition outside that vocabulary raises Unsupported.
"""
from __future__ import annotations

import ast
import datetime as pydt
import inspect
import json
import textwrap

from vf.coqlit import cbool, clist, copt, cpair, cstr, cZ
from vf.factlib import GEN, HEADER, Unsupported, write_if_changed


def _plain(s, what):
    if not isinstance(s, str) or not all(32 <= ord(c) < 127 for c in s):
        raise Unsupported("%s is not printable ASCII text: %r" % (what, s))
    return cstr(s)


# ------------------------------------------------------------------------------------------
# values

def c_atype(t, where):
    if isinstance(t, str):
        return "(APrim %s)" % _plain(t, where)
    if isinstance(t, dict):
        keys = set(t)
        if t.get("type") == "array" and keys == {"type", "items"} and not isinstance(t["items"], list):
            return "(AArray %s)" % c_atype(t["items"], where)
        if isinstance(t.get("type"), str) and keys <= {"type", "logicalType"}:
            lt = t.get("logicalType")
            return "(ADict %s %s)" % (_plain(t["type"], where), copt(lt, lambda x: _plain(x, where)))
    raise Unsupported("%s: schema type %r is outside the model's vocabulary" % (where, t))


def c_union(u, where):
    if not isinstance(u, list):
        raise Unsupported("%s: field type %r is not a union (list)" % (where, u))
    return clist(c_atype(t, where) for t in u)


def c_desc(name, fields):
    return "(Desc %s %s)" % (_plain(name, "descriptor name"), clist(
        cpair(_plain(t, "type name"), _plain(n, "field name")) for t, n in fields))


def c_schema(s, where):
    if not isinstance(s, dict) or s.get("type") != "record":
        raise Unsupported("%s: schema is not a record schema: %r" % (where, s))
    extra = set(s) - {"type", "namespace", "name", "doc", "fields"}
    if extra:
        raise Unsupported("%s: schema has keys the model does not know: %s" % (where, sorted(extra)))
    fl = []
    for f in s.get("fields", []):
        if set(f) != {"name", "type"}:
            raise Unsupported("%s: field schema has keys other than name/type: %r" % (where, f))
        fl.append(cpair(_plain(f["name"], where), c_union(f["type"], where)))
    doc = s.get("doc")
    return "(Schema %s %s %s %s)" % (_plain(s.get("namespace", ""), where), _plain(s.get("name", ""), where),
                                     copt(doc, lambda x: _plain(x, where)), clist(fl))


def probe_descriptors(whitelist):
    out = []
    for t in whitelist:
        out.append(("probe/t", [(t, "f")]))
        out.append(("probe/l", [(t + "[]", "f")]))
    out += [
        ("a", [("string", "x")]), ("a/b", [("string", "x")]), ("a/b/c", [("varint", "x")]), ("deep/er/na_me", []),
        ("noslash", []), ("test/many", [("string", "s"), ("uint16", "u"), ("datetime", "ts"), ("bytes", "b"),
                                         ("float", "fl"), ("boolean", "bo")]),
        ("test/mixed", [("string", "s"), ("path", "p")]),
    ]
    return out


def schema_probes(avro):
    from flow.record import RecordDescriptor
    from flow.record.whitelist import WHITELIST
    rows = []
    for name, fields in probe_descriptors(list(WHITELIST)):
        try:
            d = RecordDescriptor(name, fields)
        except Exception as e:  # noqa: a type the library cannot build a descriptor for is outside the domain
            continue
        try:
            s = avro.descriptor_to_schema(d)
        except Exception as e:  # noqa
            if type(e) is Exception and "Unsupported Avro type" in str(e):
                rows.append((name, fields, None))
                continue
            raise Unsupported("descriptor_to_schema(%s %r) raises %s: %s" % (name, fields, type(e).__name__, e))
        rows.append((name, fields, s))
    return rows


# ------------------------------------------------------------------------------------------
# shapes

def _fn_node(fn):
    src = textwrap.dedent(inspect.getsource(fn))
    return ast.parse(src).body[0]


def _resolve_int(node, module, where):
    if isinstance(node, ast.Constant) and type(node.value) is int:
        return node.value
    if isinstance(node, ast.Name) and type(getattr(module, node.id, None)) is int:
        return getattr(module, node.id)
    raise Unsupported("%s: not an integer constant: %s" % (where, ast.unparse(node)))


def _resolve_str(node, module, where):
    if isinstance(node, ast.Constant) and isinstance(node.value, str):
        return node.value
    if isinstance(node, ast.Name) and isinstance(getattr(module, node.id, None), str):
        return getattr(module, node.id)
    raise Unsupported("%s: not a string constant: %s" % (where, ast.unparse(node)))


def _doc_detection_ast(avro):
    """the first `if` of schema_to_descriptor: doc and doc.startswith(P) and doc.endswith(S) -> (P, S)"""
    node = _fn_node(avro.schema_to_descriptor)
    ifs = [st for st in node.body if isinstance(st, ast.If)]
    if len(ifs) != 1:
        raise Unsupported("schema_to_descriptor: expected exactly one top-level if")
    test = ifs[0].test
    if not (isinstance(test, ast.BoolOp) and isinstance(test.op, ast.And)):
        raise Unsupported("schema_to_descriptor: detection condition is not a conjunction: %s" % ast.unparse(test))
    prefix = suffix = None
    truthy = False
    for v in test.values:
        if isinstance(v, ast.Name) and v.id == "doc":
            truthy = True
        elif (isinstance(v, ast.Call) and isinstance(v.func, ast.Attribute) and isinstance(v.func.value, ast.Name)
              and v.func.value.id == "doc" and len(v.args) == 1 and not v.keywords and v.func.attr in ("startswith", "endswith")):
            s = _resolve_str(v.args[0], avro, "schema_to_descriptor")
            if v.func.attr == "startswith":
                prefix = s
            else:
                suffix = s
        else:
            raise Unsupported("schema_to_descriptor: unrecognised conjunct %s" % ast.unparse(v))
    if not truthy or prefix is None or suffix is None:
        raise Unsupported("schema_to_descriptor: detection condition lacks doc / startswith / endswith")
    return prefix, suffix


def _doc_branch(avro, doc):
    """which branch schema_to_descriptor takes for this doc text: True = the doc is json-decoded"""
    schema = {"type": "record", "name": "fallback_name", "fields": [{"name": "fb", "type": "string"}]}
    if doc is not None:
        schema["doc"] = doc
    try:
        d = avro.schema_to_descriptor(schema)
    except ValueError:          # json.JSONDecodeError / unpacking the decoded value: the doc branch was taken
        return True
    except TypeError:
        return True
    return not (d.name == "fallback_name" and [n for _, n in d.get_field_tuples()] == ["fb"])


def doc_detection(avro, notes):
    """(prefix, suffix) of the detection condition.  OBSERVED: schema_to_descriptor is run on a family of doc texts
    and must take the doc branch exactly when the text is non-empty, starts with the prefix and ends with the suffix;
    the source recogniser proposes the affixes and is a cross-check."""
    try:
        cand = _doc_detection_ast(avro)
        recognised = True
    except Unsupported as e:
        cand = ('["', "]]]")
        recognised = False
        why = str(e)
    P, S = cand
    good = '["obs/doc", [["string", "q"]]]'
    docs = [None, "", good, good[1:], "[" + good[2:], good[:-1], good[:-2] + "]", good[:-3] + "] ]", " " + good, good + " ",
            '["x", []]', '["x", [[]]]', "[]]]", '["', P, S, P + S, P + "junk" + S, P[:-1] + S if P else S, P + S[1:] if S else P,
            "x" + P + S, P + S + "x", "free text", '{"a": [[["b"]]]}', '["n", [["string", "a"], ["varint", "b"]]]',
            "['obs/doc', [['string', 'q']]]", '["obs/doc",[["string","q"]]]']
    for doc in docs:
        want = bool(doc) and doc.startswith(P) and doc.endswith(S)
        got = _doc_branch(avro, doc)
        if got != want:
            raise Unsupported("schema_to_descriptor: doc %r takes the %s branch, but the detection condition %s says otherwise"
                              % (doc, "doc" if got else "fallback", "read from the source" if recognised else "assumed"))
    if not recognised:
        notes.append("shape of the doc-detection condition not recognised (%s); observed behaviour on %d doc texts used" % (why, len(docs)))
    return P, S


def _method_nodes_one_level(cls, fn):
    """the function's AST plus the ASTs of the methods of cls it calls as self.<m>(...) (one level)"""
    node = _fn_node(fn)
    nodes = [node]
    for n in ast.walk(node):
        if (isinstance(n, ast.Call) and isinstance(n.func, ast.Attribute) and isinstance(n.func.value, ast.Name)
                and n.func.value.id == "self" and callable(getattr(cls, n.func.attr, None))):
            try:
                nodes.append(_fn_node(getattr(cls, n.func.attr)))
            except (OSError, TypeError):
                pass
    return nodes


def _reader_guard_ast(avro):
    found = []
    src = ""
    for node in _method_nodes_one_level(avro.AvroReader, avro.AvroReader.__iter__):
        src += ast.unparse(node) + "\n"
        for n in ast.walk(node):
            if isinstance(n, ast.Compare) and len(n.ops) == 1 and isinstance(n.left, ast.Name) and n.left.id == "value":
                if isinstance(n.ops[0], ast.Gt):
                    found.append(_resolve_int(n.comparators[0], avro, "AvroReader.__iter__ guard"))
                elif isinstance(n.ops[0], ast.GtE):
                    found.append(_resolve_int(n.comparators[0], avro, "AvroReader.__iter__ guard") - 1)
                else:
                    raise Unsupported("AvroReader.__iter__: comparison on `value` is not > / >=: %s" % ast.unparse(n))
    if len(found) != 1:
        raise Unsupported("AvroReader.__iter__: expected exactly one `value > CONSTANT` guard, found %d" % len(found))
    return found[0]


def _read_plain_long(avro, v):
    """AvroReader on a fastavro-written file whose doc declares a datetime field stored as a plain long v
    -> 'micros' (EPOCH + v microseconds) | 'seconds' (the datetime field type took v as seconds) | 'other'"""
    import io
    import fastavro
    doc = json.dumps(["obs/ts", [["datetime", "ts"]]])
    schema = {"type": "record", "name": "ts", "namespace": "obs", "doc": doc, "fields": [{"name": "ts", "type": ["long", "null"]}]}
    buf = io.BytesIO()
    fastavro.writer(buf, fastavro.parse_schema(schema), [{"ts": v}])
    buf.seek(0)
    try:
        recs = list(avro.AvroReader(buf))
    except Exception:  # noqa
        return "other"
    if len(recs) != 1 or not isinstance(recs[0].ts, pydt.datetime):
        return "other"
    got = recs[0].ts
    try:
        if got == avro.EPOCH + pydt.timedelta(microseconds=v):
            return "micros"
    except OverflowError:
        pass
    try:
        if got == pydt.datetime.fromtimestamp(v, pydt.timezone.utc):
            return "seconds"
    except (OverflowError, OSError, ValueError):
        pass
    return "other"


def reader_guard(avro, notes):
    """G such that an integer v in a datetime column is EPOCH + v microseconds exactly when v > G.  OBSERVED by
    bisection on files written by fastavro (monotonicity checked on a grid); the source recogniser (which follows
    private methods one level and resolves module constants) is a cross-check."""
    hi = 10**15                      # 2001-09-09 in microseconds: must be read as microseconds
    lo = 1                           # one second after EPOCH: must be read as seconds
    if _read_plain_long(avro, hi) != "micros" or _read_plain_long(avro, lo) != "seconds":
        raise Unsupported("AvroReader: a plain long in a datetime column is read as neither seconds (1) nor microseconds (10**15)")
    while hi - lo > 1:
        mid = (lo + hi) // 2
        if _read_plain_long(avro, mid) == "micros":
            hi = mid
        else:
            lo = mid
    G = lo
    for v in (2, 0xFFFF, 0x10000, 2**31 - 1, 2**31, G - 1, G):
        if 1 <= v <= G and v <= 253402300799 and _read_plain_long(avro, v) != "seconds":
            raise Unsupported("AvroReader: %d in a datetime column is not read as seconds although %d is the observed guard" % (v, G))
    for v in (G + 1, G + 2, 2 * G + 1, 2**33, 2**40, 10**12, 10**15, 253402300799999999):
        if v > G and _read_plain_long(avro, v) != "micros":
            raise Unsupported("AvroReader: %d in a datetime column is not read as microseconds although %d is the observed guard" % (v, G))
    try:
        a = _reader_guard_ast(avro)
    except Unsupported as e:
        notes.append("shape of the reader's guard not recognised (%s); observed behaviour (bisection) used" % e)
        return G
    if a != G:
        raise Unsupported("AvroReader: the source says `value > %d` but the observed guard is %d" % (a, G))
    return G


def _is_self(node, attr):
    return isinstance(node, ast.Attribute) and node.attr == attr and isinstance(node.value, ast.Name) and node.value.id == "self"


class _Method:
    def __init__(self, fn, recname=None, cls=None, depth=0):
        self.fn = fn
        self.node = _fn_node(fn)
        self.recname = recname
        self.cls = cls
        self.depth = depth
        self.packed = set()      # local names bound to <record>._packdict()

    def bad(self, node, what):
        raise Unsupported("%s: %s: %s" % (self.fn.__qualname__, what, ast.unparse(node)[:100]))

    def is_rdesc(self, n):
        return (self.recname and isinstance(n, ast.Attribute) and n.attr == "_desc" and isinstance(n.value, ast.Name)
                and n.value.id == self.recname)

    def is_packdict(self, a):
        if isinstance(a, ast.Name) and a.id in self.packed:
            return True
        return (isinstance(a, ast.Call) and isinstance(a.func, ast.Attribute) and a.func.attr == "_packdict"
                and isinstance(a.func.value, ast.Name) and a.func.value.id == self.recname and not a.args and not a.keywords)

    def cond(self, t):
        if isinstance(t, ast.UnaryOp) and isinstance(t.op, ast.Not):
            if _is_self(t.operand, "desc"):
                return "CNoDesc"
            if _is_self(t.operand, "writer"):
                return "CNoWriter"
            o = t.operand
            if (isinstance(o, ast.Compare) and len(o.ops) == 1 and isinstance(o.ops[0], ast.Eq)
                    and self._desc_pair(o.left, o.comparators[0])):
                return "CDescDiffers"
        if isinstance(t, ast.Compare) and len(t.ops) == 1:
            l, r = t.left, t.comparators[0]
            if isinstance(t.ops[0], ast.Is) and isinstance(r, ast.Constant) and r.value is None:
                if _is_self(l, "desc"):
                    return "CNoDesc"
                if _is_self(l, "writer"):
                    return "CNoWriter"
            if isinstance(t.ops[0], ast.NotEq) and self._desc_pair(l, r):
                return "CDescDiffers"
            if isinstance(t.ops[0], ast.IsNot) and isinstance(r, ast.Constant) and r.value is None and _is_self(l, "fp"):
                return "CHasFp"
            if isinstance(t.ops[0], ast.IsNot) and isinstance(r, ast.Constant) and r.value is None and _is_self(l, "writer"):
                return "CHasWriter"
        if _is_self(t, "fp"):
            return "CHasFp"
        if _is_self(t, "writer"):
            return "CHasWriter"
        if isinstance(t, ast.BoolOp) and isinstance(t.op, ast.And) and len(t.values) == 2 and _is_self(t.values[0], "fp"):
            v = t.values[1]
            if (isinstance(v, ast.UnaryOp) and isinstance(v.op, ast.Not) and isinstance(v.operand, ast.Call)
                    and isinstance(v.operand.func, ast.Name) and v.operand.func.id == "is_stdout"
                    and len(v.operand.args) == 1 and _is_self(v.operand.args[0], "fp")):
                return "CHasFpNotStdout"
        self.bad(t, "unrecognised condition")

    def _desc_pair(self, a, b):
        return (_is_self(a, "desc") and self.is_rdesc(b)) or (_is_self(b, "desc") and self.is_rdesc(a))

    def _is_writer_ctor(self, call, schema_ok):
        """fastavro.write.Writer(self.fp, <schema>, codec=self.codec)"""
        if not (isinstance(call, ast.Call) and ast.unparse(call.func) in ("fastavro.write.Writer", "Writer")):
            return False
        if len(call.args) != 2 or not _is_self(call.args[0], "fp") or not schema_ok(call.args[1]):
            return False
        kws = {k.arg: k.value for k in call.keywords}
        return set(kws) == {"codec"} and _is_self(kws["codec"], "codec")

    def act(self, st):
        if isinstance(st, ast.Expr) and isinstance(st.value, ast.Constant) and isinstance(st.value.value, str):
            return None
        if isinstance(st, ast.Pass):
            return None
        if isinstance(st, ast.Raise):
            e = st.exc
            if isinstance(e, ast.Call) and isinstance(e.func, ast.Name) and e.func.id == "Exception":
                return "RaiseMixed"
        if isinstance(st, ast.Assign) and len(st.targets) == 1:
            tg, v = st.targets[0], st.value
            if isinstance(tg, ast.Name) and self.is_packdict(v):
                self.packed.add(tg.id)       # data = r._packdict(): no effect on the writer
                return None
            if _is_self(tg, "desc") and self.is_rdesc(v):
                return "SetDesc"
            if (_is_self(tg, "schema") and isinstance(v, ast.Call) and isinstance(v.func, ast.Name)
                    and v.func.id == "descriptor_to_schema" and len(v.args) == 1 and not v.keywords
                    and (_is_self(v.args[0], "desc") or self.is_rdesc(v.args[0]))):
                return "MakeSchema"
            if (_is_self(tg, "parsed_schema") and isinstance(v, ast.Call) and ast.unparse(v.func) in ("fastavro.parse_schema", "parse_schema")
                    and len(v.args) == 1 and not v.keywords and _is_self(v.args[0], "schema")):
                return "ParseSchema"
            if _is_self(tg, "writer"):
                if self._is_writer_ctor(v, lambda a: _is_self(a, "parsed_schema")):
                    return "MakeWriter"

                def empty_schema(a):
                    if not (isinstance(a, ast.Call) and ast.unparse(a.func) in ("fastavro.parse_schema", "parse_schema")
                            and len(a.args) == 1 and not a.keywords):
                        return False
                    try:
                        return ast.literal_eval(a.args[0]) == {"type": "record", "name": "empty"}
                    except Exception:  # noqa
                        return False
                if self._is_writer_ctor(v, empty_schema):
                    return "MakeEmptyWriter"
                if isinstance(v, ast.Constant) and v.value is None:
                    return "SetWriterNone"
            if _is_self(tg, "fp") and isinstance(v, ast.Constant) and v.value is None:
                return "SetFpNone"
        if isinstance(st, ast.Expr) and isinstance(st.value, ast.Call):
            c = st.value
            f = c.func
            if isinstance(f, ast.Attribute) and not c.keywords:
                if _is_self(f.value, "writer") and f.attr == "write" and len(c.args) == 1 and self.is_packdict(c.args[0]):
                    return "WriterWrite"
                # fastavro.schemaless_writer(io.BytesIO(), self.parsed_schema, <packed record>)
                if (ast.unparse(f) in ("fastavro.schemaless_writer", "schemaless_writer") and len(c.args) == 3
                        and ast.unparse(c.args[0]) in ("io.BytesIO()", "BytesIO()") and _is_self(c.args[1], "parsed_schema")
                        and self.is_packdict(c.args[2])):
                    return "DryRun"
                if _is_self(f.value, "writer") and f.attr == "flush" and not c.args:
                    return "WriterFlush"
                if isinstance(f.value, ast.Name) and f.value.id == "self" and f.attr == "flush" and not c.args:
                    return "CallFlush"
                if _is_self(f.value, "fp") and f.attr == "close" and not c.args:
                    return "FpClose"
        self.bad(st, "unrecognised statement")

    def helper(self, st):
        """self._helper(...) / self._helper(r): the body of a private method of the class, spliced in (one level)"""
        if not (isinstance(st, ast.Expr) and isinstance(st.value, ast.Call)):
            return None
        f = st.value.func
        if not (isinstance(f, ast.Attribute) and isinstance(f.value, ast.Name) and f.value.id == "self" and f.attr.startswith("_")
                and not f.attr.startswith("__") and self.cls is not None and self.depth == 0):
            return None
        fn = getattr(self.cls, f.attr, None)
        if fn is None or st.value.keywords:
            return None
        try:
            node = _fn_node(fn)
        except (OSError, TypeError):
            return None
        params = [a.arg for a in node.args.args][1:]
        if len(params) != len(st.value.args):
            return None
        recname = None
        for prm, arg in zip(params, st.value.args):
            if isinstance(arg, ast.Name) and arg.id == self.recname:
                recname = prm
            else:
                return None
        sub = _Method(fn, recname, self.cls, depth=1)
        body = list(node.body)
        if body and isinstance(body[-1], ast.Return) and (body[-1].value is None or (isinstance(body[-1].value, ast.Constant) and body[-1].value.value is None)):
            body = body[:-1]
        return sub.stmts_list(body)

    def stmts(self, body):
        return clist(self.stmts_list(body))

    def stmts_list(self, body):
        out = []
        for st in body:
            spliced = self.helper(st)
            if spliced is not None:
                out.extend(spliced)
                continue
            if isinstance(st, ast.If):
                if st.orelse:
                    self.bad(st, "if with else")
                out.append("When %s %s" % (self.cond(st.test), self.stmts(st.body)))
            else:
                a = self.act(st)
                if a:
                    out.append("Do %s" % a)
        return out

    def body(self):
        return self.stmts(self.node.body)


CANONICAL_CODE = (
    "[When CNoDesc [Do SetDesc; Do MakeSchema; Do ParseSchema; Do MakeWriter]; When CDescDiffers [Do RaiseMixed]; Do DryRun; Do WriterWrite]",
    "[When CHasWriter [Do WriterFlush]]",
    "[When CHasFp [When CNoWriter [Do MakeEmptyWriter]; Do CallFlush]; When CHasFpNotStdout [Do FpClose]; Do SetFpNone; Do SetWriterNone]",
)


def _writer_code_ast(avro):
    W = avro.AvroWriter
    wnode = _fn_node(W.write)
    args = [a.arg for a in wnode.args.args]
    if len(args) != 2:
        raise Unsupported("AvroWriter.write: unexpected signature")
    return (_Method(W.write, args[1], W).body(), _Method(W.flush, None, W).body(), _Method(W.close, None, W).body())


def observe_writer(avro):
    """Run the real AvroWriter on scripted sessions with fastavro, descriptor_to_schema and the file object wrapped
    by event logs.  -> list of (call, outcome, events, state) per scenario"""
    import io
    import types
    import fastavro as real
    from flow.record import RecordDescriptor
    ts = pydt.datetime(2020, 1, 2, 3, 4, 5, tzinfo=pydt.timezone.utc)
    A = RecordDescriptor("obs/a", [("string", "user"), ("string", "host"), ("uint32", "n")])
    B = RecordDescriptor("obs/b", [("string", "user")])
    C = RecordDescriptor("obs/a", [("string", "userstringhost"), ("uint32", "n")])       # same (name, hash) identifier as A
    U = RecordDescriptor("obs/u", [("string", "s"), ("path", "p")])
    if A.identifier != C.identifier:
        raise Unsupported("probe descriptors do not collide any more (descriptor hash changed)")
    a1 = A(user="u1", host="h1", n=1, _generated=ts)
    a2 = A(user="u2", host="h2", n=2, _generated=ts)
    abad = A(user="u3", host="h3", n=2**31, _generated=ts)
    b1 = B(user="x", _generated=ts)
    c1 = C(userstringhost="y", n=3, _generated=ts)
    u1 = U(s="s", p="/tmp", _generated=ts)
    events = []

    class Fp(io.BytesIO):
        def close(self):
            if not getattr(self, "_close_seen", False):      # the finaliser of a dropped file object calls close() again
                self._close_seen = True
                events.append("fp.close")

    class LoggingWriter:
        def __init__(self, fp, schema, **kw):
            empty = not schema.get("fields")
            events.append("Writer:%s:%s" % ("empty" if empty else "rec", ",".join(sorted(kw))))
            if not isinstance(fp, Fp):
                events.append("Writer:not-the-file")
            self._w = real.write.Writer(fp, schema, **kw)

        def write(self, data):
            events.append("w.write")
            return self._w.write(data)

        def flush(self):
            events.append("w.flush")
            return self._w.flush()

    def parse_schema(s, *a, **kw):
        events.append("parse:%s" % ("empty" if not s.get("fields") else "rec"))
        return real.parse_schema(s, *a, **kw)

    def schemaless_writer(fo, schema, data, *a, **kw):
        events.append("dry" if (isinstance(fo, io.BytesIO) and not isinstance(fo, Fp)) else "dry:into-the-file")
        return real.schemaless_writer(fo, schema, data, *a, **kw)

    proxy = types.SimpleNamespace(**{k: getattr(real, k) for k in dir(real) if not k.startswith("__")})
    proxy.parse_schema = parse_schema
    proxy.schemaless_writer = schemaless_writer
    proxy.write = types.SimpleNamespace(**{k: getattr(real.write, k) for k in dir(real.write) if not k.startswith("__")})
    proxy.write.Writer = LoggingWriter
    real_d2s = avro.descriptor_to_schema

    def d2s(desc):
        events.append("schema:%s" % desc.name)
        return real_d2s(desc)

    scenarios = [
        [("write", a1), ("write", a2), ("flush", None), ("write", b1), ("write", abad), ("write", c1), ("write", a1), ("close", None)],
        [("flush", None), ("close", None)],
        [("write", u1), ("write", a1), ("write", u1), ("flush", None), ("write", u1), ("close", None)],
        [("write", abad), ("write", a1), ("close", None)],
        # the stdout target (is_stdout(fp)): flushed like a file, but not closed
        ["stdout", ("write", a1), ("write", a2), ("close", None)],
        ["stdout", ("close", None)],
    ]
    saved = (avro.fastavro, avro.descriptor_to_schema)
    trace = []
    try:
        avro.fastavro = proxy
        avro.descriptor_to_schema = d2s
        for sc in scenarios:
            fp = Fp()
            if sc[0] == "stdout":
                fp._is_stdout = True
                sc = sc[1:]
            w = avro.AvroWriter(fp)
            for call, arg in sc:
                del events[:]
                try:
                    if call == "write":
                        w.write(arg)
                    elif call == "flush":
                        w.flush()
                    else:
                        w.close()
                    out = "ok"
                except Exception as e:  # noqa
                    out = type(e).__name__ + (":Mixed" if "Mixed record types" in str(e) else ":Unsupported" if "Unsupported Avro type" in str(e) else "")
                state = "desc=%s writer=%s fp=%s" % ("-" if not w.desc else w.desc.name, "-" if not w.writer else "W", "-" if not w.fp else "F")
                trace.append((call, out, tuple(events), state))
    finally:
        avro.fastavro, avro.descriptor_to_schema = saved
    return trace


def canonical_writer_trace():
    """what observe_writer must see when write/flush/close ARE the canonical statement lists"""
    first = ("schema:obs/a", "parse:rec", "Writer:rec:codec", "dry", "w.write")
    est = "desc=obs/a writer=W fp=F"
    closed = ("w.flush", "fp.close")
    return [
        ("write", "ok", first, est), ("write", "ok", ("dry", "w.write"), est), ("flush", "ok", ("w.flush",), est),
        ("write", "Exception:Mixed", (), est), ("write", "ValueError", ("dry",), est), ("write", "Exception:Mixed", (), est),
        ("write", "ok", ("dry", "w.write"), est), ("close", "ok", closed, "desc=obs/a writer=- fp=-"),
        ("flush", "ok", (), "desc=- writer=- fp=F"),
        ("close", "ok", ("parse:empty", "Writer:empty:codec") + closed, "desc=- writer=- fp=-"),
        ("write", "Exception:Unsupported", ("schema:obs/u",), "desc=obs/u writer=- fp=F"),
        ("write", "Exception:Mixed", (), "desc=obs/u writer=- fp=F"),
        ("write", "TypeError", ("dry",), "desc=obs/u writer=- fp=F"), ("flush", "ok", (), "desc=obs/u writer=- fp=F"),
        ("write", "TypeError", ("dry",), "desc=obs/u writer=- fp=F"),
        ("close", "ok", ("parse:empty", "Writer:empty:codec") + closed, "desc=obs/u writer=- fp=-"),
        ("write", "ValueError", first[:4], est), ("write", "ok", ("dry", "w.write"), est),
        ("close", "ok", closed, "desc=obs/a writer=- fp=-"),
        ("write", "ok", first, est), ("write", "ok", ("dry", "w.write"), est), ("close", "ok", ("w.flush",), "desc=obs/a writer=- fp=-"),
        ("close", "ok", ("parse:empty", "Writer:empty:codec", "w.flush"), "desc=- writer=- fp=-"),
    ]


def writer_code(avro, notes):
    """AvroWriter.write/flush/close as statement lists.  OBSERVED: the order of side effects on scripted sessions
    (schema built, parsed, writer created, scratch encode BEFORE the block buffer, one descriptor per file incl. an
    identifier-colliding one, flush only with a writer, placeholder + flush + file close on close, the stdout target
    flushed but not closed); conclusive when
    it equals what the canonical statement lists do.  The source recogniser (follows private helpers one level) is a
    cross-check: it decides only when the observation is not the canonical one."""
    try:
        code = _writer_code_ast(avro)
        why = None
    except Unsupported as e:
        code = None
        why = str(e)
    try:
        obs = observe_writer(avro)
    except Unsupported:
        raise
    except Exception as e:  # noqa
        obs = None
        why_obs = "%s: %s" % (type(e).__name__, e)
    want = canonical_writer_trace()
    if obs == want:
        if code is None:
            notes.append("shape of AvroWriter.write/flush/close not recognised (%s); observed order of side effects used" % why)
        elif code != CANONICAL_CODE:
            notes.append("AvroWriter.write/flush/close recognised as other statement lists with the same observed side effects; observation used")
        return CANONICAL_CODE
    if code is None:
        diff = "observation failed: " + why_obs if obs is None else next(
            ("step %d: observed %r, canonical %r" % (i, o, c) for i, (o, c) in enumerate(zip(obs, want)) if o != c), "length differs")
        raise Unsupported("AvroWriter: source shape not recognised (%s) and the observed side effects are not the canonical ones (%s)" % (why, diff))
    if code == CANONICAL_CODE:
        diff = "observation failed: " + why_obs if obs is None else next(
            ("step %d: observed %r, canonical %r" % (i, o, c) for i, (o, c) in enumerate(zip(obs, want)) if o != c), "length differs")
        raise Unsupported("AvroWriter: the source reads as the canonical statement lists but behaves differently (%s)" % diff)
    return code


# ------------------------------------------------------------------------------------------

def gen_avro():
    import flow.record.adapter.avro as avro
    from flow.record.base import RESERVED_FIELDS
    for nm in ("AVRO_TYPE_MAP", "RECORD_TYPE_MAP"):
        m = getattr(avro, nm, None)
        if not isinstance(m, dict) or not all(isinstance(k, str) and isinstance(v, str) for k, v in m.items()):
            raise Unsupported("%s is not a dict of str -> str" % nm)
    epoch = avro.EPOCH
    if not isinstance(epoch, pydt.datetime) or epoch.tzinfo is None:
        raise Unsupported("EPOCH is not an aware datetime")
    td = epoch - pydt.datetime(1970, 1, 1, tzinfo=pydt.timezone.utc)
    epoch_us = (td.days * 86400 + td.seconds) * 10**6 + td.microseconds

    probes = schema_probes(avro)
    # the datetime literal, the null branch and the presence of the doc, as the probes show them
    by = {(n, tuple(f)): s for n, f, s in probes}
    s_dt = by.get(("probe/t", (("datetime", "f"),)))
    s_str = by.get(("probe/t", (("string", "f"),)))
    if not s_dt or not s_str:
        raise Unsupported("descriptor_to_schema refuses a datetime or a string field")
    dt_union = s_dt["fields"][0]["type"]
    str_union = s_str["fields"][0]["type"]
    if not (isinstance(str_union, list) and len(str_union) == 2 and str_union[0] == avro.AVRO_TYPE_MAP.get("string")):
        raise Unsupported("the union of a string field is not [AVRO_TYPE_MAP['string'], <null>]: %r" % (str_union,))
    has_doc = all(s is None or s.get("doc") == json.dumps([n, [list(x) for x in f]]) for n, f, s in probes)
    if not has_doc and any(s is not None and "doc" in s for n, f, s in probes):
        raise Unsupported("schema doc is neither absent nor json.dumps(desc._pack())")
    notes = []
    prefix, suffix = doc_detection(avro, notes)
    guard = reader_guard(avro, notes)
    cw, cf, cc = writer_code(avro, notes)

    out = HEADER
    out += "From Coq Require Import List Bool String ZArith.\nImport ListNotations.\nFrom FR Require Import Avro.\nOpen Scope string_scope.\n\n"
    for n in notes:
        out += "(* note: %s *)\n" % n.replace("*)", "* )").replace("(*", "( *").replace('"', "'")
    out += "(* AVRO_TYPE_MAP, RECORD_TYPE_MAP (source order), RESERVED_FIELDS as (typename, fieldname), the union literal of\n"
    out += "   datetime fields and the null member of the other unions (as descriptor_to_schema builds them), whether the schema's\n"
    out += "   doc is json.dumps(desc._pack()), the affixes of the doc-detection condition, the reader's guard, EPOCH *)\n"
    out += "Definition avro_cfg : config := {|\n"
    out += "  cfg_avro_map := %s;\n" % clist(cpair(_plain(k, "AVRO_TYPE_MAP"), _plain(v, "AVRO_TYPE_MAP")) for k, v in avro.AVRO_TYPE_MAP.items())
    out += "  cfg_record_map := %s;\n" % clist(cpair(_plain(k, "RECORD_TYPE_MAP"), _plain(v, "RECORD_TYPE_MAP")) for k, v in avro.RECORD_TYPE_MAP.items())
    out += "  cfg_reserved := %s;\n" % clist(cpair(_plain(t, "RESERVED_FIELDS"), _plain(n, "RESERVED_FIELDS")) for n, t in RESERVED_FIELDS.items())
    out += "  cfg_datetime_union := %s;\n" % c_union(dt_union, "datetime union")
    out += "  cfg_null_branch := %s;\n" % c_atype(str_union[1], "null branch")
    out += "  cfg_has_doc := %s;\n" % cbool(has_doc)
    out += "  cfg_doc_prefix := %s;\n  cfg_doc_suffix := %s;\n" % (_plain(prefix, "doc prefix"), _plain(suffix, "doc suffix"))
    out += "  cfg_guard := %s;\n  cfg_epoch_us := %s |}.\n\n" % (cZ(guard), cZ(epoch_us))
    out += "(* AvroWriter.write / flush / close as statement lists *)\n"
    out += "Definition avro_code : wcode := {|\n  code_write := %s;\n  code_flush := %s;\n  code_close := %s |}.\n\n" % (cw, cf, cc)
    out += "(* descriptor_to_schema on the probe descriptors (None: raises Exception(\"Unsupported Avro type\")) *)\n"
    out += "Definition avro_schema_probes : list (descriptor * option schema) :=\n  %s.\n" % clist(
        (cpair(c_desc(n, f), copt(s, lambda x: c_schema(x, "probe %s" % n))) for n, f, s in probes), sep=";\n   ")
    write_if_changed(GEN / "Gen_avro.v", out)


GENERATORS = [gen_avro]
