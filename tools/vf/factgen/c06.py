"""C06 facts: coq/gen/Gen_names.v.

Reads from /repo's working tree on every run (fail closed: `Unsupported` when the code no longer has a shape that
can be expressed):

* RE_VALID_FIELD_NAME / RE_VALID_RECORD_TYPE_NAME: the pattern Python's own parser (re._parser) sees, translated
  to the regex AST of lib/Regex.v.  Only the constructs present are supported (literals, classes of ranges and
  literals, `?`, `*`, `+`, groups, alternation, `^` at the start, `$` or `\\Z` at the end, no flags).
* is_valid_field_name: its if/return structure as a decision tree over four atomic tests.
* _generate_record_class: the order of its top-level steps (field-name check, RecordField construction, type-name
  check, exec); RecordField.__init__ and fieldtype(): validation precedes resolution.
* RESERVED_FIELDS, WHITELIST, keyword.kwlist, RECORD_CLASS_TEMPLATE (text and holes), which functions call
  exec/eval/compile/__import__ and _generate_record_class, and for every untrusted route (stream frame, JSON line,
  Avro schema) whether it hands the definition to RecordDescriptor(...).
"""
from __future__ import annotations

import ast
import inspect
import keyword
import re
import string
import textwrap
from pathlib import Path

from vf.coqlit import cbool, clist, cpair
from vf.factlib import GEN, HEADER, Unsupported, write_if_changed

try:  # Python >= 3.11
    from re import _constants as sre_c
    from re import _parser as sre_p
except ImportError:  # pragma: no cover
    import sre_constants as sre_c
    import sre_parse as sre_p


# ---------------------------------------------------------------------------------------------
# literals

def cstrN(s: str) -> str:
    """a str as a Gallina `list N` of code points"""
    return "[" + "; ".join(str(ord(c)) for c in s) + "]"


# ---------------------------------------------------------------------------------------------
# regex -> lib/Regex.v AST

def _seq(items):
    if not items:
        return "Eps"
    if len(items) == 1:
        return items[0]
    return "(Seq %s %s)" % (items[0], _seq(items[1:]))


def _class(items, where):
    rs = []
    for op, av in items:
        if op is sre_c.LITERAL:
            rs.append((av, av))
        elif op is sre_c.RANGE:
            rs.append((av[0], av[1]))
        else:
            raise Unsupported("character class item %s in %s" % (op, where))
    return "(CC [%s])" % "; ".join("(%d, %d)" % r for r in rs)


def _tr_items(items, where):
    out = []
    for op, av in items:
        if op is sre_c.LITERAL:
            out.append("(CC [(%d, %d)])" % (av, av))
        elif op is sre_c.IN:
            out.append(_class(av, where))
        elif op is sre_c.MAX_REPEAT:
            lo, hi, sub = av
            body = _seq(_tr_items(list(sub), where))
            if (lo, hi) == (0, 1):
                out.append("(Opt %s)" % body)
            elif lo == 0 and hi is sre_c.MAXREPEAT:
                out.append("(Star %s)" % body)
            elif lo == 1 and hi is sre_c.MAXREPEAT:
                out.append("(Seq %s (Star %s))" % (body, body))
            else:
                raise Unsupported("repeat {%s,%s} in %s" % (lo, hi, where))
        elif op is sre_c.SUBPATTERN:
            group, add_flags, del_flags, sub = av
            if add_flags or del_flags:
                raise Unsupported("inline flags in %s" % where)
            out.append(_seq(_tr_items(list(sub), where)))
        elif op is sre_c.BRANCH:
            _, alts = av
            terms = [_seq(_tr_items(list(a), where)) for a in alts]
            t = terms[-1]
            for x in reversed(terms[:-1]):
                t = "(Alt %s %s)" % (x, t)
            out.append(t)
        else:
            raise Unsupported("regex construct %s in %s" % (op, where))
    return out


def regex_fact(pattern, flags, method, where):
    """-> Gallina term of type re_fact for `re.compile(pattern, flags).<method>(s)`"""
    if not isinstance(pattern, str):
        raise Unsupported("%s: pattern is not a str" % where)
    if flags & ~re.UNICODE:
        raise Unsupported("%s: regex flags %r" % (where, re.RegexFlag(flags)))
    items = list(sre_p.parse(pattern, flags))
    anchored_start = False
    if items and items[0] == (sre_c.AT, sre_c.AT_BEGINNING) or items and items[0] == (sre_c.AT, sre_c.AT_BEGINNING_STRING):
        anchored_start = True
        items = items[1:]
    end = "EndNone"
    if items and items[-1][0] is sre_c.AT:
        if items[-1][1] is sre_c.AT_END:
            end = "EndDollar"
        elif items[-1][1] is sre_c.AT_END_STRING:
            end = "EndZ"
        else:
            raise Unsupported("%s: anchor %s" % (where, items[-1][1]))
        items = items[:-1]
    if method == "match":
        pass
    elif method == "fullmatch":
        end = "EndZ"       # fullmatch: the whole string, "$" before a final newline cannot help
    elif method == "search":
        if not anchored_start:
            raise Unsupported("%s: .search() with a pattern not anchored by ^" % where)
    else:
        raise Unsupported("%s: regex method .%s()" % (where, method))
    body = _seq(_tr_items(items, where))
    return "{| re_body := %s; re_end := %s |}" % (body, end)


# ---------------------------------------------------------------------------------------------
# AST helpers

def _fn_ast(fn):
    src = textwrap.dedent(inspect.getsource(fn))
    node = ast.parse(src).body[0]
    if not isinstance(node, ast.FunctionDef):
        raise Unsupported("%r is not a plain def" % fn)
    return node


def _body_wo_doc(node):
    body = list(node.body)
    if body and isinstance(body[0], ast.Expr) and isinstance(body[0].value, ast.Constant) and isinstance(body[0].value.value, str):
        body = body[1:]
    return body


def _calls(node):
    return [n for n in ast.walk(node) if isinstance(n, ast.Call)]


def _call_name(c):
    """dotted name of a call's function, or None"""
    f = c.func
    parts = []
    while isinstance(f, ast.Attribute):
        parts.append(f.attr)
        f = f.value
    if isinstance(f, ast.Name):
        parts.append(f.id)
        return ".".join(reversed(parts))
    return None


def _has_return(node):
    """a return statement that belongs to this function (not to a nested def / lambda)"""
    stack = [node]
    while stack:
        n = stack.pop()
        if isinstance(n, ast.Return):
            return True
        for ch in ast.iter_child_nodes(n):
            if not isinstance(ch, (ast.FunctionDef, ast.AsyncFunctionDef, ast.Lambda, ast.ClassDef)):
                stack.append(ch)
    return False


def _loop_escape(loop):
    """(kind, line) of the first break / continue / return that belongs to this loop's body (nested loops keep their own
    break/continue; nested defs keep their own return), or None"""
    def walk(n, in_inner_loop):
        for ch in ast.iter_child_nodes(n):
            if isinstance(ch, (ast.FunctionDef, ast.AsyncFunctionDef, ast.Lambda, ast.ClassDef)):
                continue
            if isinstance(ch, ast.Return):
                return ("return", ch.lineno)
            if isinstance(ch, (ast.Break, ast.Continue)) and not in_inner_loop:
                return ("break" if isinstance(ch, ast.Break) else "continue", ch.lineno)
            r = walk(ch, in_inner_loop or isinstance(ch, (ast.For, ast.While, ast.AsyncFor)))
            if r:
                return r
        return None
    for st in loop.body:
        if isinstance(st, ast.Return):
            return ("return", st.lineno)
        if isinstance(st, (ast.Break, ast.Continue)):
            return ("break" if isinstance(st, ast.Break) else "continue", st.lineno)
        r = walk(st, isinstance(st, (ast.For, ast.While, ast.AsyncFor)))
        if r:
            return r
    return None


def _is_raise_only(stmts):
    return len(stmts) >= 1 and isinstance(stmts[-1], ast.Raise) and all(isinstance(s, (ast.Raise, ast.Expr)) for s in stmts)


def _regex_call(node, mod, argname):
    """`RE_NAME.m(arg)` | `re.m(PATTERN, arg)` -> (pattern, flags, method) or None"""
    if not (isinstance(node, ast.Call) and isinstance(node.func, ast.Attribute) and not node.keywords):
        return None
    meth = node.func.attr
    recv = node.func.value
    if isinstance(recv, ast.Name) and recv.id != "re" and len(node.args) == 1:
        obj = getattr(mod, recv.id, None)
        if isinstance(obj, re.Pattern) and isinstance(node.args[0], ast.Name) and node.args[0].id == argname:
            return obj.pattern, obj.flags, meth
        return None
    if isinstance(recv, ast.Name) and recv.id == "re" and len(node.args) == 2 \
            and isinstance(node.args[1], ast.Name) and node.args[1].id == argname:
        p = node.args[0]
        if isinstance(p, ast.Constant) and isinstance(p.value, str):
            return p.value, re.UNICODE, meth
        if isinstance(p, ast.Name):
            obj = getattr(mod, p.id, None)
            if isinstance(obj, str):
                return obj, re.UNICODE, meth
            if isinstance(obj, re.Pattern):
                return obj.pattern, obj.flags, meth
    if isinstance(recv, ast.Call) and _call_name(recv) == "re.compile" and len(recv.args) == 1 and not recv.keywords \
            and isinstance(recv.args[0], ast.Constant) and isinstance(recv.args[0].value, str) \
            and len(node.args) == 1 and isinstance(node.args[0], ast.Name) and node.args[0].id == argname:
        return recv.args[0].value, re.UNICODE, meth
    return None


# ---------------------------------------------------------------------------------------------
# is_valid_field_name -> dtree

class _FieldValidator:
    def __init__(self, base):
        self.base = base
        self.fn = _fn_ast(base.is_valid_field_name)
        a = self.fn.args
        if [x.arg for x in a.args] != ["name", "check_reserved"] or a.vararg or a.kwarg or a.kwonlyargs or a.posonlyargs:
            raise Unsupported("is_valid_field_name signature")
        if len(a.defaults) != 1 or not (isinstance(a.defaults[0], ast.Constant) and isinstance(a.defaults[0].value, bool)):
            raise Unsupported("is_valid_field_name: default of check_reserved")
        self.default_check = a.defaults[0].value
        self.regex = None
        self.tree = self._tree(_body_wo_doc(self.fn))
        if self.regex is None:
            # no regex test at all: express as a regex that matches everything? no -- fail closed
            raise Unsupported("is_valid_field_name does not test RE_VALID_FIELD_NAME")

    def _cond(self, n):
        if isinstance(n, ast.Name) and n.id == "check_reserved":
            return "ACheckReserved"
        if isinstance(n, ast.UnaryOp) and isinstance(n.op, ast.Not):
            return "(ANot %s)" % self._cond(n.operand)
        if isinstance(n, ast.BoolOp):
            cs = [self._cond(v) for v in n.values]
            k = "AAnd" if isinstance(n.op, ast.And) else "AOr"
            t = cs[-1]
            for x in reversed(cs[:-1]):
                t = "(%s %s %s)" % (k, x, t)
            return t
        if isinstance(n, ast.Compare) and len(n.ops) == 1 and isinstance(n.left, ast.Name) and n.left.id == "name" \
                and isinstance(n.comparators[0], ast.Name) and n.comparators[0].id == "RESERVED_FIELDS":
            if isinstance(n.ops[0], ast.In):
                return "AInReserved"
            if isinstance(n.ops[0], ast.NotIn):
                return "(ANot AInReserved)"
        if isinstance(n, ast.Call) and isinstance(n.func, ast.Attribute) and n.func.attr == "startswith" \
                and isinstance(n.func.value, ast.Name) and n.func.value.id == "name" and len(n.args) == 1 and not n.keywords \
                and isinstance(n.args[0], ast.Constant) and n.args[0].value == "_":
            return "AStartsUnderscore"
        if isinstance(n, ast.Call) and _call_name(n) == "bool" and len(n.args) == 1 and not n.keywords:
            return self._cond(n.args[0])
        rc = _regex_call(n, self.base, "name")
        if rc is not None:
            if self.regex is not None and self.regex != rc:
                raise Unsupported("is_valid_field_name tests two different regexes")
            self.regex = rc
            return "ARegexMatch"
        raise Unsupported("is_valid_field_name: condition at line %d: %s" % (getattr(n, "lineno", 0), ast.dump(n)[:120]))

    def _tree(self, stmts):
        if not stmts:
            return "(DRet false)"          # falls off the end: None, which callers treat as false
        s, rest = stmts[0], stmts[1:]
        if isinstance(s, ast.Pass):
            return self._tree(rest)
        if isinstance(s, ast.Return):
            if s.value is None or (isinstance(s.value, ast.Constant) and s.value.value is None):
                return "(DRet false)"
            if isinstance(s.value, ast.Constant) and isinstance(s.value.value, bool):
                return "(DRet %s)" % cbool(s.value.value)
            return "(DIf %s (DRet true) (DRet false))" % self._cond(s.value)
        if isinstance(s, ast.If):
            return "(DIf %s %s %s)" % (self._cond(s.test), self._tree(list(s.body) + rest), self._tree(list(s.orelse) + rest))
        raise Unsupported("is_valid_field_name: statement at line %d" % s.lineno)


def _validator_call(node, default_check):
    """`is_valid_field_name(x)` / `(x, c)` / `(x, check_reserved=c)` -> (argname, check_reserved) or None"""
    if not (isinstance(node, ast.Call) and _call_name(node) == "is_valid_field_name"):
        return None
    if not node.args or not isinstance(node.args[0], ast.Name):
        raise Unsupported("is_valid_field_name called on a non-name at line %d" % node.lineno)
    check = default_check
    extra = list(node.args[1:]) + [k.value for k in node.keywords if k.arg == "check_reserved"]
    if len(extra) > 1 or any(k.arg != "check_reserved" for k in node.keywords):
        raise Unsupported("is_valid_field_name call at line %d" % node.lineno)
    if extra:
        if not (isinstance(extra[0], ast.Constant) and isinstance(extra[0].value, bool)):
            raise Unsupported("check_reserved is not a constant at line %d" % node.lineno)
        check = extra[0].value
    return node.args[0].id, check


def _guard_raises(stmt, pred):
    """`if not <pred-call>: raise ...`  (pred(node) -> truthy info)  -> info or None"""
    if isinstance(stmt, ast.If) and not stmt.orelse and isinstance(stmt.test, ast.UnaryOp) and isinstance(stmt.test.op, ast.Not) \
            and _is_raise_only(stmt.body):
        return pred(stmt.test.operand)
    return None


DANGEROUS = ("exec", "eval", "compile", "__import__")


def _contains_dangerous(node):
    return any(isinstance(c.func, ast.Name) and c.func.id in DANGEROUS for c in _calls(node))


# ---------------------------------------------------------------------------------------------
# _generate_record_class

def grc_steps(base, fv):
    fn = base._generate_record_class
    fn = getattr(fn, "__wrapped__", fn)
    node = _fn_ast(fn)
    params = [a.arg for a in node.args.args]
    if params[:2] != ["name", "fields"]:
        raise Unsupported("_generate_record_class signature %s" % params)
    steps = []
    grc_check = None
    type_re = None
    name_rebound = False
    for st in _body_wo_doc(node):
        if _contains_dangerous(st):
            steps.append("GExec")
            continue
        if "GExec" not in steps and _has_return(st):
            raise Unsupported("_generate_record_class returns at line %d, before exec (statement order is no longer dominance)" % st.lineno)
        # for _, fieldname in fields: if not is_valid_field_name(fieldname): raise
        if isinstance(st, ast.For) and isinstance(st.iter, ast.Name) and st.iter.id == "fields" \
                and isinstance(st.target, ast.Tuple) and len(st.target.elts) == 2 and all(isinstance(e, ast.Name) for e in st.target.elts):
            namevar = st.target.elts[1].id
            for k, inner in enumerate(st.body):
                info = _guard_raises(inner, lambda n: _validator_call(n, fv.default_check))
                if info and info[0] == namevar:
                    # the model's step is "EVERY field name is checked": the loop must visit every field and reach the
                    # check for each of them -- no break / continue / return / else, loop variable not rebound before
                    # the check (fail closed otherwise)
                    esc = _loop_escape(st)
                    if esc is not None:
                        raise Unsupported("_generate_record_class: the field-name validation loop has `%s` at line %d "
                                          "(not every field is checked)" % esc)
                    if st.orelse:
                        raise Unsupported("_generate_record_class: the field-name validation loop has an else clause")
                    for before in st.body[:k]:
                        for n in ast.walk(before):
                            if isinstance(n, ast.Name) and isinstance(n.ctx, ast.Store) and n.id == namevar:
                                raise Unsupported("_generate_record_class: %s is rebound before it is checked" % namevar)
                        if not isinstance(before, (ast.Expr, ast.Assign, ast.AnnAssign, ast.AugAssign, ast.Pass)):
                            raise Unsupported("_generate_record_class: statement at line %d precedes the field-name check "
                                              "inside the loop" % before.lineno)
                    if grc_check is not None and grc_check != info[1]:
                        raise Unsupported("_generate_record_class checks field names twice with different check_reserved")
                    grc_check = info[1]
                    steps.append("GCheckFieldNames")
            continue
        # ... RecordField(n, _type) for _type, n in fields ...
        rf = [c for c in _calls(st) if _call_name(c) == "RecordField"]
        if rf:
            ok = False
            for comp in ast.walk(st):
                if isinstance(comp, (ast.ListComp, ast.GeneratorExp, ast.DictComp, ast.SetComp)) and len(comp.generators) == 1:
                    g = comp.generators[0]
                    if isinstance(g.iter, ast.Name) and g.iter.id == "fields" and isinstance(g.target, ast.Tuple) \
                            and len(g.target.elts) == 2 and all(isinstance(e, ast.Name) for e in g.target.elts) and not g.ifs:
                        tvar, nvar = g.target.elts[0].id, g.target.elts[1].id
                        inner = [c for c in _calls(comp) if _call_name(c) == "RecordField"]
                        if len(inner) == 1 and len(inner[0].args) == 2 and not inner[0].keywords \
                                and all(isinstance(a, ast.Name) for a in inner[0].args) \
                                and inner[0].args[0].id == nvar and inner[0].args[1].id == tvar:
                            ok = True
            if ok:
                steps.append("GBuildRecordFields")
            continue
        info = _guard_raises(st, lambda n: _regex_call(n, base, "name"))
        if info:
            if name_rebound:
                raise Unsupported("_generate_record_class: `name` is reassigned before the type-name check")
            if type_re is not None and type_re != info:
                raise Unsupported("_generate_record_class tests two different type-name regexes")
            type_re = info
            steps.append("GCheckTypeName")
            continue
        for n in ast.walk(st):
            if isinstance(n, (ast.Assign, ast.AugAssign, ast.AnnAssign)):
                tg = n.targets if isinstance(n, ast.Assign) else [n.target]
                for t in tg:
                    for nm in ast.walk(t):
                        if isinstance(nm, ast.Name) and nm.id == "name":
                            name_rebound = True
                        if isinstance(nm, ast.Name) and nm.id == "fields" and "GExec" not in steps:
                            raise Unsupported("_generate_record_class reassigns `fields` before exec")
    if type_re is None:
        # no type-name check at all: the model needs some regex; use one that the shape test rejects
        type_re = (r"(?s:.)*", re.UNICODE | re.DOTALL, "nomatch")
    return steps, (grc_check if grc_check is not None else fv.default_check), type_re



# ---------------------------------------------------------------------------------------------
# RecordField.__init__ and fieldtype

def recordfield_facts(base, fv):
    node = _fn_ast(base.RecordField.__init__)
    params = [a.arg for a in node.args.args]
    if params != ["self", "name", "typename"]:
        raise Unsupported("RecordField.__init__ signature %s" % params)
    check = None
    check_at = ft_at = None
    for i, st in enumerate(_body_wo_doc(node)):
        if ft_at is None and _has_return(st):
            raise Unsupported("RecordField.__init__ returns at line %d before fieldtype()" % st.lineno)
        info = _guard_raises(st, lambda n: _validator_call(n, fv.default_check))
        if info and info[0] == "name" and check_at is None:
            check_at, check = i, info[1]
        if ft_at is None and any(_call_name(c) == "fieldtype" for c in _calls(st)):
            ft_at = i
        for n in ast.walk(st):
            if isinstance(n, ast.Assign) and check_at is None:
                for t in n.targets:
                    if isinstance(t, ast.Name) and t.id in ("name", "typename"):
                        raise Unsupported("RecordField.__init__ rebinds %s before validating" % t.id)
    if ft_at is None:
        raise Unsupported("RecordField.__init__ does not call fieldtype()")
    for c in _calls(_body_wo_doc(node)[ft_at]):
        if _call_name(c) == "fieldtype" and not (len(c.args) == 1 and isinstance(c.args[0], ast.Name) and c.args[0].id == "typename"):
            raise Unsupported("RecordField.__init__: fieldtype() is not called on typename")
    before = check_at is not None and check_at < ft_at
    # when the name is not checked here at all the model's step checks nothing: express as check_reserved
    # irrelevant + validates_before false
    return before, (check if check is not None else False)


RESOLVERS = ("importlib.import_module", "getattr", "type", "__import__", "eval", "exec", "import_module")


def fieldtype_facts(base):
    fn = getattr(base.fieldtype, "__wrapped__", base.fieldtype)
    node = _fn_ast(fn)
    params = [a.arg for a in node.args.args]
    if params != ["clspath"]:
        raise Unsupported("fieldtype signature %s" % params)
    body = _body_wo_doc(node)
    guard_at = resolve_at = None
    strips_one = False
    strip_at = None
    for i, st in enumerate(body):
        if guard_at is None and _has_return(st):
            raise Unsupported("fieldtype returns at line %d before the whitelist test" % st.lineno)
        if resolve_at is None and any(_call_name(c) in RESOLVERS for c in _calls(st)):
            resolve_at = i
        # if clspath not in WHITELIST: raise
        if isinstance(st, ast.If) and not st.orelse and _is_raise_only(st.body) and isinstance(st.test, ast.Compare) \
                and len(st.test.ops) == 1 and isinstance(st.test.ops[0], ast.NotIn) \
                and isinstance(st.test.left, ast.Name) and st.test.left.id == "clspath" \
                and isinstance(st.test.comparators[0], ast.Name) and st.test.comparators[0].id == "WHITELIST":
            if guard_at is None:
                guard_at = i
            continue
        # if clspath.endswith("[]"): ... clspath = clspath[:-2] ...
        assigns = [n for n in ast.walk(st) if isinstance(n, ast.Assign) and any(isinstance(t, ast.Name) and t.id == "clspath" for t in n.targets)]
        if assigns:
            t = st.test if isinstance(st, ast.If) else None
            ok = (isinstance(st, ast.If) and isinstance(t, ast.Call) and isinstance(t.func, ast.Attribute) and t.func.attr == "endswith"
                  and isinstance(t.func.value, ast.Name) and t.func.value.id == "clspath" and len(t.args) == 1
                  and isinstance(t.args[0], ast.Constant) and t.args[0].value == "[]" and len(assigns) == 1
                  and assigns[0] in st.body)
            if ok:
                v = assigns[0].value
                ok = (isinstance(v, ast.Subscript) and isinstance(v.value, ast.Name) and v.value.id == "clspath"
                      and isinstance(v.slice, ast.Slice) and v.slice.lower is None and v.slice.step is None
                      and isinstance(v.slice.upper, ast.UnaryOp) and isinstance(v.slice.upper.op, ast.USub)
                      and isinstance(v.slice.upper.operand, ast.Constant) and v.slice.upper.operand.value == 2)
            if not ok or strip_at is not None:
                raise Unsupported("fieldtype: clspath is rewritten in an unsupported way at line %d" % st.lineno)
            strip_at = i
            strips_one = True
    if strip_at is not None and guard_at is not None and strip_at > guard_at:
        raise Unsupported("fieldtype: clspath is rewritten after the whitelist test")
    import flow.record.whitelist as wl
    if base.WHITELIST is not wl.WHITELIST:
        raise Unsupported("base.WHITELIST is not whitelist.WHITELIST")
    before = guard_at is not None and (resolve_at is None or guard_at < resolve_at)
    return strips_one, before


# ---------------------------------------------------------------------------------------------
# who calls exec / _generate_record_class; untrusted routes

def _functions(tree):
    """(qualname, node) for every def in a module, one level of classes"""
    out = []
    for n in tree.body:
        if isinstance(n, (ast.FunctionDef, ast.AsyncFunctionDef)):
            out.append((n.name, n))
        elif isinstance(n, ast.ClassDef):
            for m in n.body:
                if isinstance(m, (ast.FunctionDef, ast.AsyncFunctionDef)):
                    out.append((n.name + "." + m.name, m))
    return out


def call_sites(base):
    tree = ast.parse(Path(base.__file__).read_text())
    execs, callers = [], []
    covered = set()
    for q, fn in _functions(tree):
        for c in _calls(fn):
            covered.add(id(c))
            if isinstance(c.func, ast.Name) and c.func.id in DANGEROUS:
                execs.append(q)
            if _call_name(c) == "_generate_record_class":
                callers.append(q)
    for c in _calls(tree):
        if id(c) not in covered:
            if isinstance(c.func, ast.Name) and c.func.id in DANGEROUS:
                execs.append("<module>")
            if _call_name(c) == "_generate_record_class":
                callers.append("<module>")
    return sorted(set(execs)), sorted(set(callers))


def _ctor_call(n):
    return isinstance(n, ast.Call) and _call_name(n) in ("RecordDescriptor", "RecordDescriptor._unpack",
                                                         "record.RecordDescriptor", "record.RecordDescriptor._unpack")


def _branch_returns_ctor(fn_node, is_test):
    """the `if <test>:` branch selected by is_test ends in `return RecordDescriptor[._unpack](...)` and calls nothing
    else than to_str"""
    for n in ast.walk(fn_node):
        if isinstance(n, ast.If) and is_test(n.test):
            last = n.body[-1]
            if not (isinstance(last, ast.Return) and _ctor_call(last.value)):
                return False
            for st in n.body:
                for c in _calls(st):
                    if not (_ctor_call(c) or _call_name(c) in ("to_str",)):
                        return False
            return True
    return False


def route_facts(base):
    import flow.record.jsonpacker as jp
    import flow.record.packer as pk
    out = []
    # RecordDescriptor._unpack(name, fields) -> RecordDescriptor(name, fields)
    un = _fn_ast(base.RecordDescriptor.__dict__["_unpack"].__func__)
    b = _body_wo_doc(un)
    unpack_ok = (len(b) == 1 and isinstance(b[0], ast.Return) and isinstance(b[0].value, ast.Call)
                 and _call_name(b[0].value) == "RecordDescriptor" and [a.arg for a in un.args.args] == ["name", "fields"]
                 and [getattr(a, "id", None) for a in b[0].value.args] == ["name", "fields"] and not b[0].value.keywords)
    out.append(("RecordDescriptor._unpack", unpack_ok))

    def is_desc_subtype(t):
        return (isinstance(t, ast.Compare) and len(t.ops) == 1 and isinstance(t.ops[0], ast.Eq)
                and isinstance(t.left, ast.Name) and t.left.id == "subtype"
                and isinstance(t.comparators[0], ast.Name) and t.comparators[0].id == "RECORD_PACK_TYPE_DESCRIPTOR")
    out.append(("packer.unpack_obj/RECORD_PACK_TYPE_DESCRIPTOR", _branch_returns_ctor(_fn_ast(pk.RecordPacker.unpack_obj), is_desc_subtype)))

    def is_json_desc(t):
        return (isinstance(t, ast.Compare) and len(t.ops) == 1 and isinstance(t.ops[0], ast.Eq)
                and isinstance(t.left, ast.Name) and t.left.id == "_type"
                and isinstance(t.comparators[0], ast.Constant) and t.comparators[0].value == "recorddescriptor")
    out.append(("jsonpacker.unpack_obj/recorddescriptor", _branch_returns_ctor(_fn_ast(jp.JsonRecordPacker.unpack_obj), is_json_desc)))

    # avro: read from the file (no import of fastavro needed)
    avro_path = Path(base.__file__).parent / "adapter" / "avro.py"
    tree = ast.parse(avro_path.read_text())
    fn = [n for n in tree.body if isinstance(n, ast.FunctionDef) and n.name == "schema_to_descriptor"]
    ok = False
    if fn:
        rets = [n for n in ast.walk(fn[0]) if isinstance(n, ast.Return)]
        ok = bool(rets) and all(_ctor_call(r.value) for r in rets) and not _contains_dangerous(fn[0])
    out.append(("avro.schema_to_descriptor", ok))
    return out


# ---------------------------------------------------------------------------------------------
# template

HOLES = {"name": "HName", "field_types": "HFieldTypes", "slots_tuple": "HSlots", "args": "HArgs",
         "init_code": "HInit", "unpack_code": "HUnpack"}


def template_pieces(base):
    t = base.RECORD_CLASS_TEMPLATE
    if not isinstance(t, str):
        raise Unsupported("RECORD_CLASS_TEMPLATE is not a str")
    out = []
    for lit, field, spec, conv in string.Formatter().parse(t):
        if lit:
            out.append("TText %s" % cstrN(lit))
        if field is not None:
            if spec or conv or field not in HOLES:
                raise Unsupported("RECORD_CLASS_TEMPLATE hole {%s!%s:%s}" % (field, conv, spec))
            out.append("THole %s" % HOLES[field])
    return out


def template_use(base):
    """the .format(...) call in _generate_record_class: keyword per hole -> how it is computed, as far as the render
    model depends on it (name: the sanitised name; slots_tuple: tuple(all_fields.keys()); and the final
    .replace("\\t", "    "))"""
    fn = getattr(base._generate_record_class, "__wrapped__", base._generate_record_class)
    node = _fn_ast(fn)
    fmt = [c for c in _calls(node) if isinstance(c.func, ast.Attribute) and c.func.attr == "format"
           and isinstance(c.func.value, ast.Name) and c.func.value.id == "RECORD_CLASS_TEMPLATE"]
    if len(fmt) != 1 or fmt[0].args:
        raise Unsupported("_generate_record_class: RECORD_CLASS_TEMPLATE.format(...) call")
    kws = {k.arg: k.value for k in fmt[0].keywords}
    if set(kws) != set(HOLES):
        raise Unsupported("RECORD_CLASS_TEMPLATE.format keywords %s" % sorted(kws))
    for k in ("name", "args", "init_code", "unpack_code", "field_types"):
        if not (isinstance(kws[k], ast.Name) and kws[k].id == k):
            raise Unsupported("RECORD_CLASS_TEMPLATE.format(%s=...) is not the local of that name" % k)
    return True


def code_constants(base):
    """the string constants of _generate_record_class that the render model takes as facts: the tail appended to
    init_code, and args / init_code / unpack_code of the keyword path"""
    fn = getattr(base._generate_record_class, "__wrapped__", base._generate_record_class)
    node = _fn_ast(fn)
    tail = None
    kw = {}
    for st in _body_wo_doc(node):
        if isinstance(st, ast.AugAssign) and isinstance(st.target, ast.Name) and st.target.id == "init_code" \
                and isinstance(st.op, ast.Add) and isinstance(st.value, ast.Constant) and isinstance(st.value.value, str):
            if tail is not None:
                raise Unsupported("_generate_record_class appends two constants to init_code")
            tail = st.value.value
        if isinstance(st, ast.If) and any(isinstance(n, ast.Name) and n.id == "contains_keyword" for n in ast.walk(st.test)):
            for b in st.body:
                if isinstance(b, ast.Assign) and len(b.targets) == 1 and isinstance(b.targets[0], ast.Name) \
                        and b.targets[0].id in ("args", "init_code", "unpack_code") \
                        and isinstance(b.value, ast.Constant) and isinstance(b.value.value, str):
                    kw[b.targets[0].id] = b.value.value
                else:
                    raise Unsupported("_generate_record_class: keyword path statement at line %d" % b.lineno)
    if tail is None or set(kw) != {"args", "init_code", "unpack_code"}:
        raise Unsupported("_generate_record_class: init_code tail / keyword path constants not found")
    return tail, kw


def to_str_fact(base):
    """behavioural fact about utils.to_str, the function that turns names delivered as bytes into text before they are
    validated: identity on str; on bytes exactly bytes.decode("utf-8", "surrogateescape") -- every undecodable byte is
    kept as one (lone surrogate) code point, nothing is dropped, merged or replaced.  Tested on a battery that puts
    every single byte value and a set of invalid / truncated / overlong / surrogate sequences at every position of
    several names."""
    import flow.record.packer as pk
    import flow.record.utils as utils
    f = utils.to_str
    if getattr(base, "to_str", None) is not f or getattr(pk, "to_str", None) is not f:
        raise Unsupported("base.to_str / packer.to_str is not utils.to_str")
    # RecordDescriptor.__init__ and the packer's descriptor branch must pass names through it
    init = _fn_ast(base.RecordDescriptor.__init__)
    if not any(_call_name(c) == "to_str" for c in _calls(init)):
        raise Unsupported("RecordDescriptor.__init__ no longer converts names with to_str")
    ok = True
    for s_ in ("", "a", "abc/def", "\u00e9", "a\n", "\udcff", "\U0001d41a", "x" * 300):
        r = f(s_)
        ok = ok and isinstance(r, str) and r == s_
    seqs = [bytes([b]) for b in range(256)] + [
        b"\xc3", b"\xc3\x28", b"\xc3\xa9", b"\xe2\x82", b"\xe2\x82\xac", b"\xed\xa0\x80", b"\xf0\x9f\x98", b"\xf0\x9f\x98\x80",
        b"\xc0\xaf", b"\xf8\x88\x80\x80\x80", b"\xff\xfe", b"\xfe\xff", b"\x80\x80", b"\xef\xbb\xbf", b"\xf4\x90\x80\x80"]
    hosts = [b"", b"evil/type", b"payload", b"string", b"net.ipaddress"]
    for h in hosts:
        for q in seqs:
            for pos in sorted({0, len(h) // 2, len(h)}) if len(q) == 1 else range(len(h) + 1):
                b = h[:pos] + q + h[pos:]
                try:
                    r = f(b)
                except Exception:
                    ok = False
                    continue
                want = b.decode("utf-8", "surrogateescape")
                if not (isinstance(r, str) and r == want):
                    ok = False
                # the two properties the Coq lemma assumes of the decoder
                if all(x < 128 for x in b):
                    ok = ok and r == b.decode("ascii")
                else:
                    ok = ok and isinstance(r, str) and any(ord(ch) >= 128 for ch in r)
    return bool(ok)


# ---------------------------------------------------------------------------------------------

def gen_names():
    import flow.record.base as base
    fv = _FieldValidator(base)
    steps, grc_check, type_re = grc_steps(base, fv)
    rf_before, rf_check = recordfield_facts(base, fv)
    strips_one, wl_before = fieldtype_facts(base)
    execs, callers = call_sites(base)
    routes = route_facts(base)
    pieces = template_pieces(base)
    template_use(base)
    tail, kwc = code_constants(base)

    field_re = regex_fact(*fv.regex, where="RE_VALID_FIELD_NAME")
    if type_re[2] == "nomatch":
        type_fact = "{| re_body := Star (CC [(0, 1114111)]); re_end := EndNone |}"
    else:
        type_fact = regex_fact(*type_re, where="RE_VALID_RECORD_TYPE_NAME")

    reserved = list(base.RESERVED_FIELDS.items())
    if not all(isinstance(k, str) and isinstance(v, str) for k, v in reserved):
        raise Unsupported("RESERVED_FIELDS is not str -> str")
    wl = list(base.WHITELIST)
    if not all(isinstance(x, str) for x in wl):
        raise Unsupported("WHITELIST holds non-strings")
    plain = []
    ft = getattr(base.fieldtype, "__wrapped__", base.fieldtype)
    for t in wl:
        for suffix in ("", "[]"):
            try:
                cls = ft(t + suffix)
            except Exception:
                continue
            if cls.default == base.FieldType.default:
                plain.append(t + suffix)

    out = HEADER
    out += "From Coq Require Import List Bool NArith.\nImport ListNotations.\nFrom FR Require Import Regex Names.\nOpen Scope N_scope.\n\n"
    # (the pattern texts are not echoed into a comment: they contain the comment terminator)
    out += "Definition facts : name_facts := {|\n"
    out += "  nf_field_re := %s;\n" % field_re
    out += "  nf_type_re := %s;\n" % type_fact
    out += "  nf_reserved := %s;\n" % clist([cpair(cstrN(k), cstrN(v)) for k, v in reserved])
    out += "  nf_whitelist := %s;\n" % clist([cstrN(x) for x in wl], sep=";\n    ")
    out += "  nf_keywords := %s;\n" % clist([cstrN(x) for x in keyword.kwlist], sep=";\n    ")
    out += "  nf_field_valid := %s;\n" % fv.tree
    out += "  nf_grc_check_reserved := %s;\n" % cbool(grc_check)
    out += "  nf_rf_check_reserved := %s;\n" % cbool(rf_check)
    out += "  nf_gsteps := %s;\n" % clist(steps)
    out += "  nf_rf_validates_before_fieldtype := %s;\n" % cbool(rf_before)
    out += "  nf_ft_strips_one_list_suffix := %s;\n" % cbool(strips_one)
    out += "  nf_ft_whitelist_before_import := %s;\n" % cbool(wl_before)
    out += "  nf_exec_sites := %s;\n" % clist([cstrN(x) for x in execs])
    out += "  nf_grc_callers := %s;\n" % clist([cstrN(x) for x in callers])
    out += "  nf_routes := %s;\n" % clist([cpair(cstrN(k), cbool(v)) for k, v in routes], sep=";\n    ")
    out += "  nf_template := %s;\n" % clist(pieces, sep=";\n    ")
    out += "  nf_plain_default_types := %s;\n" % clist([cstrN(x) for x in plain])
    out += "  nf_init_tail := %s;\n" % cstrN(tail)
    out += "  nf_kw_args := %s;\n" % cstrN(kwc["args"])
    out += "  nf_kw_init := %s;\n" % cstrN(kwc["init_code"])
    out += "  nf_kw_unpack := %s;\n" % cstrN(kwc["unpack_code"])
    out += "  nf_to_str_surrogateescape := %s\n" % cbool(to_str_fact(base))
    out += "|}.\n"
    write_if_changed(GEN / "Gen_names.v", out)


GENERATORS = [gen_names]
