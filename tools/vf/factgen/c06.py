"""C06 facts: coq/gen/Gen_names.v.

Reads from /repo's working tree on every run (fail closed: `Unsupported` when the code no longer has a shape that
can be expressed):

* RE_VALID_FIELD_NAME / RE_VALID_RECORD_TYPE_NAME: the pattern Python's own parser (re._parser) sees, translated
  to the regex AST of lib/Regex.v.  Only the constructs present are supported (literals, classes of ranges and
  literals, `?`, `*`, `+`, groups, alternation, `^` at the start, `$` or `\\Z` at the end, no flags).
* is_valid_field_name: its if/return structure as a decision tree over four atomic tests.
* _generate_record_class: the order of its top-level steps (field-name check, RecordField construction, type-name
  check, exec); RecordField.__init__ and fieldtype(): validation precedes resolution.
* RESERVED_FIELDS, WHITELIST, keyword.kwlist, RECORD_CLASS_TEMPLATE (text and holes), which functions call
  exec/eval/compile/__import__ and _generate_record_class, and for every untrusted route (stream frame, JSON line,
  Avro schema) whether it hands the definition to RecordDescriptor(...).
"""
from __future__ import annotations

import ast
import inspect
import keyword
import re
import string
import textwrap
from pathlib import Path

from vf.coqlit import cbool, clist, cpair
from vf.factlib import GEN, HEADER, Unsupported, write_if_changed

try:  # Python >= 3.11
    from re import _constants as sre_c
    from re import _parser as sre_p
except ImportError:  # pragma: no cover
    import sre_constants as sre_c
    import sre_parse as sre_p


# ---------------------------------------------------------------------------------------------
# literals

def cstrN(s: str) -> str:
    """a str as a Gallina `list N` of code points"""
    return "[" + "; ".join(str(ord(c)) for c in s) + "]"


# ---------------------------------------------------------------------------------------------
# regex -> lib/Regex.v AST

def _seq(items):
    if not items:
        return "Eps"
    if len(items) == 1:
        return items[0]
    return "(Seq %s %s)" % (items[0], _seq(items[1:]))


def _class(items, where):
    rs = []
    for op, av in items:
        if op is sre_c.LITERAL:
            rs.append((av, av))
        elif op is sre_c.RANGE:
            rs.append((av[0], av[1]))
        else:
            raise Unsupported("character class item %s in %s" % (op, where))
    return "(CC [%s])" % "; ".join("(%d, %d)" % r for r in rs)


def _tr_items(items, where):
    out = []
    for op, av in items:
        if op is sre_c.LITERAL:
            out.append("(CC [(%d, %d)])" % (av, av))
        elif op is sre_c.IN:
            out.append(_class(av, where))
        elif op is sre_c.MAX_REPEAT:
            lo, hi, sub = av
            body = _seq(_tr_items(list(sub), where))
            if (lo, hi) == (0, 1):
                out.append("(Opt %s)" % body)
            elif lo == 0 and hi is sre_c.MAXREPEAT:
                out.append("(Star %s)" % body)
            elif lo == 1 and hi is sre_c.MAXREPEAT:
                out.append("(Seq %s (Star %s))" % (body, body))
            else:
                raise Unsupported("repeat {%s,%s} in %s" % (lo, hi, where))
        elif op is sre_c.SUBPATTERN:
            group, add_flags, del_flags, sub = av
            if add_flags or del_flags:
                raise Unsupported("inline flags in %s" % where)
            out.append(_seq(_tr_items(list(sub), where)))
        elif op is sre_c.BRANCH:
            _, alts = av
            terms = [_seq(_tr_items(list(a), where)) for a in alts]
            t = terms[-1]
            for x in reversed(terms[:-1]):
                t = "(Alt %s %s)" % (x, t)
            out.append(t)
        else:
            raise Unsupported("regex construct %s in %s" % (op, where))
    return out


def regex_parts(pattern, flags, where):
    """-> (Gallina regex term of the anchor-free body, end anchor the pattern itself carries, anchored at start?)"""
    if not isinstance(pattern, str):
        raise Unsupported("%s: pattern is not a str" % where)
    if flags & ~re.UNICODE:
        raise Unsupported("%s: regex flags %r" % (where, re.RegexFlag(flags)))
    items = list(sre_p.parse(pattern, flags))
    anchored_start = False
    if items and items[0][0] is sre_c.AT and items[0][1] in (sre_c.AT_BEGINNING, sre_c.AT_BEGINNING_STRING):
        anchored_start = True
        items = items[1:]
    end = "EndNone"
    if items and items[-1][0] is sre_c.AT:
        if items[-1][1] is sre_c.AT_END:
            end = "EndDollar"
        elif items[-1][1] is sre_c.AT_END_STRING:
            end = "EndZ"
        else:
            raise Unsupported("%s: anchor %s" % (where, items[-1][1]))
        items = items[:-1]
    return _seq(_tr_items(items, where)), end, anchored_start


# ---------------------------------------------------------------------------------------------
# AST helpers

def _fn_ast(fn):
    src = textwrap.dedent(inspect.getsource(fn))
    node = ast.parse(src).body[0]
    if not isinstance(node, ast.FunctionDef):
        raise Unsupported("%r is not a plain def" % fn)
    return node


def _body_wo_doc(node):
    body = list(node.body)
    if body and isinstance(body[0], ast.Expr) and isinstance(body[0].value, ast.Constant) and isinstance(body[0].value.value, str):
        body = body[1:]
    return body


def _calls(node):
    return [n for n in ast.walk(node) if isinstance(n, ast.Call)]


def _call_name(c):
    """dotted name of a call's function, or None"""
    f = c.func
    parts = []
    while isinstance(f, ast.Attribute):
        parts.append(f.attr)
        f = f.value
    if isinstance(f, ast.Name):
        parts.append(f.id)
        return ".".join(reversed(parts))
    return None


def _has_return(node):
    """a return statement that belongs to this function (not to a nested def / lambda)"""
    stack = [node]
    while stack:
        n = stack.pop()
        if isinstance(n, ast.Return):
            return True
        for ch in ast.iter_child_nodes(n):
            if not isinstance(ch, (ast.FunctionDef, ast.AsyncFunctionDef, ast.Lambda, ast.ClassDef)):
                stack.append(ch)
    return False


def _loop_escape(loop):
    """(kind, line) of the first break / continue / return that belongs to this loop's body (nested loops keep their own
    break/continue; nested defs keep their own return), or None"""
    def walk(n, in_inner_loop):
        for ch in ast.iter_child_nodes(n):
            if isinstance(ch, (ast.FunctionDef, ast.AsyncFunctionDef, ast.Lambda, ast.ClassDef)):
                continue
            if isinstance(ch, ast.Return):
                return ("return", ch.lineno)
            if isinstance(ch, (ast.Break, ast.Continue)) and not in_inner_loop:
                return ("break" if isinstance(ch, ast.Break) else "continue", ch.lineno)
            r = walk(ch, in_inner_loop or isinstance(ch, (ast.For, ast.While, ast.AsyncFor)))
            if r:
                return r
        return None
    for st in loop.body:
        if isinstance(st, ast.Return):
            return ("return", st.lineno)
        if isinstance(st, (ast.Break, ast.Continue)):
            return ("break" if isinstance(st, ast.Break) else "continue", st.lineno)
        r = walk(st, isinstance(st, (ast.For, ast.While, ast.AsyncFor)))
        if r:
            return r
    return None


def _is_raise_only(stmts):
    return len(stmts) >= 1 and isinstance(stmts[-1], ast.Raise) and all(isinstance(s, (ast.Raise, ast.Expr)) for s in stmts)


def _regex_call(node, mod, argname):
    """`RE_NAME.m(arg)` | `re.m(PATTERN, arg)` -> (pattern, flags, method) or None"""
    if not (isinstance(node, ast.Call) and isinstance(node.func, ast.Attribute) and not node.keywords):
        return None
    meth = node.func.attr
    recv = node.func.value
    if isinstance(recv, ast.Name) and recv.id != "re" and len(node.args) == 1:
        obj = getattr(mod, recv.id, None)
        if isinstance(obj, re.Pattern) and isinstance(node.args[0], ast.Name) and node.args[0].id == argname:
            return obj.pattern, obj.flags, meth
        return None
    if isinstance(recv, ast.Name) and recv.id == "re" and len(node.args) == 2 \
            and isinstance(node.args[1], ast.Name) and node.args[1].id == argname:
        p = node.args[0]
        if isinstance(p, ast.Constant) and isinstance(p.value, str):
            return p.value, re.UNICODE, meth
        if isinstance(p, ast.Name):
            obj = getattr(mod, p.id, None)
            if isinstance(obj, str):
                return obj, re.UNICODE, meth
            if isinstance(obj, re.Pattern):
                return obj.pattern, obj.flags, meth
    if isinstance(recv, ast.Call) and _call_name(recv) == "re.compile" and len(recv.args) == 1 and not recv.keywords \
            and isinstance(recv.args[0], ast.Constant) and isinstance(recv.args[0].value, str) \
            and len(node.args) == 1 and isinstance(node.args[0], ast.Name) and node.args[0].id == argname:
        return recv.args[0].value, re.UNICODE, meth
    return None


DANGEROUS = ("exec", "eval", "compile", "__import__")


def _contains_dangerous(node):
    return any(isinstance(c.func, ast.Name) and c.func.id in DANGEROUS for c in _calls(node))


RESOLVERS = ("importlib.import_module", "getattr", "type", "__import__", "eval", "exec", "import_module")


def fieldtype_facts(base):
    fn = getattr(base.fieldtype, "__wrapped__", base.fieldtype)
    node = _fn_ast(fn)
    params = [a.arg for a in node.args.args]
    if params != ["clspath"]:
        raise Unsupported("fieldtype signature %s" % params)
    body = _body_wo_doc(node)
    guard_at = resolve_at = None
    strips_one = False
    strip_at = None
    for i, st in enumerate(body):
        if guard_at is None and _has_return(st):
            raise Unsupported("fieldtype returns at line %d before the whitelist test" % st.lineno)
        if resolve_at is None and any(_call_name(c) in RESOLVERS for c in _calls(st)):
            resolve_at = i
        # if clspath not in WHITELIST: raise
        if isinstance(st, ast.If) and not st.orelse and _is_raise_only(st.body) and isinstance(st.test, ast.Compare) \
                and len(st.test.ops) == 1 and isinstance(st.test.ops[0], ast.NotIn) \
                and isinstance(st.test.left, ast.Name) and st.test.left.id == "clspath" \
                and isinstance(st.test.comparators[0], ast.Name) and st.test.comparators[0].id == "WHITELIST":
            if guard_at is None:
                guard_at = i
            continue
        # if clspath.endswith("[]"): ... clspath = clspath[:-2] ...
        assigns = [n for n in ast.walk(st) if isinstance(n, ast.Assign) and any(isinstance(t, ast.Name) and t.id == "clspath" for t in n.targets)]
        if assigns:
            t = st.test if isinstance(st, ast.If) else None
            ok = (isinstance(st, ast.If) and isinstance(t, ast.Call) and isinstance(t.func, ast.Attribute) and t.func.attr == "endswith"
                  and isinstance(t.func.value, ast.Name) and t.func.value.id == "clspath" and len(t.args) == 1
                  and isinstance(t.args[0], ast.Constant) and t.args[0].value == "[]" and len(assigns) == 1
                  and assigns[0] in st.body)
            if ok:
                v = assigns[0].value
                ok = (isinstance(v, ast.Subscript) and isinstance(v.value, ast.Name) and v.value.id == "clspath"
                      and isinstance(v.slice, ast.Slice) and v.slice.lower is None and v.slice.step is None
                      and isinstance(v.slice.upper, ast.UnaryOp) and isinstance(v.slice.upper.op, ast.USub)
                      and isinstance(v.slice.upper.operand, ast.Constant) and v.slice.upper.operand.value == 2)
            if not ok or strip_at is not None:
                raise Unsupported("fieldtype: clspath is rewritten in an unsupported way at line %d" % st.lineno)
            strip_at = i
            strips_one = True
    if strip_at is not None and guard_at is not None and strip_at > guard_at:
        raise Unsupported("fieldtype: clspath is rewritten after the whitelist test")
    import flow.record.whitelist as wl
    if getattr(base, "WHITELIST", None) is not wl.WHITELIST:
        raise Unsupported("base.WHITELIST is not whitelist.WHITELIST")
    before = guard_at is not None and (resolve_at is None or guard_at < resolve_at)
    return strips_one, before


# ---------------------------------------------------------------------------------------------
# who calls exec / _generate_record_class; untrusted routes

def _functions(tree):
    """(qualname, node) for every def in a module, one level of classes"""
    out = []
    for n in tree.body:
        if isinstance(n, (ast.FunctionDef, ast.AsyncFunctionDef)):
            out.append((n.name, n))
        elif isinstance(n, ast.ClassDef):
            for m in n.body:
                if isinstance(m, (ast.FunctionDef, ast.AsyncFunctionDef)):
                    out.append((n.name + "." + m.name, m))
    return out


def call_sites(base):
    tree = ast.parse(Path(base.__file__).read_text())
    execs, callers = [], []
    covered = set()
    for q, fn in _functions(tree):
        for c in _calls(fn):
            covered.add(id(c))
            if isinstance(c.func, ast.Name) and c.func.id in DANGEROUS:
                execs.append(q)
            if _call_name(c) == "_generate_record_class":
                callers.append(q)
    for c in _calls(tree):
        if id(c) not in covered:
            if isinstance(c.func, ast.Name) and c.func.id in DANGEROUS:
                execs.append("<module>")
            if _call_name(c) == "_generate_record_class":
                callers.append("<module>")
    return sorted(set(execs)), sorted(set(callers))


def _ctor_call(n):
    return isinstance(n, ast.Call) and _call_name(n) in ("RecordDescriptor", "RecordDescriptor._unpack",
                                                         "record.RecordDescriptor", "record.RecordDescriptor._unpack")


def _branch_returns_ctor(fn_node, is_test):
    """the `if <test>:` branch selected by is_test ends in `return RecordDescriptor[._unpack](...)` and calls nothing
    else than to_str"""
    for n in ast.walk(fn_node):
        if isinstance(n, ast.If) and is_test(n.test):
            last = n.body[-1]
            if not (isinstance(last, ast.Return) and _ctor_call(last.value)):
                return False
            for st in n.body:
                for c in _calls(st):
                    if not (_ctor_call(c) or _call_name(c) in ("to_str",)):
                        return False
            return True
    return False


def route_facts(base):
    import flow.record.jsonpacker as jp
    import flow.record.packer as pk
    out = []
    # RecordDescriptor._unpack(name, fields) -> RecordDescriptor(name, fields)
    un = _fn_ast(base.RecordDescriptor.__dict__["_unpack"].__func__)
    b = _body_wo_doc(un)
    unpack_ok = (len(b) == 1 and isinstance(b[0], ast.Return) and isinstance(b[0].value, ast.Call)
                 and _call_name(b[0].value) == "RecordDescriptor" and [a.arg for a in un.args.args] == ["name", "fields"]
                 and [getattr(a, "id", None) for a in b[0].value.args] == ["name", "fields"] and not b[0].value.keywords)
    out.append(("RecordDescriptor._unpack", unpack_ok))

    def is_desc_subtype(t):
        return (isinstance(t, ast.Compare) and len(t.ops) == 1 and isinstance(t.ops[0], ast.Eq)
                and isinstance(t.left, ast.Name) and t.left.id == "subtype"
                and isinstance(t.comparators[0], ast.Name) and t.comparators[0].id == "RECORD_PACK_TYPE_DESCRIPTOR")
    out.append(("packer.unpack_obj/RECORD_PACK_TYPE_DESCRIPTOR", _branch_returns_ctor(_fn_ast(pk.RecordPacker.unpack_obj), is_desc_subtype)))

    def is_json_desc(t):
        return (isinstance(t, ast.Compare) and len(t.ops) == 1 and isinstance(t.ops[0], ast.Eq)
                and isinstance(t.left, ast.Name) and t.left.id == "_type"
                and isinstance(t.comparators[0], ast.Constant) and t.comparators[0].value == "recorddescriptor")
    out.append(("jsonpacker.unpack_obj/recorddescriptor", _branch_returns_ctor(_fn_ast(jp.JsonRecordPacker.unpack_obj), is_json_desc)))

    # avro: read from the file (no import of fastavro needed)
    avro_path = Path(base.__file__).parent / "adapter" / "avro.py"
    tree = ast.parse(avro_path.read_text())
    fn = [n for n in tree.body if isinstance(n, ast.FunctionDef) and n.name == "schema_to_descriptor"]
    ok = False
    if fn:
        rets = [n for n in ast.walk(fn[0]) if isinstance(n, ast.Return)]
        ok = bool(rets) and all(_ctor_call(r.value) for r in rets) and not _contains_dangerous(fn[0])
    out.append(("avro.schema_to_descriptor", ok))
    return out


# ---------------------------------------------------------------------------------------------
# template

HOLES = {"name": "HName", "field_types": "HFieldTypes", "slots_tuple": "HSlots", "args": "HArgs",
         "init_code": "HInit", "unpack_code": "HUnpack"}


def template_pieces(base):
    t = base.RECORD_CLASS_TEMPLATE
    if not isinstance(t, str):
        raise Unsupported("RECORD_CLASS_TEMPLATE is not a str")
    out = []
    for lit, field, spec, conv in string.Formatter().parse(t):
        if lit:
            out.append("TText %s" % cstrN(lit))
        if field is not None:
            if spec or conv or field not in HOLES:
                raise Unsupported("RECORD_CLASS_TEMPLATE hole {%s!%s:%s}" % (field, conv, spec))
            out.append("THole %s" % HOLES[field])
    return out


def code_constants(base):
    """the string constants of _generate_record_class that the render model takes as facts: the tail appended to
    init_code, and args / init_code / unpack_code of the keyword path"""
    fn = getattr(base._generate_record_class, "__wrapped__", base._generate_record_class)
    node = _fn_ast(fn)
    tail = None
    kw = {}
    for st in _body_wo_doc(node):
        if isinstance(st, ast.AugAssign) and isinstance(st.target, ast.Name) and st.target.id == "init_code" \
                and isinstance(st.op, ast.Add) and isinstance(st.value, ast.Constant) and isinstance(st.value.value, str):
            if tail is not None:
                raise Unsupported("_generate_record_class appends two constants to init_code")
            tail = st.value.value
        if isinstance(st, ast.If) and any(isinstance(n, ast.Name) and n.id == "contains_keyword" for n in ast.walk(st.test)):
            for b in st.body:
                if isinstance(b, ast.Assign) and len(b.targets) == 1 and isinstance(b.targets[0], ast.Name) \
                        and b.targets[0].id in ("args", "init_code", "unpack_code") \
                        and isinstance(b.value, ast.Constant) and isinstance(b.value.value, str):
                    kw[b.targets[0].id] = b.value.value
                else:
                    raise Unsupported("_generate_record_class: keyword path statement at line %d" % b.lineno)
    if tail is None or set(kw) != {"args", "init_code", "unpack_code"}:
        raise Unsupported("_generate_record_class: init_code tail / keyword path constants not found")
    return tail, kw


def to_str_fact(base):
    """behavioural fact about utils.to_str, the function that turns names delivered as bytes into text before they are
    validated: identity on str; on bytes exactly bytes.decode("utf-8", "surrogateescape") -- every undecodable byte is
    kept as one (lone surrogate) code point, nothing is dropped, merged or replaced.  Tested on a battery that puts
    every single byte value and a set of invalid / truncated / overlong / surrogate sequences at every position of
    several names."""
    import flow.record.packer as pk
    import flow.record.utils as utils
    f = utils.to_str
    if getattr(base, "to_str", None) is not f or getattr(pk, "to_str", None) is not f:
        raise Unsupported("base.to_str / packer.to_str is not utils.to_str")
    # names delivered as bytes are decoded (not refused as "not a str", not repr()'d) before they are validated
    try:
        d = base.RecordDescriptor(b"zq/tostr", [(b"string", b"x")])
        if d.name != "zq/tostr" or tuple(d.get_field_tuples()) != (("string", "x"),):
            raise Unsupported("RecordDescriptor does not decode names given as bytes with to_str")
    except Unsupported:
        raise
    except Exception as e:
        raise Unsupported("RecordDescriptor refuses names given as bytes: %r" % e)
    ok = True
    for s_ in ("", "a", "abc/def", "\u00e9", "a\n", "\udcff", "\U0001d41a", "x" * 300):
        r = f(s_)
        ok = ok and isinstance(r, str) and r == s_
    seqs = [bytes([b]) for b in range(256)] + [
        b"\xc3", b"\xc3\x28", b"\xc3\xa9", b"\xe2\x82", b"\xe2\x82\xac", b"\xed\xa0\x80", b"\xf0\x9f\x98", b"\xf0\x9f\x98\x80",
        b"\xc0\xaf", b"\xf8\x88\x80\x80\x80", b"\xff\xfe", b"\xfe\xff", b"\x80\x80", b"\xef\xbb\xbf", b"\xf4\x90\x80\x80"]
    hosts = [b"", b"evil/type", b"payload", b"string", b"net.ipaddress"]
    for h in hosts:
        for q in seqs:
            for pos in sorted({0, len(h) // 2, len(h)}) if len(q) == 1 else range(len(h) + 1):
                b = h[:pos] + q + h[pos:]
                try:
                    r = f(b)
                except Exception:
                    ok = False
                    continue
                want = b.decode("utf-8", "surrogateescape")
                if not (isinstance(r, str) and r == want):
                    ok = False
                # the two properties the Coq lemma assumes of the decoder
                if all(x < 128 for x in b):
                    ok = ok and r == b.decode("ascii")
                else:
                    ok = ok and isinstance(r, str) and any(ord(ch) >= 128 for ch in r)
    return bool(ok)


# ---------------------------------------------------------------------------------------------
# OBSERVATION: most facts are derived from what the code DOES on purpose-built probes; the ast recognisers above are
# cross-checks (recognised and contradicting -> fail closed; spelling not recognised -> note in the generated file)

class Contradiction(Unsupported):
    pass


_MISSING = object()
OBS_ALPHABET = ["a", "Z", "0", "_", "/", "\n", "\r", "é", " ", "-"]


def _strings_upto(n, alpha):
    if n == 0:
        return [""]
    sub = _strings_upto(n - 1, alpha)
    return [""] + [c + x for c in alpha for x in sub]


class _ReProxy:
    """stands in for a module-level compiled pattern: logs which pattern is asked about which string"""

    def __init__(self, pat, tag, log):
        self._pat, self._tag, self._log = pat, tag, log

    def _call(self, meth, s, *a, **k):
        self._log.append(("re", self._tag, meth, s))
        return getattr(self._pat, meth)(s, *a, **k)

    def match(self, s, *a, **k):
        return self._call("match", s, *a, **k)

    def search(self, s, *a, **k):
        return self._call("search", s, *a, **k)

    def fullmatch(self, s, *a, **k):
        return self._call("fullmatch", s, *a, **k)

    def __getattr__(self, name):
        return getattr(self._pat, name)


class Observer:
    """flow.record.base with exec, is_valid_field_name, RecordField.__init__, RecordDescriptor.__init__, fieldtype,
    importlib, getattr and the module-level compiled patterns replaced by logging stand-ins (restored by close())"""

    def __init__(self, base):
        import builtins
        self.base = base
        self.log = []
        self._saved = {}
        self._rf_depth = 0
        obs = self
        self.patterns = {k: v for k, v in vars(base).items() if isinstance(v, re.Pattern)}

        def put(name, val):
            self._saved.setdefault(name, base.__dict__.get(name, _MISSING))
            setattr(base, name, val)
        self._put = put

        def spy_exec(code, *a, **k):
            obs.log.append(("exec", code))
            return builtins.exec(code, *a, **k)
        put("exec", spy_exec)

        self.orig_ivfn = base.is_valid_field_name
        sig = inspect.signature(self.orig_ivfn)

        def ivfn(*a, **k):
            r = obs.orig_ivfn(*a, **k)
            try:
                ba = sig.bind(*a, **k)
                ba.apply_defaults()
                args = list(ba.arguments.values())
            except TypeError:
                args = [None, None]
            obs.log.append(("ivfn", args[0], args[1] if len(args) > 1 else None, obs._rf_depth > 0, bool(r)))
            return r
        put("is_valid_field_name", ivfn)

        self.orig_ft = base.fieldtype

        def ft(path):
            obs.log.append(("fieldtype", path))
            return obs.orig_ft(path)
        ft.__wrapped__ = getattr(self.orig_ft, "__wrapped__", self.orig_ft)
        ft.cache_clear = getattr(self.orig_ft, "cache_clear", lambda: None)
        put("fieldtype", ft)

        self._rf_init = base.RecordField.__init__

        def rf_init(self_, *a, **k):
            obs._rf_depth += 1
            obs.log.append(("rf_enter",) + tuple(a))
            try:
                return obs._rf_init(self_, *a, **k)
            finally:
                obs._rf_depth -= 1
                obs.log.append(("rf_exit",))
        base.RecordField.__init__ = rf_init

        self._rd_init = base.RecordDescriptor.__init__

        def rd_init(self_, *a, **k):
            obs.log.append(("rd_init", id(self_)) + tuple(a))
            return obs._rd_init(self_, *a, **k)
        base.RecordDescriptor.__init__ = rd_init

        for k, v in self.patterns.items():
            put(k, _ReProxy(v, k, self.log))

    def shadow_resolvers(self):
        import builtins
        obs = self
        real = self.base.__dict__.get("importlib")

        class Imp:
            def __getattr__(self, name):
                return getattr(real, name)

            def import_module(self, name, *a, **k):
                obs.log.append(("import", name))
                return real.import_module(name, *a, **k)
        if real is not None:
            self._put("importlib", Imp())

        def spy_getattr(*a):
            obs.log.append(("getattr", a[1] if len(a) > 1 else None))
            return builtins.getattr(*a)
        self._put("getattr", spy_getattr)

        def spy_type(*a, **k):
            if len(a) == 3:
                obs.log.append(("type", a[0]))
            return builtins.type(*a, **k)
        self._put("type", spy_type)

    def unshadow_resolvers(self):
        for name in ("importlib", "getattr", "type"):
            if name in self._saved:
                old = self._saved.pop(name)
                if old is _MISSING:
                    delattr(self.base, name)
                else:
                    setattr(self.base, name, old)

    def close(self):
        self.base.RecordField.__init__ = self._rf_init
        self.base.RecordDescriptor.__init__ = self._rd_init
        for name, old in self._saved.items():
            if old is _MISSING:
                try:
                    delattr(self.base, name)
                except AttributeError:
                    pass
            else:
                setattr(self.base, name, old)
        self._saved = {}

    def construct(self, name, fields):
        """RecordDescriptor(name, fields) -> (descriptor | None, exception | None, log of this call)"""
        cc = getattr(self.base._generate_record_class, "cache_clear", None)
        if cc:
            cc()
        start = len(self.log)
        try:
            d, err = self.base.RecordDescriptor(name, fields), None
        except Exception as e:  # noqa: BLE001
            d, err = None, e
        return d, err, self.log[start:]


def _end_from_probes(accepts_nl, accepts_tail):
    if accepts_tail:
        return "EndNone"
    return "EndDollar" if accepts_nl else "EndZ"


def _expected_match(pat, end, s):
    return (pat.fullmatch(s) if end == "EndZ" else pat.match(s)) is not None


def _check_end_against_pattern(end_obs, end_pat, where):
    # "\Z" cannot behave like "$" or like no anchor; "$" cannot behave like no anchor; (fullmatch makes "$"/nothing
    # behave like "\Z", that is fine)
    order = {"EndZ": 0, "EndDollar": 1, "EndNone": 2}
    if order[end_obs] > order[end_pat]:
        raise Contradiction("%s: the pattern ends in %s but behaves like %s" % (where, end_pat, end_obs))


def observe_field_validator(base, obs, notes):
    """is_valid_field_name as an observed decision table over its four tests -> (dtree term, re_fact term)"""
    f = obs.orig_ivfn
    reserved = list(base.RESERVED_FIELDS)
    # which compiled pattern does it consult?
    start = len(obs.log)
    obs.base.is_valid_field_name("zqprobe", True)
    used = [e[1] for e in obs.log[start:] if e[0] == "re"]
    if len(set(used)) == 1:
        pat = obs.patterns[used[0]]
    else:
        pat = obs.patterns.get("RE_VALID_FIELD_NAME")
        if pat is None:
            raise Unsupported("is_valid_field_name: cannot tell which compiled pattern it uses")
        notes.append("is_valid_field_name: pattern use not observed through the module attribute; RE_VALID_FIELD_NAME assumed, "
                     "validated by the decision table")
    body, end_pat, _ = regex_parts(pat.pattern, pat.flags, "field-name pattern")
    for cr in (True, False):
        if not f("a", cr):
            raise Unsupported("is_valid_field_name('a') is false")
    end = _end_from_probes(bool(f("a\n", True)), bool(f("a;", True)))
    _check_end_against_pattern(end, end_pat, "field-name pattern")
    battery = _strings_upto(3, OBS_ALPHABET) + reserved + [
        "_x", "__", "_1", "_-", "a" * 300, "a" * 300 + "-", "class", "from", "ａ", "a\n", "_a\n", "a\n\n", "\na", "a;b", "ab;",
        "_source2", "x_source", "a\x00", "\udcff", "A9_z", "_é"] + ["_" + x for x in _strings_upto(2, OBS_ALPHABET)]
    cells = {}
    for s_ in battery:
        for cr in (True, False):
            try:
                out = bool(f(s_, cr))
            except Exception as e:  # noqa: BLE001
                raise Unsupported("is_valid_field_name(%r, %r) raises %r" % (s_, cr, e))
            res = s_ in base.RESERVED_FIELDS
            key = (cr, True, None, None) if res else (cr, False, s_.startswith("_"), _expected_match(pat, end, s_))
            cells.setdefault(key, {}).setdefault(out, s_)
    for key, outs in cells.items():
        if len(outs) != 1:
            raise Unsupported("is_valid_field_name is not a function of (check_reserved, reserved?, leading underscore?, pattern "
                              "match?): %r gives %r" % (key, outs))
    need = [(cr, True, None, None) for cr in (True, False)] + [(cr, False, u, m) for cr in (True, False) for u in (True, False) for m in (True, False)]
    for key in need:
        if key not in cells:
            raise Unsupported("is_valid_field_name: no probe for case %r" % (key,))
    o = {k: cbool(next(iter(v))) for k, v in cells.items()}

    def sub(cr):
        return "(DIf AStartsUnderscore (DIf ARegexMatch (DRet %s) (DRet %s)) (DIf ARegexMatch (DRet %s) (DRet %s)))" % (
            o[(cr, False, True, True)], o[(cr, False, True, False)], o[(cr, False, False, True)], o[(cr, False, False, False)])
    tree = "(DIf AInReserved (DIf ACheckReserved (DRet %s) (DRet %s)) (DIf ACheckReserved %s %s))" % (
        o[(True, True, None, None)], o[(False, True, None, None)], sub(True), sub(False))
    return tree, "{| re_body := %s; re_end := %s |}" % (body, end)


def observe_generate(base, obs, notes):
    """what RecordDescriptor(name, fields) does, in which order, on benign and on failing definitions
    -> (gsteps, grc_check_reserved, rf_check_reserved, rf_validates_before_fieldtype, re_fact of the type-name pattern)"""
    n = [0]

    def fresh():
        n[0] += 1
        return "zq/obs%d" % n[0]
    benign = [
        [("string", "pa")], [("string", "pa"), ("varint", "pb"), ("string[]", "pc")],
        [("string", "from"), ("varint", "pb"), ("string", "pc")], [("string", "pa"), ("varint", "class"), ("string", "pc")],
        [("string", "pa"), ("varint", "pb"), ("string", "is")], [("string", "None"), ("varint", "import"), ("string", "pc"), ("uri", "pd")],
        [],
    ]
    grc_checks, rf_checks = set(), set()
    outside_seen = False
    rf_before = True
    type_tags = set()
    type_before_exec = True
    for fields in benign:
        name = fresh()
        d, err, log = obs.construct(name, fields)
        if err is not None:
            raise Unsupported("a benign definition %r is refused: %r" % (fields, err))
        execs = [i for i, e in enumerate(log) if e[0] == "exec"]
        if len(execs) != 1:
            raise Unsupported("a benign definition led to %d exec calls" % len(execs))
        x = execs[0]
        declared = [nm for _, nm in fields]
        outside = [e for e in log[:x] if e[0] == "ivfn" and not e[3]]
        if outside:
            outside_seen = True
            if [e[1] for e in outside] != declared:
                raise Contradiction("_generate_record_class checks the field names %r of the declared %r before exec (not every field "
                                    "is checked)" % ([e[1] for e in outside], declared))
            grc_checks |= {e[2] for e in outside}
        rfs = [e[1:] for e in log[:x] if e[0] == "rf_enter"]
        want = [(nm, t) for t, nm in fields]
        if [r for r in rfs if r in want] != want:
            raise Contradiction("RecordField is built for %r, declared %r" % (rfs, want))
        # inside every RecordField: name check, then fieldtype
        i = 0
        while i < x:
            if log[i][0] == "rf_enter":
                j = i
                while log[j][0] != "rf_exit":
                    j += 1
                inner = log[i + 1:j]
                iv = [k for k, e in enumerate(inner) if e[0] == "ivfn"]
                ftc = [k for k, e in enumerate(inner) if e[0] == "fieldtype"]
                if not ftc:
                    raise Unsupported("RecordField.__init__ does not call fieldtype()")
                if not iv or iv[0] > ftc[0] or inner[iv[0]][1] != log[i][1]:
                    rf_before = False
                rf_checks |= {inner[k][2] for k in iv}
                i = j
            i += 1
        res = [e for e in log if e[0] == "re" and e[3] == name]
        for e in res:
            type_tags.add(e[1])
        if res and log.index(res[0]) > x:
            type_before_exec = False
    if len(grc_checks) > 1 or len(rf_checks) > 1:
        raise Unsupported("is_valid_field_name is called with varying check_reserved: %r / %r" % (grc_checks, rf_checks))

    # failing definitions: an Exception, and exec is never reached
    def refused_before_exec(name, fields):
        d, err, log = obs.construct(name, fields)
        return err is not None and not any(e[0] == "exec" for e in log)

    def at_positions(bad_pair):
        out = []
        for k in range(3):
            for kw_at in (None, 0, 1, 2):
                fs = [("string", "pa"), ("varint", "pb"), ("string", "pc")]
                if kw_at is not None and kw_at != k:
                    fs[kw_at] = ("string", "from")
                fs[k] = bad_pair
                out.append(fs)
        out.append([bad_pair])
        return out
    bad_names = ["a-b", "_x", "1a", "", "a b", "é", "a.b", "__"]
    names_ok = all(refused_before_exec(fresh(), fs) for b in bad_names for fs in at_positions(("string", b)))
    reserved_refused = [refused_before_exec(fresh(), fs) for r in base.RESERVED_FIELDS for fs in at_positions(("string", r))]
    types_ok = all(refused_before_exec(fresh(), fs) for b in ["nosuchtype", "os.system", "string[][]", "", "net", "String", "string "]
                   for fs in at_positions((b, "px")))
    bad_type_names = ["1a", "a//b", "a-b", "_a", "é/x", "a/", "/a", "a b", "a/_b"]
    tname_ok = all(refused_before_exec(b, [("string", "pa")]) and refused_before_exec(b, []) for b in bad_type_names)

    steps = []
    if outside_seen:
        grc_check = next(iter(grc_checks))
        if names_ok:
            steps.append("GCheckFieldNames")
    else:
        # the check is not made through the module-level name is_valid_field_name: decide by behaviour alone
        notes.append("_generate_record_class: calls of is_valid_field_name not observed; field-name step decided by behaviour")
        grc_check = all(reserved_refused)
        if names_ok and grc_check:
            steps.append("GCheckFieldNames")
    if grc_check and not all(reserved_refused):
        raise Contradiction("a reserved field name reaches exec although is_valid_field_name(..., check_reserved=True) is called")
    rf_check = next(iter(rf_checks)) if rf_checks else False
    if types_ok and (names_ok or not rf_before):
        steps.append("GBuildRecordFields")
    # type-name pattern
    if len(type_tags) == 1:
        pat = obs.patterns[next(iter(type_tags))]
    else:
        pat = obs.patterns.get("RE_VALID_RECORD_TYPE_NAME")
        if pat is None:
            raise Unsupported("_generate_record_class: cannot tell which pattern validates the type name")
        notes.append("type-name pattern use not observed through a module attribute; RE_VALID_RECORD_TYPE_NAME assumed, validated "
                     "by the battery")
    body, end_pat, _ = regex_parts(pat.pattern, pat.flags, "type-name pattern")

    def reaches(name):
        d, err, log = obs.construct(name, [])
        return any(e[0] == "exec" for e in log)
    if not reaches("zqa"):
        raise Unsupported("a benign type name does not reach exec")
    end = _end_from_probes(reaches("zqa\n"), reaches("zqa;"))
    _check_end_against_pattern(end, end_pat, "type-name pattern")
    for s_ in _strings_upto(3, OBS_ALPHABET):
        if s_ and reaches(s_) != _expected_match(pat, end, s_):
            raise Unsupported("type name %r: reaches exec = %r, but the pattern says %r" % (s_, reaches(s_), _expected_match(pat, end, s_)))
    if tname_ok and type_before_exec:
        steps.append("GCheckTypeName")
    steps.append("GExec")
    return steps, bool(grc_check), bool(rf_check), bool(rf_before), "{| re_body := %s; re_end := %s |}" % (body, end)


def loop_cross_check(base, notes):
    """what cannot be observed: the loop that validates the field names has no early exit.  Looks at _generate_record_class and,
    one level down, at the module-level functions it hands `fields` to."""
    import types
    fn = getattr(base._generate_record_class, "__wrapped__", base._generate_record_class)
    node = _fn_ast(fn)
    cands = [("_generate_record_class", node)]
    exec_seen = False
    for st in _body_wo_doc(node):
        if _contains_dangerous(st):
            exec_seen = True
        if not exec_seen and _has_return(st):
            raise Contradiction("_generate_record_class returns at line %d, before exec" % st.lineno)
        if exec_seen:
            break
        for c in _calls(st):
            nm = _call_name(c)
            tgt = getattr(base, nm, None) if nm and "." not in nm else None
            tgt = getattr(tgt, "__wrapped__", tgt)
            if isinstance(tgt, types.FunctionType) and tgt.__module__ == base.__name__ and nm != "is_valid_field_name" \
                    and any(isinstance(a, ast.Name) and a.id == "fields" for a in c.args):
                cands.append((nm, _fn_ast(tgt)))
    found = 0
    for nm, nd in cands:
        for loop in [x for x in ast.walk(nd) if isinstance(x, (ast.For, ast.While))]:
            if any(_call_name(c) == "is_valid_field_name" for c in _calls(loop)):
                found += 1
                esc = _loop_escape(loop)
                if esc is not None:
                    raise Contradiction("%s: the loop that validates field names has `%s` at line %d (not every field is "
                                        "checked)" % ((nm,) + esc))
                if loop.orelse:
                    raise Contradiction("%s: the loop that validates field names has an else clause" % nm)
    if not found:
        notes.append("shape not recognised: no explicit loop over the fields that calls is_valid_field_name; observed behaviour "
                     "used (every declared name is checked on the probes)")


def observe_fieldtype(base, obs, notes):
    """fieldtype() on every whitelist entry, its list form, list-of-list form and a battery of non-entries, with importlib,
    getattr and type shadowed -> (strips exactly one list suffix, whitelist decision precedes every resolution attempt)"""
    raw = getattr(obs.orig_ft, "__wrapped__", obs.orig_ft)
    import flow.record.whitelist as wlmod
    wl = list(wlmod.WHITELIST)
    obs.shadow_resolvers()
    try:
        def run(p):
            start = len(obs.log)
            try:
                r, err = raw(p), None
            except Exception as e:  # noqa: BLE001
                r, err = None, e
            att = [e for e in obs.log[start:] if e[0] in ("import", "getattr", "type")]
            return r, err, att
        entries_ok = all(run(w)[1] is None for w in wl)
        lists_ok = all(run(w + "[]")[1] is None for w in wl)
        lol_refused = all(run(w + "[][]")[1] is not None and not run(w + "[][]")[2] for w in wl)
        prefixes = sorted({".".join(w.split(".")[:k]) for w in wl for k in range(1, len(w.split(".")))})
        non = ["nosuchtype", "os.system", "os", "sys", "typedlist", "FieldType", "RecordField", "__builtins__", "builtins.eval", "",
               "[]", " string", "string ", "string\n", "String", "net.ip.ipaddress", "flow.record.fieldtypes.string", "..string",
               "net..ipaddress", "string.__class__", "subprocess.Popen", "windows_path", "posix_path"] + prefixes + [x + "." for x in prefixes]
        non = [x for x in non if x not in wl]
        non = non + [x + "[]" for x in non if not x.endswith("[]")]
        refused, attempted = True, False
        for p_ in non:
            if p_.endswith("[]") and p_[:-2] in wl:
                continue
            r, err, att = run(p_)
            if err is None:
                refused = False
            if att:
                attempted = True
        if not entries_ok:
            raise Unsupported("fieldtype() refuses a whitelist entry")
        strips_one = lists_ok and lol_refused
        before = refused and not attempted
    finally:
        obs.unshadow_resolvers()
    try:
        a_strip, a_before = fieldtype_facts(base)
        if (a_strip, a_before) != (strips_one, before):
            raise Contradiction("fieldtype: source says (strips one suffix, whitelist first) = %r, observed %r" % (
                (a_strip, a_before), (strips_one, before)))
    except Contradiction:
        raise
    except Unsupported as e:
        notes.append("shape not recognised (fieldtype: %s); observed behaviour used" % str(e)[:80])
    return strips_one, before


def observe_routes(base, obs, notes):
    """every untrusted route constructs exactly one RecordDescriptor from exactly the delivered definition"""
    import json as _json

    import msgpack

    import flow.record.jsonpacker as jp
    import flow.record.packer as pk
    fields = [["string", "pa"], ["varint[]", "pb"]]

    def probe(label, deliver):
        name = "zq/route" + "".join(ch for ch in label if ch.isalnum())
        start = len(obs.log)
        try:
            d = deliver(name)
        except Exception as e:  # noqa: BLE001
            raise Unsupported("route %s refuses a benign definition: %r" % (label, e))
        inits = [e for e in obs.log[start:] if e[0] == "rd_init"]
        ok = (len(inits) == 1 and isinstance(d, base.RecordDescriptor) and inits[0][1] == id(d) and len(inits[0]) == 4
              and base.to_str(inits[0][2]) == name and [list(x) for x in inits[0][3]] == fields
              and d.name == name and [list(x) for x in d.get_field_tuples()] == fields)
        return ok
    out = [
        ("RecordDescriptor._unpack", probe("unpack", lambda n: base.RecordDescriptor._unpack(n, fields))),
        ("packer.unpack_obj/RECORD_PACK_TYPE_DESCRIPTOR", probe("frame", lambda n: pk.RecordPacker().unpack(
            pk.packb(msgpack.ExtType(0x0E, pk.packb((2, (n, fields)))))))),
        ("jsonpacker.unpack_obj/recorddescriptor", probe("json", lambda n: jp.JsonRecordPacker().unpack(
            _json.dumps({"_type": "recorddescriptor", "_data": [n, fields]})))),
    ]
    try:
        from flow.record.adapter.avro import schema_to_descriptor
        out.append(("avro.schema_to_descriptor", probe("avro", lambda n: schema_to_descriptor(
            {"type": "record", "name": "x", "doc": _json.dumps([n, fields]), "fields": []}))))
    except ImportError:
        notes.append("avro adapter not importable: route judged from source")
        out.append(("avro.schema_to_descriptor", dict(route_facts(base))["avro.schema_to_descriptor"]))
    try:
        src = dict(route_facts(base))
        for k, v in out:
            if v and not src.get(k, True):
                notes.append("shape not recognised (route %s); observed behaviour used" % k)
    except Unsupported as e:
        notes.append("shape not recognised (routes: %s); observed behaviour used" % str(e)[:80])
    return out


def observe_constants(base, obs, notes):
    """the text _generate_record_class puts into the holes that the model takes as constants: recovered from the source
    handed to exec (tabs already expanded) by matching it against RECORD_CLASS_TEMPLATE"""
    parts = list(string.Formatter().parse(base.RECORD_CLASS_TEMPLATE))
    rx = "^"
    seen = {}
    for lit, field, _spec, _conv in parts:
        rx += re.escape(lit.replace("\t", "    "))
        if field is not None:
            if field in seen:
                rx += "(?P=%s)" % field
            else:
                seen[field] = True
                rx += "(?P<%s>.*?)" % field
    rx += "$"

    def holes(fields):
        d, err, log = obs.construct("zq/const%d" % len(obs.log), fields)
        src = [e[1] for e in log if e[0] == "exec"]
        m = re.match(rx, src[0], re.S) if err is None and len(src) == 1 else None
        if not m:
            raise Unsupported("the source handed to exec does not match RECORD_CLASS_TEMPLATE")
        return m.groupdict()
    kw = holes([("string", "class")])
    plain = holes([("string", "pa")])
    a, b = kw["init_code"], plain["init_code"]
    k = 0
    while k < min(len(a), len(b)) and a[-1 - k] == b[-1 - k]:
        k += 1
    tail = a[len(a) - k:]
    if tail.startswith("\n"):
        tail = tail[1:]
    if not tail or not a.endswith(tail):
        raise Unsupported("no common tail of the generated __init__ bodies")
    got = dict(tail=tail, args=kw["args"], init_code=a[:len(a) - len(tail)], unpack_code=kw["unpack_code"])
    try:
        t_ast, kw_ast = code_constants(base)
        want = dict(tail=t_ast, **kw_ast)
        for key in got:
            if want[key].replace("\t", "    ") != got[key]:
                raise Contradiction("constant %s: source says %r, the generated code has %r" % (key, want[key][:60], got[key][:60]))
    except Contradiction:
        raise
    except Unsupported as e:
        notes.append("shape not recognised (%s); text recovered from the exec'd source used" % str(e)[:80])
    return got


def gen_names():
    import flow.record.base as base
    notes = []
    execs, callers = call_sites(base)
    pieces = template_pieces(base)
    loop_cross_check(base, notes)
    reserved = list(base.RESERVED_FIELDS.items())
    if not all(isinstance(k, str) and isinstance(v, str) for k, v in reserved):
        raise Unsupported("RESERVED_FIELDS is not str -> str")
    import flow.record.whitelist as wlmod
    wl = list(wlmod.WHITELIST)          # the configuration the property is relative to
    if not all(isinstance(x, str) for x in wl):
        raise Unsupported("WHITELIST holds non-strings")
    if "WHITELIST" in vars(base) and base.WHITELIST is not wlmod.WHITELIST:
        raise Unsupported("base.WHITELIST is not whitelist.WHITELIST")
    if "WHITELIST" not in vars(base):
        notes.append("flow.record.base has no WHITELIST alias; fieldtype()'s decision is observed against whitelist.WHITELIST")
    obs = Observer(base)
    try:
        tree, field_re = observe_field_validator(base, obs, notes)
        steps, grc_check, rf_check, rf_before, type_fact = observe_generate(base, obs, notes)
        strips_one, wl_before = observe_fieldtype(base, obs, notes)
        routes = observe_routes(base, obs, notes)
        consts = observe_constants(base, obs, notes)
    finally:
        obs.close()
    tostr = to_str_fact(base)
    plain = []
    ft = getattr(base.fieldtype, "__wrapped__", base.fieldtype)
    for t in wl:
        for suffix in ("", "[]"):
            try:
                cls = ft(t + suffix)
            except Exception:
                continue
            if cls.default == base.FieldType.default:
                plain.append(t + suffix)

    out = HEADER
    out += "From Coq Require Import List Bool NArith.\nImport ListNotations.\nFrom FR Require Import Regex Names.\nOpen Scope N_scope.\n\n"
    # (the pattern texts are not echoed into a comment: they contain the comment terminator)
    out += "(* observed: is_valid_field_name decision table, check order / coverage in RecordDescriptor(), fieldtype() whitelist\n"
    out += "   decision and resolution attempts, untrusted routes, generated-code constants; from source: exec sites, callers,\n"
    out += "   no early exit in the validation loop; live values: patterns, RESERVED_FIELDS, WHITELIST, template *)\n"
    for nt in notes:
        out += "(* note: %s *)\n" % nt.replace("*)", "* )").replace("(*", "( *")
    out += "Definition facts : name_facts := {|\n"
    out += "  nf_field_re := %s;\n" % field_re
    out += "  nf_type_re := %s;\n" % type_fact
    out += "  nf_reserved := %s;\n" % clist([cpair(cstrN(k), cstrN(v)) for k, v in reserved])
    out += "  nf_whitelist := %s;\n" % clist([cstrN(x) for x in wl], sep=";\n    ")
    out += "  nf_keywords := %s;\n" % clist([cstrN(x) for x in keyword.kwlist], sep=";\n    ")
    out += "  nf_field_valid := %s;\n" % tree
    out += "  nf_grc_check_reserved := %s;\n" % cbool(grc_check)
    out += "  nf_rf_check_reserved := %s;\n" % cbool(rf_check)
    out += "  nf_gsteps := %s;\n" % clist(steps)
    out += "  nf_rf_validates_before_fieldtype := %s;\n" % cbool(rf_before)
    out += "  nf_ft_strips_one_list_suffix := %s;\n" % cbool(strips_one)
    out += "  nf_ft_whitelist_before_import := %s;\n" % cbool(wl_before)
    out += "  nf_exec_sites := %s;\n" % clist([cstrN(x) for x in execs])
    out += "  nf_grc_callers := %s;\n" % clist([cstrN(x) for x in callers])
    out += "  nf_routes := %s;\n" % clist([cpair(cstrN(k), cbool(v)) for k, v in routes], sep=";\n    ")
    out += "  nf_template := %s;\n" % clist(pieces, sep=";\n    ")
    out += "  nf_plain_default_types := %s;\n" % clist([cstrN(x) for x in plain])
    out += "  nf_init_tail := %s;\n" % cstrN(consts["tail"])
    out += "  nf_kw_args := %s;\n" % cstrN(consts["args"])
    out += "  nf_kw_init := %s;\n" % cstrN(consts["init_code"])
    out += "  nf_kw_unpack := %s;\n" % cstrN(consts["unpack_code"])
    out += "  nf_to_str_surrogateescape := %s\n" % cbool(tostr)
    out += "|}.\n"
    write_if_changed(GEN / "Gen_names.v", out)


GENERATORS = [gen_names]
